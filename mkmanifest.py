#!/usr/bin/env python3
"""Regenerate MANIFEST.json from vlib/props.py (developer action)."""
import json, os, sys
sys.path.insert(0, os.path.dirname(os.path.abspath(__file__)))
from vlib import props
here = os.path.dirname(os.path.abspath(__file__))
allp = [json.loads(l) for l in open(os.path.join(here, 'properties.jsonl'))]
NA = {
    'C17': 'non-interference of the compiled program implied by a syntactic fact about the partial evaluator residue; the deciding code (shrink_bodyform_visited + mash_conditions + codegen, ~1700 closure/trait-object lines) is outside Verus and Kani reach and no per-function contract states or implies it (DESIGN.md C17)',
}
checks = []
na = []
for p in allp:
    pid = p['id']
    c = props.PROPS.get(pid)
    if c is None:
        na.append({'property_id': pid, 'reason': NA.get(pid, 'no contract-based check built yet for this property (see DESIGN.md section 4)')})
        continue
    kani = c.get('kani', [])
    tech = 'Verus contracts (requires/ensures/invariants) on function text extracted from /repo each run'
    if kani and c.get('units'):
        tech += ' + Kani harnesses on a scratch copy of the real crate'
    elif kani:
        tech = 'Kani proof harnesses (loop-free, full-domain symbolic inputs) on a scratch copy of the real crate'
    if c.get('mechanical'):
        tech += ' + mechanical frame scan'
    checks.append({
        'property_id': pid,
        'quick_cmd': './check %s --tier quick' % pid,
        'thorough_cmd': './check %s --tier thorough' % pid,
        'evidence_file': '/verif/evidence/%s.json' % pid,
        'replay_cmd_template': './check replay {path}',
        'engine': 'contracts',
        'level_claimed': {
            'category': 'proof',
            'text': ('Deductive proof, for all inputs, of: ' + c['decided'] + '. ' + ('' if c.get('whole') else props.PARTIAL)),
            'design_ref': 'DESIGN.md section 4 / ' + pid,
        },
        'level_note': 'Trusted base: prelude stand-ins for num_bigint / clvmr / std (assumed contracts, listed in evidence.trusted_base), stated rewrites R1-R10, Verus + Z3, Kani + CBMC. Not covered: ' + '; '.join(c.get('not_covered', [])),
        'technique': tech,
    })
m = {
    'version': 1,
    'setup_cmd': 'python3 -c "import shutil,sys; sys.exit(0 if all(shutil.which(t) for t in (\'verus\',\'cargo\',\'rsync\')) else 1)"',
    'hooks': {'guard': 'kani', 'enable': 'none: no hooks in /repo; Kani harness modules from /verif/kani are appended (#[cfg(kani)]) to a scratch copy of /repo outside /repo and /verif',
              'baseline_off_cmd': 'cd /repo && RUSTUP_TOOLCHAIN=stable cargo test --workspace --no-fail-fast --offline', 'source_commits': [], 'add_only': True},
    'engines': [{'name': 'contracts', 'path': '/verif/check', 'serves_properties': [c['property_id'] for c in checks],
                 'kind_free_text': 'Verus on mechanically extracted function text + Kani on the real crate; E3 replay enumerators only after a refutation'}],
    'checks': checks,
    'not_applicable': na,
    'notes': 'exit 0 = all baseline obligations discharged; exit 1 + VIOLATION = a baseline obligation refuted; exit 2 = undecided (lost anchor, rlimit, tool failure), never a VIOLATION.',
}
json.dump(m, open(os.path.join(here, 'MANIFEST.json'), 'w'), indent=1)
print('checks:', [c['property_id'] for c in checks])
