//@ append-to src/compiler/clvm.rs
// C05 (one clause): the RAII guard restores the per-thread integer-conversion
// mode on every exit path.  Loop-free, full domain (bool^4): complete.
#[cfg(kani)]
mod verif_kani_guard {
    use super::*;

    fn inner_scope(b: bool, fail: bool) -> Result<(), ()> {
        let _g2 = NewStyleIntConversion::new(b);
        assert!(NewStyleIntConversion::setting() == b);
        if fail {
            return Err(());
        }
        Ok(())
    }

    #[kani::proof]
    fn guard_restores_mode() {
        let initial: bool = kani::any();
        let a: bool = kani::any();
        let b: bool = kani::any();
        let fail: bool = kani::any();
        NEW_COMPILATION_LEVEL_INT.with(|v| *v.borrow_mut() = initial);
        {
            let _g1 = NewStyleIntConversion::new(a);
            assert!(NewStyleIntConversion::setting() == a);
            let _ = inner_scope(b, fail);
            assert!(NewStyleIntConversion::setting() == a);
        }
        assert!(NewStyleIntConversion::setting() == initial);
    }
}
