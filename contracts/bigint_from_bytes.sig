    requires bv(*b).len() * 8 <= usize::MAX
    ensures
        (option is None || !option->Some_0.signed) ==> bi(r) == be_unsigned(bv(*b)),
        (option is Some && option->Some_0.signed) ==> bi(r) == be_signed(bv(*b)),
