    ensures
        bv(*atom).len() == 0 ==> r is Null,
        (1 <= bv(*atom).len() <= 2 && !allow_keyword) ==> (if is_min_signed(bv(*atom)) { r matches IRRepr::Int(b, sg) && bv(b) == bv(*atom) && sg } else { r matches IRRepr::Hex(b) && bv(b) == bv(*atom) }),
        bv(*atom).len() > 2 ==> ((r matches IRRepr::Quotes(b) && bv(b) == bv(*atom)) || (r matches IRRepr::Hex(b) && bv(b) == bv(*atom))),
        r is Int ==> is_min_signed(bv(*atom)) && bv(r->Int_0) == bv(*atom),
        r is Hex ==> bv(r->Hex_0) == bv(*atom),
        r is Quotes ==> bv(r->Quotes_0) == bv(*atom),
        r is Symbol ==> allow_keyword && 1 <= bv(*atom).len() <= 2 && rec_get(*keyword_from_atom, bv(*atom)) == Some(r->Symbol_0@),
        !(r is Cons), r is Null ==> bv(*atom).len() == 0,
