    requires stream_wf(*old(self)), stream_seek(*old(self)) + bv(b).len() <= usize::MAX / 4
    ensures
        stream_wf(*final(self)),
        r == bv(b).len(),
        stream_seek(*final(self)) == stream_seek(*old(self)) + bv(b).len(),
        ({ let d0 = stream_data(*old(self)); let k = stream_seek(*old(self)); let n = bv(b).len() as int;
           let tail_from = if k + n <= d0.len() { k + n } else { d0.len() as int };
           stream_data(*final(self)) == d0.subrange(0, k) + bv(b) + d0.subrange(tail_from, d0.len() as int) }),
        stream_at_end(*old(self)) ==> stream_at_end(*final(self)) && stream_data(*final(self)) == stream_data(*old(self)) + bv(b),
