    requires self.col < usize::MAX, other.col < usize::MAX
    ensures
        other.file != self.file ==> r == *self,
        other.file == self.file ==> sstart(r) == pmin(sstart(*self), sstart(*other))
            && ple(send(r), pmax(send(*self), send(*other))) && r.file == self.file,
