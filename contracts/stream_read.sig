    requires stream_wf(*old(self)), stream_seek(*old(self)) + size <= usize::MAX
    ensures
        stream_wf(*final(self)), stream_same_data(*old(self), *final(self)),
        ({ let rest = stream_rest(*old(self));
           let n = if size <= rest.len() { size as int } else { rest.len() as int };
           bv(r) == rest.subrange(0, n)
           && stream_seek(*final(self)) == stream_seek(*old(self)) + n
           && stream_rest(*final(self)) == rest.subrange(n, rest.len() as int) }),
