    requires stack_wf(it_alloc(*old(self)), it_stack(*old(self)))
    ensures
        it_alloc(*final(self)) == it_alloc(*old(self)),
        stack_wf(it_alloc(*final(self)), it_stack(*final(self))),
        r matches Some(chunk) ==> chunk@ + pending(it_alloc(*final(self)), it_stack(*final(self))) == pending(it_alloc(*old(self)), it_stack(*old(self))),
        r is None ==> it_stack(*old(self)).len() == 0 || (it_stack(*old(self)).last() matches SExpToByteOp::Object(n) && node_tree(it_alloc(*old(self)), n)->Some_0 matches Tree::Atom(x) && x.len() >= 0x400000000),
        stack_fits(it_alloc(*old(self)), it_stack(*old(self))) ==> stack_fits(it_alloc(*final(self)), it_stack(*final(self))),
        r is Some ==> stack_weight(it_alloc(*final(self)), it_stack(*final(self))) < stack_weight(it_alloc(*old(self)), it_stack(*old(self))),
