    ensures
        (fs_text(output_path@) matches Some(prev) && str_trim(prev) == str_trim(target_data@)) ==> r is Ok,
        r is Ok ==> ((fs_text(output_path@) matches Some(prev) && str_trim(prev) == str_trim(target_data@)) || replaced_atomically(output_path@, target_data.spec_bytes())),
