    ensures
        index is None ==> np(r) == 1,
        index matches Some(i) ==> (bi(i) >= 0 ==> np(r) == bi(i)),
        index matches Some(i) ==> (bi(i) < 0 ==> np(r) == be_unsigned(signed_bytes(bi(i)))),
        np(r) >= 0,
