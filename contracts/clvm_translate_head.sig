    ensures
        *sexp is Integer ==> (r matches Ok(x) && x == sexp),
        *sexp matches SExp::Atom(_, v) ==> (prim_of_name(*prim_map, v@) matches Some(p) ==> (r matches Ok(x) && tree_of(int_mode(), *x) == tree_of(int_mode(), p))),
        // an atom that is not an operator name is the opcode it spells -- in its shortest spelling only (finding F26: 0x0004 ran as c, 0x0001 as q)
        *sexp matches SExp::Atom(_, v) ==> (prim_of_name(*prim_map, v@) is None ==>
            (if u8n(be_signed(v@)) == v@ { r matches Ok(x) && (*x matches SExp::Integer(_, i) && bi(i) == be_signed(v@)) } else { r is Err })),
        *sexp matches SExp::QuotedString(_, _, v) ==> (prim_of_name(*prim_map, v@) is None ==>
            (if u8n(be_signed(v@)) == v@ { r matches Ok(x) && (*x matches SExp::Integer(_, i) && bi(i) == be_signed(v@)) } else { r is Err })),
        *sexp is Nil ==> r is Err,
