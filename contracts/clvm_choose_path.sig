    requires bi(p) >= 0
    ensures
        match tree_path(bi(p), tree_of(int_mode(), *context)) {
            Some(t) => r is Ok && tree_of(int_mode(), *r->Ok_0) == t,
            None => r is Err,
        }
