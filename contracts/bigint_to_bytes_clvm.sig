    ensures be_signed(bv(r)) == bi(*v), is_min_signed(bv(r)), bv(r).len() * 8 <= usize::MAX
