    requires tsize(tv(*body)) < 0x7fffffff, *body is Cons ==> cexpr(*body)
    ensures same_value(tv(*r.1), tv(*body)), !(*body is Cons) ==> r.1 == body
