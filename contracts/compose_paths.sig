    requires bi(*path_0_) >= 1, bi(*path_1_) >= 1
    ensures bi(r) == compose(bi(*path_0_), bi(*path_1_))
