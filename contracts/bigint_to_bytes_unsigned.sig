    requires bi(*v) >= 0
    ensures be_unsigned(bv(r)) == bi(*v), is_min_unsigned(bv(r))
