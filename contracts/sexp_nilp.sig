    ensures r == (tree_of(true, *self) == tnil())
