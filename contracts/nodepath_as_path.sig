    requires np(*self) >= 0
    ensures be_unsigned(bv(r)) == np(*self), is_min_unsigned(bv(r))
