    requires stream_wf(rd_stream(*old(s))), stream_seek(rd_stream(*old(s))) >= 1, stream_seek(rd_stream(*old(s))) + rd_rest(*old(s)).len() < usize::MAX
    ensures
        stream_wf(rd_stream(*final(s))), stream_same_data(rd_stream(*old(s)), rd_stream(*final(s))),
        stream_seek(rd_stream(*final(s))) + rd_rest(*final(s)).len() == stream_seek(rd_stream(*old(s))) + rd_rest(*old(s)).len(),
        match scan(rd_rest(*old(s)), q, false) {
            Some((text, n)) => r matches Ok(IRRepr::Quotes(b)) && bv(b) == text && rd_rest(*final(s)) == rd_rest(*old(s)).subrange(n, rd_rest(*old(s)).len() as int),
            None => r is Err,
        },
