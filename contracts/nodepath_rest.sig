    requires np(*self) >= 0
    ensures np(r) == 2 * np(*self) + 1
