    ensures bi(r) == be_unsigned(u8n(bi(v)))
