    requires np(*self) >= 1, np(other_node) >= 1
    ensures np(r) == compose(np(*self), np(other_node))
