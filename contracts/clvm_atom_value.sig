    ensures match *head {
        SExp::Integer(_, i) => r is Ok && bi(r->Ok_0) == bi(i),
        SExp::Nil(_) => r is Ok && bi(r->Ok_0) == 0,
        SExp::QuotedString(_, _, s) => r is Ok && bi(r->Ok_0) == be_signed(s@),
        SExp::Atom(_, s) => r is Ok && bi(r->Ok_0) == be_signed(s@),
        SExp::Cons(_, _, _) => r is Err,
    }
