    ensures
        int_mode() ==> (r == (tree_of(true, *sexp) != tnil())),
        !int_mode() ==> (r == !(match *sexp {
            SExp::Cons(_, _, _) => false,
            SExp::Nil(_) => true,
            SExp::Integer(_, i) => bi(i) == 0,
            SExp::QuotedString(_, _, s) => be_signed(s@) == 0,
            SExp::Atom(_, s) => be_signed(s@) == 0,
        })),
