    ensures match sproper(*self) { Some(x) => r matches Some(v) && v@ == x, None => r is None }
