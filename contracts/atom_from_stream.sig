    requires
        stream_wf(*old(f)),
        stream_seek(*old(f)) + 0x400000008 <= usize::MAX,
    ensures
        stream_wf(*final(f)), stream_same_data(*old(f), *final(f)), stream_seek(*final(f)) >= stream_seek(*old(f)),
        stream_seek(*final(f)) + stream_rest(*final(f)).len() == stream_seek(*old(f)) + stream_rest(*old(f)).len(),
        alloc_extends(*old(allocator), *final(allocator)),
        match dec_atom(b_, stream_rest(*old(f))) {
            None => r is Err,
            Some((atom, used)) => {
                (r matches Ok(n) ==> atom_view(*final(allocator), n) == Some(atom)
                    && stream_seek(*final(f)) == stream_seek(*old(f)) + used
                    && stream_rest(*final(f)) == stream_rest(*old(f)).subrange(used, stream_rest(*old(f)).len() as int))
                && (r is Err ==> alloc_limit_hit(*old(allocator), atom.len() as int))
            }
        },
