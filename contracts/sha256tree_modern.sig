    ensures r@ == tree_hash(tree_of(int_mode(), *s))
    decreases *s
