    requires stream_wf(rd_stream(*old(self))), stream_seek(rd_stream(*old(self))) + n <= usize::MAX
    ensures
        stream_wf(rd_stream(*final(self))), stream_same_data(rd_stream(*old(self)), rd_stream(*final(self))),
        ({ let rest = rd_rest(*old(self));
           let k = if n <= rest.len() { n as int } else { rest.len() as int };
           bv(r) == rest.subrange(0, k)
           && stream_seek(rd_stream(*final(self))) == stream_seek(rd_stream(*old(self))) + k
           && rd_rest(*final(self)) == rest.subrange(k, rest.len() as int) }),
