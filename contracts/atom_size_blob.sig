    requires bv(*b).len() <= i64::MAX
    ensures
        bv(*b).len() < 0x400000000 <==> r is Ok,
        r is Ok && bv(*b).len() == 0 ==> r->Ok_0.0 == false && r->Ok_0.1@ == seq![0x80u8],
        r is Ok && bv(*b).len() == 1 && bv(*b)[0] <= 0x7f ==> r->Ok_0.0 == false && r->Ok_0.1@ == bv(*b),
        r is Ok && !(bv(*b).len() == 0) && !(bv(*b).len() == 1 && bv(*b)[0] <= 0x7f)
            ==> r->Ok_0.0 == true && r->Ok_0.1@ == size_prefix(bv(*b).len() as u64),
