    ensures sloc(r) == l,
