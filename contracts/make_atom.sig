    ensures (v@.len() == 0 || v@[0] != 0x23u8) ==> sloc(r) == l,
