    ensures bi(r) == be_unsigned(v@)
