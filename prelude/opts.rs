// TRUSTED PRELUDE (R34): the compiler-options trait object `Rc<dyn CompilerOpts>` as far as the
// preprocessor's file access goes.  read_new_file is a function of (options, including file, name)
// -- assumed: the file system does not change between the dependency walk and the read that follows it
// (DefaultCompilerOpts::read_new_file itself is under contract in unit `deps`).
#[verifier::external_body]
pub struct VerifOpts { x: u8 }
pub uninterp spec fn opts_filename(o: VerifOpts) -> Seq<char>;
pub uninterp spec fn opts_strict(o: VerifOpts) -> bool;
// Some((resolved name, content)) when the file is found
pub uninterp spec fn opts_read(o: VerifOpts, inc_from: Seq<char>, name: Seq<char>) -> Option<(Seq<char>, Seq<u8>)>;
impl VerifOpts {
    #[verifier::external_body]
    pub fn filename(&self) -> (r: String) ensures r@ == opts_filename(*self) { unimplemented!() }
    #[verifier::external_body]
    pub fn read_new_file(&self, inc_from: String, filename: String) -> (r: Result<(String, Vec<u8>), CompileErr>)
        ensures match opts_read(*self, inc_from@, filename@) {
            Some((n, c)) => r matches Ok(x) && x.0@ == n && x.1@ == c,
            None => r is Err,
        }
    { unimplemented!() }
}
