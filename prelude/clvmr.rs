// TRUSTED PRELUDE: stand-ins for clvmr types the extracted code names.
#[derive(Clone, Copy)]
pub struct NodePtr(pub u32);
impl NodePtr {
    pub const NIL: NodePtr = NodePtr(0);
}
pub enum EvalErr {
    InternalError(NodePtr, String),
    Other(NodePtr, String),
}
