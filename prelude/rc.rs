// TRUSTED PRELUDE: Rc<T> borrows as its value.
pub assume_specification<T, A> [<std::rc::Rc<T, A> as std::borrow::Borrow<T>>::borrow] (r: &std::rc::Rc<T, A>) -> (o: &T)
    where A: std::alloc::Allocator, T: std::marker::MetaSized + ?Sized,
    ensures o == &**r;
// R7: `a == b` on Rc<String> (file names) -> value equality of the strings
#[verifier::external_body]
pub fn verif_rc_string_eq(a: &std::rc::Rc<String>, b: &std::rc::Rc<String>) -> (r: bool)
    ensures r == (*a == *b)
{ a == b }
// TRUSTED: the clone of an Rc is that Rc (vstd's own spec of Rc::clone, restated for the `cloned` relation Vec::clone speaks in)
pub broadcast axiom fn axiom_rc_cloned<T>(a: std::rc::Rc<T>, b: std::rc::Rc<T>) requires #[trigger] cloned::<std::rc::Rc<T>>(a, b) ensures a == b;
pub proof fn lemma_rcvec_clone<T>(v: Seq<std::rc::Rc<T>>, r: Seq<std::rc::Rc<T>>)
    requires v.len() == r.len(), forall|i: int| 0 <= i < v.len() ==> cloned::<std::rc::Rc<T>>(#[trigger] v[i], r[i])
    ensures r == v
{
    broadcast use axiom_rc_cloned;
    assert(r =~= v);
}
pub assume_specification<T, A> [<std::rc::Rc<T, A> as std::convert::AsRef<T>>::as_ref] (r: &std::rc::Rc<T, A>) -> (o: &T)
    where A: std::alloc::Allocator, T: std::marker::MetaSized + ?Sized,
    ensures o == &**r;
