// TRUSTED PRELUDE: Rc<T> borrows as its value.
pub assume_specification<T, A> [<std::rc::Rc<T, A> as std::borrow::Borrow<T>>::borrow] (r: &std::rc::Rc<T, A>) -> (o: &T)
    where A: std::alloc::Allocator, T: std::marker::MetaSized + ?Sized,
    ensures o == &**r;
// R7: `a == b` on Rc<String> (file names) -> value equality of the strings
#[verifier::external_body]
pub fn verif_rc_string_eq(a: &std::rc::Rc<String>, b: &std::rc::Rc<String>) -> (r: bool)
    ensures r == (*a == *b)
{ a == b }
