// TRUSTED PRELUDE (C19): typestate model of std::path, std::fs and tempfile::NamedTempFile.
// Assumed, not proved: rename(2) within one directory is atomic (that is what `persist` does
// when the temporary file lives in the target's directory).  replaced_atomically(path, data)
// is the event "the file at `path` was replaced in one step by a complete file holding `data`".
// Every other way of writing a file has `requires false`: using one inside the verified
// functions fails an obligation.
pub uninterp spec fn path_parent(p: Seq<char>) -> Option<Seq<char>>;
pub uninterp spec fn str_trim(s: Seq<char>) -> Seq<char>;
pub uninterp spec fn fs_text(p: Seq<char>) -> Option<Seq<char>>;
pub uninterp spec fn replaced_atomically(p: Seq<char>, data: Seq<u8>) -> bool;
#[verifier::external_body]
pub struct Path { x: u8 }
pub uninterp spec fn path_view(p: &Path) -> Seq<char>;
impl Path {
    #[verifier::external_body]
    pub fn new(s: &str) -> (r: &Path) ensures path_view(r) == s@ { unimplemented!() }
    #[verifier::external_body]
    pub fn parent(&self) -> (r: Option<&Path>)
        ensures match r { Some(q) => path_parent(path_view(self)) == Some(path_view(q)), None => path_parent(path_view(self)) is None }
    { unimplemented!() }
}
pub struct IoError { pub x: u8 }
pub struct PersistError { pub x: u8 }
pub struct PersistedFile { pub x: u8 }
#[verifier::external_body]
pub struct NamedTempFile { x: u8 }
pub uninterp spec fn tmp_dir(t: NamedTempFile) -> Seq<char>;
pub uninterp spec fn tmp_written(t: NamedTempFile) -> Seq<u8>;
impl NamedTempFile {
    #[verifier::external_body]
    pub fn new_in(dir: &Path) -> (r: Result<NamedTempFile, IoError>)
        ensures r matches Ok(t) ==> tmp_dir(t) == path_view(dir) && tmp_written(t) == Seq::<u8>::empty()
    { unimplemented!() }
    #[verifier::external_body]
    pub fn new() -> (r: Result<NamedTempFile, IoError>)   // system temp dir: unrelated to any target directory
    { unimplemented!() }
    #[verifier::external_body]
    pub fn write_all(&mut self, buf: &[u8]) -> (r: Result<(), IoError>)
        ensures tmp_dir(*final(self)) == tmp_dir(*old(self)),
            r is Ok ==> tmp_written(*final(self)) == tmp_written(*old(self)) + buf@,
    { unimplemented!() }
    #[verifier::external_body]
    pub fn persist(self, p: &str) -> (r: Result<PersistedFile, PersistError>)
        requires path_parent(p@) == Some(tmp_dir(self))   // same directory => same file system => rename(2)
        ensures r is Ok ==> replaced_atomically(p@, tmp_written(self))
    { unimplemented!() }
}
pub assume_specification [str::trim] (s: &str) -> (r: &str) ensures r@ == str_trim(s@);
// R7: &str == &str
#[verifier::external_body]
pub fn verif_str_eq(a: &str, b: &str) -> (r: bool) ensures r == (a@ == b@) { unimplemented!() }
pub mod fs {
    use vstd::prelude::*;
    use super::*;
    #[verifier::external_body]
    pub fn read_to_string(p: &str) -> (r: Result<String, IoError>)
        ensures match r { Ok(s) => fs_text(p@) == Some(s@), Err(_) => fs_text(p@) is None }
    { unimplemented!() }
    #[verifier::external_body]
    pub fn write(p: &str, data: &str) -> Result<(), IoError> requires false { unimplemented!() }
    #[verifier::external_body]
    pub fn rename(a: &str, b: &str) -> Result<(), IoError> requires false { unimplemented!() }
    #[verifier::external_body]
    pub fn copy(a: &str, b: &str) -> Result<u64, IoError> requires false { unimplemented!() }
    #[verifier::external_body]
    pub fn remove_file(p: &str) -> Result<(), IoError> requires false { unimplemented!() }
    pub use super::File;
    // opening a file for writing / appending / creation: every way to open through OpenOptions is a file-writing call here
    pub struct OpenOptions { pub x: u8 }
    impl OpenOptions {
        #[verifier::external_body]
        pub fn new() -> OpenOptions { unimplemented!() }
        #[verifier::external_body]
        pub fn append(self, v: bool) -> OpenOptions { unimplemented!() }
        #[verifier::external_body]
        pub fn create(self, v: bool) -> OpenOptions { unimplemented!() }
        #[verifier::external_body]
        pub fn write(self, v: bool) -> OpenOptions { unimplemented!() }
        #[verifier::external_body]
        pub fn truncate(self, v: bool) -> OpenOptions { unimplemented!() }
        #[verifier::external_body]
        pub fn open(self, p: &str) -> Result<File, IoError> requires false { unimplemented!() }
    }
}
pub struct File { pub x: u8 }
impl File {
    #[verifier::external_body]
    pub fn create(p: &str) -> Result<File, IoError> requires false { unimplemented!() }
}
