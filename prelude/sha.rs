// TRUSTED PRELUDE: sha2::Sha256 as an uninterpreted function of the bytes fed to it.
pub uninterp spec fn sha(s: Seq<u8>) -> Seq<u8>;
pub broadcast axiom fn axiom_sha_len(s: Seq<u8>) ensures #[trigger] sha(s).len() == 32;
pub trait AsBytesView { spec fn bview(&self) -> Seq<u8>; }
impl AsBytesView for [u8; 1] { open spec fn bview(&self) -> Seq<u8> { self@ } }
impl<'a> AsBytesView for &'a [u8] { open spec fn bview(&self) -> Seq<u8> { (*self)@ } }
impl<'a> AsBytesView for &'a Vec<u8> { open spec fn bview(&self) -> Seq<u8> { (*self)@ } }
#[verifier::external_body]
pub struct Sha256 { x: u8 }
#[verifier::external_body]
pub struct ShaOut { x: u8 }
pub uninterp spec fn sha_fed(h: Sha256) -> Seq<u8>;
pub uninterp spec fn shaout_view(o: ShaOut) -> Seq<u8>;
impl Sha256 {
    #[verifier::external_body]
    pub fn new() -> (r: Sha256) ensures sha_fed(r) == Seq::<u8>::empty() { unimplemented!() }
    #[verifier::external_body]
    pub fn update<T: AsBytesView>(&mut self, d: T) ensures sha_fed(*final(self)) == sha_fed(*old(self)) + d.bview() { unimplemented!() }
    #[verifier::external_body]
    pub fn finalize(self) -> (r: ShaOut) ensures shaout_view(r) == sha(sha_fed(self)) { unimplemented!() }
}
impl ShaOut {
    #[verifier::external_body]
    pub fn to_vec(&self) -> (r: Vec<u8>) ensures r@ == shaout_view(*self) { unimplemented!() }
}
// SPEC: CLVM tree hash (clvmr tree_hash / chia sha256tree): sha(1 ++ atom), sha(2 ++ h(left) ++ h(right))
pub open spec fn tree_hash(t: Tree) -> Seq<u8>
    decreases t
{
    match t {
        Tree::Atom(a) => sha(seq![1u8] + a),
        Tree::Pair(l, r) => sha(seq![2u8] + tree_hash(*l) + tree_hash(*r)),
    }
}
