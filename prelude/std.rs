// TRUSTED PRELUDE: assumed specifications of std functions vstd does not cover.
// bytes of a string (UTF-8), as an opaque function
pub uninterp spec fn string_bytes(s: Seq<char>) -> Seq<u8>;
pub assume_specification [std::string::String::as_bytes] (_0: &std::string::String) -> (r: &[u8])
    ensures r@ == string_bytes(_0@);
pub assume_specification<T> [<[T]>::to_vec] (s: &[T]) -> (r: std::vec::Vec<T>)
    where T: std::clone::Clone
    ensures r@ == s@;
// R7: Vec<u8> == Vec<u8> is element-wise equality
#[verifier::external_body]
pub fn verif_vec_eq(a: &Vec<u8>, b: &Vec<u8>) -> (r: bool) ensures r == (a@ == b@) { unimplemented!() }
pub struct FromUtf8Error { pub x: u8 }
// String::from_utf8: only used as a printable-text test; its result is unconstrained here
#[verifier::external_body]
pub fn verif_string_from_utf8(v: Vec<u8>) -> Result<String, FromUtf8Error> { unimplemented!() }
// R7: `a != &[k]` between &Vec<u8> and a one-byte array literal
#[verifier::external_body]
pub fn verif_vec_is_single(a: &Vec<u8>, k: u8) -> (r: bool) ensures r == (a@.len() == 1 && a@[0] == k) { unimplemented!() }
