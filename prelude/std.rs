// TRUSTED PRELUDE: assumed specifications of std functions vstd does not cover.
pub assume_specification [std::string::String::as_bytes] (_0: &std::string::String) -> &[u8];
pub assume_specification<T> [<[T]>::to_vec] (s: &[T]) -> (r: std::vec::Vec<T>)
    where T: std::clone::Clone
    ensures r@ == s@;
// R7: Vec<u8> == Vec<u8> is element-wise equality
#[verifier::external_body]
pub fn verif_vec_eq(a: &Vec<u8>, b: &Vec<u8>) -> (r: bool) ensures r == (a@ == b@) { unimplemented!() }
