// TRUSTED PRELUDE: assumed specifications of std functions vstd does not cover.
pub assume_specification [std::string::String::as_bytes] (_0: &std::string::String) -> &[u8];
pub assume_specification<T> [<[T]>::to_vec] (s: &[T]) -> (r: std::vec::Vec<T>)
    where T: std::clone::Clone
    ensures r@ == s@;
