// TRUSTED PRELUDE: stand-in for the `num_bigint` dependency (assumed contracts).
// Verus cannot attach operator specs to a foreign type, so the generated file
// declares a module of the same name whose BigInt is opaque and whose operators
// are specified over the mathematical integer `bi(x)`.  Semantics follow
// num-bigint 0.4: `/` and `%` truncate toward zero, `<<`/`>>` are exact
// multiplication / floor division by 2^k, `&` `|` are specified only for
// non-negative operands (through the uninterpreted int_and/int_or and two
// axioms about masks).  Every item here is an assumption listed in evidence.
pub mod num_bigint {
    use vstd::prelude::*;
    use vstd::std_specs::cmp::*;
    use vstd::std_specs::ops::*;
    use vstd::arithmetic::power2::*;
    #[verifier::external_body]
    #[verifier::accept_recursive_types]
    pub struct BigInt { x: Vec<u64> }
    pub uninterp spec fn bi(n: BigInt) -> int;
    pub uninterp spec fn of_int(i: int) -> BigInt;
    pub broadcast axiom fn of_int_bi(i: int) ensures #[trigger] bi(of_int(i)) == i;
    pub broadcast axiom fn bi_of_int(n: BigInt) ensures #[trigger] of_int(bi(n)) == n;
    pub uninterp spec fn int_and(a: int, b: int) -> int;
    pub uninterp spec fn int_or(a: int, b: int) -> int;
    pub broadcast axiom fn and_low_mask(a: int, k: nat) requires a >= 0 ensures #[trigger] int_and(a, pow2(k) as int - 1) == a % (pow2(k) as int);
    pub broadcast axiom fn or_disjoint(a: int, b: int, k: nat) requires a >= 0, a % (pow2(k) as int) == 0, 0 <= b < pow2(k) as int ensures #[trigger] int_or(a, b) == a + b, #[trigger] pow2(k) > 0;

    pub broadcast axiom fn or_comm(a: int, b: int) ensures #[trigger] int_or(a, b) == int_or(b, a);

    pub open spec fn tdiv(a: int, b: int) -> int { if (a >= 0) == (b > 0) { (if a >= 0 { a } else { -a }) / (if b >= 0 { b } else { -b }) } else { -((if a >= 0 { a } else { -a }) / (if b >= 0 { b } else { -b })) } }
    pub open spec fn trem(a: int, b: int) -> int { a - b * tdiv(a, b) }

    impl Clone for BigInt {
        #[verifier::external_body]
        fn clone(&self) -> (r: BigInt) ensures r == *self { unimplemented!() }
    }
    impl PartialEqSpecImpl for BigInt {
        open spec fn obeys_eq_spec() -> bool { true }
        open spec fn eq_spec(&self, other: &BigInt) -> bool { bi(*self) == bi(*other) }
    }
    impl PartialEq for BigInt { #[verifier::external_body] fn eq(&self, other: &BigInt) -> bool { unimplemented!() } }
    impl PartialOrdSpecImpl for BigInt {
        open spec fn obeys_partial_cmp_spec() -> bool { true }
        open spec fn partial_cmp_spec(&self, other: &BigInt) -> Option<core::cmp::Ordering> {
            if bi(*self) < bi(*other) { Some(core::cmp::Ordering::Less) } else if bi(*self) == bi(*other) { Some(core::cmp::Ordering::Equal) } else { Some(core::cmp::Ordering::Greater) }
        }
    }
    impl PartialOrd for BigInt { #[verifier::external_body] fn partial_cmp(&self, other: &BigInt) -> Option<core::cmp::Ordering> { unimplemented!() } }

    impl AddSpecImpl<BigInt> for BigInt {
        open spec fn obeys_add_spec() -> bool { true }
        open spec fn add_req(self, rhs: BigInt) -> bool { true }
        open spec fn add_spec(self, rhs: BigInt) -> BigInt { of_int(bi(self) + bi(rhs)) }
    }
    impl core::ops::Add<BigInt> for BigInt { type Output = BigInt; #[verifier::external_body] fn add(self, rhs: BigInt) -> BigInt { unimplemented!() } }
    impl SubSpecImpl<BigInt> for BigInt {
        open spec fn obeys_sub_spec() -> bool { true }
        open spec fn sub_req(self, rhs: BigInt) -> bool { true }
        open spec fn sub_spec(self, rhs: BigInt) -> BigInt { of_int(bi(self) - bi(rhs)) }
    }
    impl core::ops::Sub<BigInt> for BigInt { type Output = BigInt; #[verifier::external_body] fn sub(self, rhs: BigInt) -> BigInt { unimplemented!() } }
    impl MulSpecImpl<BigInt> for BigInt {
        open spec fn obeys_mul_spec() -> bool { true }
        open spec fn mul_req(self, rhs: BigInt) -> bool { true }
        open spec fn mul_spec(self, rhs: BigInt) -> BigInt { of_int(bi(self) * bi(rhs)) }
    }
    impl core::ops::Mul<BigInt> for BigInt { type Output = BigInt; #[verifier::external_body] fn mul(self, rhs: BigInt) -> BigInt { unimplemented!() } }
    impl RemSpecImpl<BigInt> for BigInt {
        open spec fn obeys_rem_spec() -> bool { true }
        open spec fn rem_req(self, rhs: BigInt) -> bool { bi(rhs) != 0 }
        open spec fn rem_spec(self, rhs: BigInt) -> BigInt { of_int(trem(bi(self), bi(rhs))) }
    }
    impl core::ops::Rem<BigInt> for BigInt { type Output = BigInt; #[verifier::external_body] fn rem(self, rhs: BigInt) -> BigInt { unimplemented!() } }
    impl DivSpecImpl<BigInt> for BigInt {
        open spec fn obeys_div_spec() -> bool { true }
        open spec fn div_req(self, rhs: BigInt) -> bool { bi(rhs) != 0 }
        open spec fn div_spec(self, rhs: BigInt) -> BigInt { of_int(tdiv(bi(self), bi(rhs))) }
    }
    impl core::ops::Div<BigInt> for BigInt { type Output = BigInt; #[verifier::external_body] fn div(self, rhs: BigInt) -> BigInt { unimplemented!() } }

    impl AddAssignSpecImpl<BigInt> for BigInt {
        open spec fn obeys_add_assign_spec() -> bool { true }
        open spec fn add_assign_req(&self, rhs: BigInt) -> bool { true }
        open spec fn add_assign_spec(&self, rhs: BigInt) -> &BigInt { &of_int(bi(*self) + bi(rhs)) }
    }
    impl core::ops::AddAssign<BigInt> for BigInt { #[verifier::external_body] fn add_assign(&mut self, rhs: BigInt) { unimplemented!() } }
    impl MulAssignSpecImpl<BigInt> for BigInt {
        open spec fn obeys_mul_assign_spec() -> bool { true }
        open spec fn mul_assign_req(&self, rhs: BigInt) -> bool { true }
        open spec fn mul_assign_spec(&self, rhs: BigInt) -> &BigInt { &of_int(bi(*self) * bi(rhs)) }
    }
    impl core::ops::MulAssign<BigInt> for BigInt { #[verifier::external_body] fn mul_assign(&mut self, rhs: BigInt) { unimplemented!() } }
    impl SubAssignSpecImpl<BigInt> for BigInt {
        open spec fn obeys_sub_assign_spec() -> bool { true }
        open spec fn sub_assign_req(&self, rhs: BigInt) -> bool { true }
        open spec fn sub_assign_spec(&self, rhs: BigInt) -> &BigInt { &of_int(bi(*self) - bi(rhs)) }
    }
    impl core::ops::SubAssign<BigInt> for BigInt { #[verifier::external_body] fn sub_assign(&mut self, rhs: BigInt) { unimplemented!() } }

    impl ShlAssignSpecImpl<i32> for BigInt {
        open spec fn obeys_shl_assign_spec() -> bool { true }
        open spec fn shl_assign_req(&self, rhs: i32) -> bool { rhs >= 0 }
        open spec fn shl_assign_spec(&self, rhs: i32) -> &BigInt { &of_int(bi(*self) * (pow2(rhs as nat) as int)) }
    }
    impl core::ops::ShlAssign<i32> for BigInt { #[verifier::external_body] fn shl_assign(&mut self, rhs: i32) { unimplemented!() } }
    impl ShrAssignSpecImpl<i32> for BigInt {
        open spec fn obeys_shr_assign_spec() -> bool { true }
        open spec fn shr_assign_req(&self, rhs: i32) -> bool { rhs >= 0 && bi(*self) >= 0 }
        open spec fn shr_assign_spec(&self, rhs: i32) -> &BigInt { &of_int(bi(*self) / (pow2(rhs as nat) as int)) }
    }
    impl core::ops::ShrAssign<i32> for BigInt { #[verifier::external_body] fn shr_assign(&mut self, rhs: i32) { unimplemented!() } }
    impl ShlSpecImpl<usize> for BigInt {
        open spec fn obeys_shl_spec() -> bool { true }
        open spec fn shl_req(self, rhs: usize) -> bool { true }
        open spec fn shl_spec(self, rhs: usize) -> BigInt { of_int(bi(self) * (pow2(rhs as nat) as int)) }
    }
    impl core::ops::Shl<usize> for BigInt { type Output = BigInt; #[verifier::external_body] fn shl(self, rhs: usize) -> BigInt { unimplemented!() } }
    impl ShrSpecImpl<i32> for BigInt {
        open spec fn obeys_shr_spec() -> bool { true }
        open spec fn shr_req(self, rhs: i32) -> bool { rhs >= 0 && bi(self) >= 0 }
        open spec fn shr_spec(self, rhs: i32) -> BigInt { of_int(bi(self) / (pow2(rhs as nat) as int)) }
    }
    impl core::ops::Shr<i32> for BigInt { type Output = BigInt; #[verifier::external_body] fn shr(self, rhs: i32) -> BigInt { unimplemented!() } }

    impl BitAndSpecImpl<BigInt> for BigInt {
        open spec fn obeys_bitand_spec() -> bool { true }
        open spec fn bitand_req(self, rhs: BigInt) -> bool { bi(self) >= 0 && bi(rhs) >= 0 }
        open spec fn bitand_spec(self, rhs: BigInt) -> BigInt { of_int(int_and(bi(self), bi(rhs))) }
    }
    impl core::ops::BitAnd<BigInt> for BigInt { type Output = BigInt; #[verifier::external_body] fn bitand(self, rhs: BigInt) -> BigInt { unimplemented!() } }
    impl BitOrSpecImpl<BigInt> for BigInt {
        open spec fn obeys_bitor_spec() -> bool { true }
        open spec fn bitor_req(self, rhs: BigInt) -> bool { bi(self) >= 0 && bi(rhs) >= 0 }
        open spec fn bitor_spec(self, rhs: BigInt) -> BigInt { of_int(int_or(bi(self), bi(rhs))) }
    }
    impl core::ops::BitOr<BigInt> for BigInt { type Output = BigInt; #[verifier::external_body] fn bitor(self, rhs: BigInt) -> BigInt { unimplemented!() } }

    pub trait ToBigInt { fn to_bigint(&self) -> Option<BigInt>; }
    impl ToBigInt for i32 {
        #[verifier::external_body]
        fn to_bigint(&self) -> (r: Option<BigInt>) ensures r.is_some(), bi(r.unwrap()) == *self as int { unimplemented!() }
    }
    impl ToBigInt for u32 {
        #[verifier::external_body]
        fn to_bigint(&self) -> (r: Option<BigInt>) ensures r.is_some(), bi(r.unwrap()) == *self as int { unimplemented!() }
    }
    impl ToBigInt for u64 {
        #[verifier::external_body]
        fn to_bigint(&self) -> (r: Option<BigInt>) ensures r.is_some(), bi(r.unwrap()) == *self as int { unimplemented!() }
    }
    impl ToBigInt for u8 {
        #[verifier::external_body]
        fn to_bigint(&self) -> (r: Option<BigInt>) ensures r.is_some(), bi(r.unwrap()) == *self as int { unimplemented!() }
    }
    impl ToBigInt for usize {
        #[verifier::external_body]
        fn to_bigint(&self) -> (r: Option<BigInt>) ensures r.is_some(), bi(r.unwrap()) == *self as int { unimplemented!() }
    }
}
use num_bigint::*;
pub type Number = BigInt;
pub mod num_traits {
    use vstd::prelude::*;
    use super::num_bigint::*;
    pub trait Zero: Sized { fn zero() -> Self; }
    pub trait One: Sized { fn one() -> Self; }
    impl Zero for BigInt { #[verifier::external_body] fn zero() -> (r: BigInt) ensures bi(r) == 0 { unimplemented!() } }
    impl One for BigInt { #[verifier::external_body] fn one() -> (r: BigInt) ensures bi(r) == 1 { unimplemented!() } }
}
use num_traits::{Zero, One};
impl vstd::std_specs::convert::FromSpecImpl<i32> for num_bigint::BigInt {
    open spec fn obeys_from_spec() -> bool { true }
    open spec fn from_spec(v: i32) -> num_bigint::BigInt { num_bigint::of_int(v as int) }
}
impl From<i32> for num_bigint::BigInt { #[verifier::external_body] fn from(v: i32) -> num_bigint::BigInt { unimplemented!() } }
// num_traits::zero::<BigInt>()
#[verifier::external_body]
pub fn zero() -> (r: num_bigint::BigInt) ensures num_bigint::bi(r) == 0 { unimplemented!() }
impl vstd::std_specs::ops::DivAssignSpecImpl<num_bigint::BigInt> for num_bigint::BigInt {
    open spec fn obeys_div_assign_spec() -> bool { true }
    open spec fn div_assign_req(&self, rhs: num_bigint::BigInt) -> bool { num_bigint::bi(rhs) != 0 }
    open spec fn div_assign_spec(&self, rhs: num_bigint::BigInt) -> &num_bigint::BigInt { &num_bigint::of_int(num_bigint::tdiv(num_bigint::bi(*self), num_bigint::bi(rhs))) }
}
impl core::ops::DivAssign<num_bigint::BigInt> for num_bigint::BigInt { #[verifier::external_body] fn div_assign(&mut self, rhs: num_bigint::BigInt) { unimplemented!() } }
