// TRUSTED PRELUDE: small opaque stand-ins.
#[verifier::external_body]
pub fn verif_opaque_string() -> String { unimplemented!() }
// chia_bls::PublicKey: only ever turned into bytes
#[verifier::external_body]
pub struct PublicKey { x: u8 }
impl PublicKey {
    #[verifier::external_body]
    pub fn to_bytes(&self) -> [u8; 48] { unimplemented!() }
}
