// TRUSTED PRELUDE: byte conversions of num_bigint::BigInt (assumed contracts,
// from num-bigint 0.4.6 src/bigint/convert.rs): to_signed_bytes_be is the
// minimal two's-complement encoding with at least one byte (0 -> [0]);
// to_bytes_be is (sign, minimal magnitude bytes), (NoSign, [0]) for zero;
// from_signed_bytes_be / from_bytes_be are their inverses on any input.
pub enum Sign { Minus, NoSign, Plus }
impl num_bigint::BigInt {
    #[verifier::external_body]
    pub fn to_signed_bytes_be(&self) -> (r: Vec<u8>)
        ensures r@.len() >= 1, be_signed(r@) == bi(*self),
            r@.len() * 8 <= usize::MAX, // num-bigint keeps the bit length in a u64
            bi(*self) == 0 ==> r@ == seq![0u8],
            bi(*self) != 0 ==> is_min_signed(r@),
    { unimplemented!() }
    #[verifier::external_body]
    pub fn to_bytes_be(&self) -> (r: (Sign, Vec<u8>))
        ensures r.1@.len() >= 1,
            bi(*self) >= 0 ==> be_unsigned(r.1@) == bi(*self),
            bi(*self) < 0 ==> be_unsigned(r.1@) == -bi(*self),
            bi(*self) == 0 ==> r.1@ == seq![0u8],
            bi(*self) != 0 ==> is_min_unsigned(r.1@),
    { unimplemented!() }
    #[verifier::external_body]
    pub fn from_signed_bytes_be(b: &[u8]) -> (r: num_bigint::BigInt)
        ensures bi(r) == be_signed(b@)
    { unimplemented!() }
}
// exec `assert!(c)` (rule R9): not panicking is an obligation
#[verifier::external_body]
pub fn verif_assert(c: bool) requires c { }
impl num_bigint::BigInt {
    #[verifier::external_body]
    pub fn from_bytes_be(sign: Sign, b: &[u8]) -> (r: num_bigint::BigInt)
        ensures sign is Plus ==> bi(r) == be_unsigned(b@), sign is Minus ==> bi(r) == -be_unsigned(b@), sign is NoSign ==> bi(r) == 0
    { unimplemented!() }
}
