// TRUSTED PRELUDE: clvmr Allocator with a ghost tree view (assumed contracts).
// node_tree(a, n) = Some(t): n is a valid node of a denoting t.  Nodes are
// immutable: allocation only extends the view (alloc_ext).  NIL is the empty atom.
#[verifier::external_body]
pub struct Allocator { x: u8 }
pub uninterp spec fn node_tree(a: Allocator, n: NodePtr) -> Option<Tree>;
pub uninterp spec fn alloc_full(a: Allocator) -> bool;
pub open spec fn alloc_ext(old_a: Allocator, new_a: Allocator) -> bool {
    forall|n: NodePtr| #[trigger] node_tree(old_a, n) is Some ==> node_tree(new_a, n) == node_tree(old_a, n)
}
pub broadcast axiom fn axiom_nil_node(a: Allocator)
    ensures #[trigger] node_tree(a, NodePtr::NIL) == Some(tnil());
pub mod allocator {
    use super::NodePtr;
    pub enum SExp { Atom, Pair(NodePtr, NodePtr) }
}
#[verifier::external_body]
pub struct AtomBuf { x: Vec<u8> }
pub uninterp spec fn atombuf_view(b: AtomBuf) -> Seq<u8>;
impl AtomBuf {
    #[verifier::external_body]
    pub fn as_ref(&self) -> (r: &[u8]) ensures r@ == atombuf_view(*self), r@.len() <= isize::MAX /* Rust: no slice exceeds isize::MAX bytes */ { unimplemented!() }
}
impl Allocator {
    #[verifier::external_body]
    pub fn sexp(&self, n: NodePtr) -> (r: allocator::SExp)
        requires node_tree(*self, n) is Some
        ensures match r {
            allocator::SExp::Atom => node_tree(*self, n)->Some_0 is Atom,
            allocator::SExp::Pair(l, rr) => node_tree(*self, l) is Some && node_tree(*self, rr) is Some
                && node_tree(*self, n) == Some(Tree::Pair(Box::new(node_tree(*self, l)->Some_0), Box::new(node_tree(*self, rr)->Some_0))),
        }
    { unimplemented!() }
    #[verifier::external_body]
    pub fn atom(&self, n: NodePtr) -> (r: AtomBuf)
        requires node_tree(*self, n) is Some, node_tree(*self, n)->Some_0 is Atom
        ensures node_tree(*self, n) == Some(Tree::Atom(atombuf_view(r)))
    { unimplemented!() }
    #[verifier::external_body]
    pub fn atom_len(&self, n: NodePtr) -> (r: usize)
        requires node_tree(*self, n) is Some, node_tree(*self, n)->Some_0 is Atom
        ensures node_tree(*self, n)->Some_0 matches Tree::Atom(v) && r == v.len()
    { unimplemented!() }
    #[verifier::external_body]
    pub fn new_atom(&mut self, v: &[u8]) -> (r: Result<NodePtr, EvalErr>)
        ensures alloc_ext(*old(self), *final(self)),
            r matches Ok(n) ==> node_tree(*final(self), n) == Some(Tree::Atom(v@)),
            r is Err ==> alloc_full(*old(self)),
    { unimplemented!() }
    #[verifier::external_body]
    pub fn new_pair(&mut self, a: NodePtr, b: NodePtr) -> (r: Result<NodePtr, EvalErr>)
        requires node_tree(*old(self), a) is Some, node_tree(*old(self), b) is Some
        ensures alloc_ext(*old(self), *final(self)),
            r matches Ok(n) ==> node_tree(*final(self), n) == Some(Tree::Pair(Box::new(node_tree(*old(self), a)->Some_0), Box::new(node_tree(*old(self), b)->Some_0))),
            r is Err ==> alloc_full(*old(self)),
    { unimplemented!() }
}
// R7: equality between byte containers vstd has no PartialEq spec for
#[verifier::external_body]
pub fn verif_vec_eq_slice(a: &Vec<u8>, b: &[u8]) -> (r: bool) ensures r == (a@ == b@) { unimplemented!() }
#[verifier::external_body]
pub fn verif_slice_is(a: &[u8], b: [u8; 1]) -> (r: bool) ensures r == (a@.len() == 1 && a@[0] == b[0]) { unimplemented!() }
// extension of the allocator is transitive (nodes are immutable)
pub broadcast proof fn lemma_alloc_ext_trans(a: Allocator, b: Allocator, c: Allocator)
    requires #[trigger] alloc_ext(a, b), #[trigger] alloc_ext(b, c)
    ensures alloc_ext(a, c)
{
    assert forall|n: NodePtr| #[trigger] node_tree(a, n) is Some implies node_tree(c, n) == node_tree(a, n) by {
        assert(node_tree(b, n) == node_tree(a, n));
    }
}
