// TRUSTED PRELUDE: the file system as an uninterpreted function (assumed).
// fs_content(p) = Some(bytes) iff the file at path p is readable.
#[verifier::external_body]
pub struct PathBuf { x: u8 }
pub uninterp spec fn pb_from(s: String) -> PathBuf;
pub uninterp spec fn pb_push(p: PathBuf, s: String) -> PathBuf;
pub uninterp spec fn pb_str(p: PathBuf) -> Option<String>;
pub uninterp spec fn fs_content(p: PathBuf) -> Option<Seq<u8>>;
pub open spec fn pb_join(dir: String, name: String) -> PathBuf { pb_push(pb_from(dir), name) }
impl PathBuf {
    #[verifier::external_body]
    pub fn from(s: &String) -> (r: PathBuf) ensures r == pb_from(*s) { unimplemented!() }
    #[verifier::external_body]
    pub fn push(&mut self, s: String) ensures *final(self) == pb_push(*old(self), s) { unimplemented!() }
    #[verifier::external_body]
    pub fn to_str_owned(&self) -> (r: Option<String>) ensures r == pb_str(*self) { unimplemented!() }
}
impl Clone for PathBuf { #[verifier::external_body] fn clone(&self) -> (r: PathBuf) ensures r == *self { unimplemented!() } }
pub mod fs {
    use vstd::prelude::*;
    use super::*;
    pub struct IoError { pub x: u8 }
    #[verifier::external_body]
    pub fn read(p: PathBuf) -> (r: Result<Vec<u8>, IoError>)
        ensures r matches Ok(c) ==> fs_content(p) == Some(c@), r is Err ==> fs_content(p) is None
    { unimplemented!() }
}
