// TRUSTED PRELUDE: clvmr Allocator with a ghost view (assumed contracts).
// atom_view(a, n): the bytes of atom node n, if n is an atom of a.
// pair_view(a, n): children, if n is a pair.  Existing nodes never change.
#[verifier::external_body]
pub struct Allocator { x: u8 }
pub uninterp spec fn atom_view(a: Allocator, n: NodePtr) -> Option<Seq<u8>>;
pub uninterp spec fn pair_view(a: Allocator, n: NodePtr) -> Option<(NodePtr, NodePtr)>;
pub uninterp spec fn alloc_limit_hit(a: Allocator, len: int) -> bool;
pub open spec fn alloc_extends(old_a: Allocator, new_a: Allocator) -> bool {
    (forall|n: NodePtr| #[trigger] atom_view(old_a, n) is Some ==> atom_view(new_a, n) == atom_view(old_a, n))
    && (forall|n: NodePtr| #[trigger] pair_view(old_a, n) is Some ==> pair_view(new_a, n) == pair_view(old_a, n))
}
pub broadcast axiom fn axiom_nil_is_empty_atom(a: Allocator)
    ensures #[trigger] atom_view(a, NodePtr::NIL) == Some(Seq::<u8>::empty());
impl Allocator {
    #[verifier::external_body]
    pub fn new_atom(&mut self, v: &[u8]) -> (r: Result<NodePtr, EvalErr>)
        ensures
            alloc_extends(*old(self), *final(self)),
            r matches Ok(n) ==> atom_view(*final(self), n) == Some(v@),
            r is Err ==> alloc_limit_hit(*old(self), v@.len() as int),
    { unimplemented!() }
}
