// TRUSTED PRELUDE: little-endian signed byte conversions of BigInt (num-bigint 0.4.6):
// to_signed_bytes_le is to_signed_bytes_be reversed; from_signed_bytes_le reads
// two's complement little-endian.
impl num_bigint::BigInt {
    #[verifier::external_body]
    pub fn to_signed_bytes_le(&self) -> (r: Vec<u8>)
        ensures r@.len() >= 1, be_signed(r@.reverse()) == bi(*self),
            bi(*self) == 0 ==> r@ == seq![0u8],
            bi(*self) != 0 ==> is_min_signed(r@.reverse()),
    { unimplemented!() }
    #[verifier::external_body]
    pub fn from_signed_bytes_le(b: &[u8]) -> (r: num_bigint::BigInt)
        ensures bi(r) == be_signed(b@.reverse())
    { unimplemented!() }
}
