#!/bin/bash
# Re-run every registered check on /repo's current tree (use before committing evidence).
cd /verif
TIER=${1:-quick}
rc=0
for p in $(python3 -c "import json;print(' '.join(c['property_id'] for c in json.load(open('MANIFEST.json'))['checks']))"); do
  ./check $p --tier $TIER | tail -1 | cut -c1-160; r=${PIPESTATUS[0]}; [ $r -ne 0 ] && { echo "  -> exit $r"; rc=1; }
done
exit $rc
