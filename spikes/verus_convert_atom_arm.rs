#![feature(allocator_api)]
use vstd::prelude::*;
use std::rc::Rc;

verus! {
pub mod num_bigint {
    use vstd::prelude::*;
    use vstd::std_specs::cmp::*;
    #[verifier::external_body]
    #[verifier::accept_recursive_types]
    pub struct BigInt { x: Vec<u64> }
    pub uninterp spec fn bi(n: BigInt) -> int;
    pub broadcast axiom fn bi_inj(a: BigInt, b: BigInt) ensures #[trigger] bi(a) == #[trigger] bi(b) ==> a == b;
    impl Clone for BigInt {
        #[verifier::external_body]
        fn clone(&self) -> (r: BigInt) ensures r == *self { unimplemented!() }
    }
    impl PartialEqSpecImpl for BigInt {
        open spec fn obeys_eq_spec() -> bool { true }
        open spec fn eq_spec(&self, other: &BigInt) -> bool { bi(*self) == bi(*other) }
    }
    impl PartialEq for BigInt {
        #[verifier::external_body]
        fn eq(&self, other: &BigInt) -> bool { unimplemented!() }
    }
}
use num_bigint::*;
pub type Number = BigInt;
broadcast use num_bigint::bi_inj;

// spec library (2.4): signed big-endian value and its minimal encoding, uninterpreted here
pub uninterp spec fn be_signed(s: Seq<u8>) -> int;
pub uninterp spec fn min_signed_be(i: int) -> Seq<u8>;
pub broadcast axiom fn min_signed_zero() ensures #[trigger] min_signed_be(0) =~= seq![0u8];
pub broadcast axiom fn be_signed_zero(s: Seq<u8>) ensures s.len() > 0 && #[trigger] be_signed(s) == 0 && min_signed_be(0) =~= s ==> s =~= seq![0u8];

#[verifier::external_body]
pub fn bi_zero() -> (r: Number) ensures bi(r) == 0 { unimplemented!() }
#[verifier::external_body]
pub fn number_from_u8(v: &[u8]) -> (r: Number) ensures bi(r) == (if v@.len() == 0 { 0 } else { be_signed(v@) }) { unimplemented!() }
#[verifier::external_body]
pub fn u8_from_number(v: Number) -> (r: Vec<u8>) ensures r@ == min_signed_be(bi(v)) { unimplemented!() }
#[verifier::external_body]
pub fn printable(a: &[u8], quoted: bool) -> bool { unimplemented!() }
#[verifier::external_body]
pub fn slice_eq_vec(a: &Vec<u8>, b: &[u8]) -> (r: bool) ensures r == (a@ == b@) { unimplemented!() }
#[verifier::external_body]
pub fn slice_is_zero1(b: &[u8]) -> (r: bool) ensures r == (b@ == seq![0u8]) { unimplemented!() }
#[verifier::external_body]
pub fn to_vec(b: &[u8]) -> (r: Vec<u8>) ensures r@ == b@ { unimplemented!() }

pub struct Srcloc { pub line: usize }
pub enum SExp {
    Nil(Srcloc),
    Cons(Srcloc, Rc<SExp>, Rc<SExp>),
    Integer(Srcloc, Number),
    QuotedString(Srcloc, u8, Vec<u8>),
    Atom(Srcloc, Vec<u8>),
}
pub enum Tree { Atom(Seq<u8>), Pair(Box<Tree>, Box<Tree>) }

pub open spec fn tree_of(mode: bool, s: SExp) -> Tree decreases s {
    match s {
        SExp::Nil(_) => Tree::Atom(seq![]),
        SExp::Cons(_, a, b) => Tree::Pair(Box::new(tree_of(mode, *a)), Box::new(tree_of(mode, *b))),
        SExp::Integer(_, i) => if mode && bi(i) == 0 { Tree::Atom(seq![]) } else { Tree::Atom(min_signed_be(bi(i))) },
        SExp::QuotedString(_, _, v) => Tree::Atom(v@),
        SExp::Atom(_, v) => Tree::Atom(v@),
    }
}

// the atom arm of convert_from_clvm_rs, real text modulo the three slice helpers (== on slices)
fn convert_atom(int_conv: bool, loc: Srcloc, atom_data: &[u8]) -> (r: SExp)
    ensures tree_of(int_conv, r) == Tree::Atom(atom_data@)
{
            if atom_data.len() == 0 {
                proof { assert(atom_data@ =~= Seq::<u8>::empty()); }
                SExp::Nil(loc)
            } else {
                let integer = number_from_u8(atom_data);
                // Ensure that atom values that don't evaluate equal to integers
                // are represented faithfully as atoms.
                if slice_eq_vec(&u8_from_number(integer.clone()), atom_data) {
                    if int_conv && slice_is_zero1(atom_data) {
                        SExp::QuotedString(loc, b'x', to_vec(atom_data))
                    } else {
                        proof {
                            broadcast use min_signed_zero;
                            if bi(integer) == 0 { assert(min_signed_be(0) =~= seq![0u8]); assert(atom_data@ =~= seq![0u8]); }
                        }
                        SExp::Integer(loc, integer)
                    }
                } else if int_conv && !printable(atom_data, true) {
                    SExp::QuotedString(loc, b'x', to_vec(atom_data))
                } else {
                    SExp::Atom(loc, to_vec(atom_data))
                }
            }
}
}
fn main() {}
