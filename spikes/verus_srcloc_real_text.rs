#![feature(allocator_api)]
use vstd::prelude::*;
use std::rc::Rc;

verus! {
pub struct Until { pub line: usize, pub col: usize }
impl Clone for Until { fn clone(&self) -> (r: Until) ensures r == *self { Until { line: self.line, col: self.col } } }
impl Until {
    pub fn from_pair(p: (usize, usize)) -> (r: Self) ensures r.line == p.0, r.col == p.1 {
        Until {
            line: p.0,
            col: p.1,
        }
    }
}
pub struct Srcloc {
    pub file: Rc<String>,
    pub line: usize,
    pub col: usize,
    pub until: Option<Until>,
}
impl Clone for Srcloc {
    #[verifier::external_body]
    fn clone(&self) -> (r: Srcloc) ensures r == *self { unimplemented!() }
}

pub open spec fn smax(a: Srcloc) -> (usize, usize) {
    match a.until { None => (a.line, (a.col + 1) as usize), Some(u) => (u.line, u.col) }
}
pub open spec fn lt(a: (usize, usize), b: (usize, usize)) -> bool { a.0 < b.0 || (a.0 == b.0 && a.1 < b.1) }
pub open spec fn le(a: (usize, usize), b: (usize, usize)) -> bool { a == b || lt(a, b) }

impl Srcloc {
    pub fn advance(&self, ch: u8) -> (r: Srcloc)
        requires self.col < usize::MAX - 8, self.line < usize::MAX
        ensures r.file == self.file, r.until == self.until,
            ch == 10 ==> r.line == self.line + 1 && r.col == 1,
            ch != 10 && ch != 9 ==> r.line == self.line && r.col == self.col + 1,
    {
        match ch as char {
            '\n' => Srcloc {
                file: self.file.clone(),
                col: 1,
                line: self.line + 1,
                until: self.until.clone(),
            },
            '\t' => {
                let next_tab = (self.col + 8) & !7;
                Srcloc {
                    file: self.file.clone(),
                    col: next_tab,
                    line: self.line,
                    until: self.until.clone(),
                }
            }
            _ => Srcloc {
                file: self.file.clone(),
                col: self.col + 1,
                line: self.line,
                until: self.until.clone(),
            },
        }
    }
}

pub fn src_location_max(a: &Srcloc) -> (r: (usize, usize))
    requires a.col < usize::MAX
    ensures r == smax(*a)
{
    match &a.until {
        None => (a.line, a.col + 1),
        Some(u) => (u.line, u.col),
    }
}

fn add_onto(x: &Srcloc, y: &Srcloc) -> (r: Srcloc)
    requires y.col < usize::MAX
    ensures r.line == x.line, r.col == x.col, r.until.is_some(), smax(r) == smax(*y)
{
    Srcloc {
        file: x.file.clone(),
        line: x.line,
        col: x.col,
        until: Some(Until::from_pair(src_location_max(y))),
    }
}

fn combine_src_location(a: &Srcloc, b: &Srcloc) -> (r: Srcloc)
    requires a.col < usize::MAX, b.col < usize::MAX
    ensures (r.line, r.col) == (if le((a.line, a.col), (b.line, b.col)) { (a.line, a.col) } else { (b.line, b.col) }),
        smax(r) == smax(*a) || smax(r) == smax(*b),
{
    match (a.line < b.line, a.line == b.line) {
        (true, _) => add_onto(a, b),
        (_, true) => match (a.col < b.col, a.col == b.col) {
            (true, _) => add_onto(a, b),
            (_, true) => a.clone(),
            _ => add_onto(b, a),
        },
        _ => add_onto(b, a),
    }
}
}
fn main() {}
