#![feature(allocator_api)]
use vstd::prelude::*;

verus! {

// ---- trusted prelude: Bytes (real struct is { _b: Vec<u8> }) ----
pub struct Bytes { pub _b: Vec<u8> }
pub enum BytesFromType { Raw(Vec<u8>), String(String) }
impl Bytes {
    #[verifier::external_body]
    pub fn new(value: Option<BytesFromType>) -> (r: Bytes)
        ensures match value { None => r._b@ == Seq::<u8>::empty(), Some(BytesFromType::Raw(v)) => r._b@ == v@, _ => true }
    { unimplemented!() }
    pub fn length(&self) -> (r: usize) ensures r == self._b.len() { self._b.len() }
    pub fn at(&self, i: usize) -> (r: u8) requires i < self._b.len() ensures r == self._b[i as int] { self._b[i] }
    pub fn data(&self) -> (r: &Vec<u8>) ensures r@ == self._b@ { &self._b }
}

#[verifier::external_body]
pub fn opaque_string() -> String { unimplemented!() }

const MAX_SINGLE_BYTE: u32 = 0x7F;

pub open spec fn enc_len_prefix(size: int) -> Seq<u8> {
    if size < 0x40 { seq![(0x80 + size) as u8] }
    else if size < 0x2000 { seq![(0xC0 + size / 256) as u8, (size % 256) as u8] }
    else if size < 0x100000 { seq![(0xE0 + size / 65536) as u8, ((size / 256) % 256) as u8, (size % 256) as u8] }
    else if size < 0x8000000 { seq![(0xF0 + size / 0x1000000) as u8, ((size / 65536) % 256) as u8, ((size / 256) % 256) as u8, (size % 256) as u8] }
    else { seq![(0xF8 + size / 0x100000000) as u8, ((size / 0x1000000) % 256) as u8, ((size / 65536) % 256) as u8, ((size / 256) % 256) as u8, (size % 256) as u8] }
}

fn atom_size_blob(b: &Bytes) -> (r: Result<(bool, Vec<u8>), String>)
    ensures
        b._b.len() < 0x400000000 ==> r.is_ok(),
        r.is_ok() && b._b.len() == 0 ==> r->Ok_0.0 == false && r->Ok_0.1@ =~= seq![0x80u8],
        r.is_ok() && b._b.len() == 1 && b._b[0] <= 0x7f ==> r->Ok_0.0 == false && r->Ok_0.1@ =~= b._b@,
        r.is_ok() && !(b._b.len() == 0) && !(b._b.len() == 1 && b._b[0] <= 0x7f) ==> r->Ok_0.0 == true && r->Ok_0.1@ =~= enc_len_prefix(b._b.len() as int),
{
    let size = b.length() as i64;
    if size == 0 {
        return Ok((false, vec![0x80]));
    } else if size == 1 && b.at(0) <= MAX_SINGLE_BYTE as u8 {
        return Ok((false, b.data().clone()));
    }

    proof {
        assert(0 <= size < 0x40 ==> (0x80u8 | (size as u8)) == (0x80 + size) as u8) by(bit_vector);
        assert(0x40 <= size < 0x2000 ==> (0xC0u8 | ((size >> 8) as u8)) == (0xC0 + size / 256) as u8 && ((size & 0xFF) as u8) == (size % 256) as u8) by(bit_vector);
        assert(0x2000 <= size < 0x100000 ==> (0xE0u8 | ((size >> 16) as u8)) == (0xE0 + size / 65536) as u8 && (((size >> 8) & 0xFF) as u8) == ((size / 256) % 256) as u8 && ((size & 0xFF) as u8) == (size % 256) as u8) by(bit_vector);
        assert(0x100000 <= size < 0x8000000 ==> (0xF0u8 | ((size >> 24) as u8)) == (0xF0 + size / 0x1000000) as u8 && (((size >> 16) & 0xFF) as u8) == ((size / 65536) % 256) as u8 && (((size >> 8) & 0xFF) as u8) == ((size / 256) % 256) as u8 && ((size & 0xFF) as u8) == (size % 256) as u8) by(bit_vector);
        assert(0x8000000 <= size < 0x400000000 ==> (0xF8u8 | ((size / 0x100000000i64) as u8)) == (0xF8 + size / 0x100000000) as u8 && (((size >> 24) & 0xFF) as u8) == ((size / 0x1000000) % 256) as u8 && (((size >> 16) & 0xFF) as u8) == ((size / 65536) % 256) as u8 && (((size >> 8) & 0xFF) as u8) == ((size / 256) % 256) as u8 && ((size & 0xFF) as u8) == (size % 256) as u8) by(bit_vector);
    }
    if size < 0x40 {
        Ok((true, vec![0x80 | size as u8]))
    } else if size < 0x2000 {
        Ok((true, vec![0xC0 | ((size >> 8) as u8), (size & 0xFF) as u8]))
    } else if size < 0x100000 {
        Ok((
            true,
            vec![
                0xE0 | ((size >> 16) as u8),
                ((size >> 8) & 0xFF) as u8,
                (size & 0xFF) as u8,
            ],
        ))
    } else if size < 0x8000000 {
        Ok((
            true,
            vec![
                0xF0 | ((size >> 24) as u8),
                ((size >> 16) & 0xFF) as u8,
                ((size >> 8) & 0xFF) as u8,
                (size & 0xFF) as u8,
            ],
        ))
    } else if size < 0x400000000 {
        Ok((
            true,
            vec![
                0xF8 | ((size / (65536 * 65536)) as u8), // (size >> 32),
                ((size >> 24) & 0xFF) as u8,
                ((size >> 16) & 0xFF) as u8,
                ((size >> 8) & 0xFF) as u8,
                (size & 0xFF) as u8,
            ],
        ))
    } else {
        Err(opaque_string())
    }
}
}
fn main() {}
