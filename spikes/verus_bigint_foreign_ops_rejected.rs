use vstd::prelude::*;
use vstd::std_specs::ops::*;
use num_bigint::BigInt;
use num_traits::{One, Zero};
pub type Number = BigInt;

verus! {

#[verifier::external_type_specification]
#[verifier::external_body]
pub struct ExBigInt(BigInt);

pub uninterp spec fn bi(n: BigInt) -> int;

pub assume_specification[ <BigInt as Clone>::clone ](n: &BigInt) -> (r: BigInt)
    ensures bi(r) == bi(*n);

pub uninterp spec fn of_int(i: int) -> BigInt;
pub broadcast axiom fn of_int_bi(i: int) ensures #[trigger] bi(of_int(i)) == i;

pub assume_specification[ <BigInt as core::ops::ShlAssign<i32>>::shl_assign ](a: &mut BigInt, rhs: i32)
    ensures rhs >= 0 ==> bi(*final(a)) == bi(*old(a)) * vstd::arithmetic::power2::pow2(rhs as nat);

#[verifier::external_body]
pub fn bi_zero() -> (r: Number) ensures bi(r) == 0 { Zero::zero() }
#[verifier::external_body]
pub fn bi_one() -> (r: Number) ensures bi(r) == 1 { One::one() }

pub fn f(a: &Number) -> (r: Number)
  ensures bi(r) == 2 * bi(*a)
{
    let mut path_1 = a.clone();
    path_1 <<= 1;
    proof { broadcast use of_int_bi; vstd::arithmetic::power2::lemma2_to64(); }
    path_1
}
}
fn main() {}
