use vstd::prelude::*;
verus! {
pub fn get_u32(v: &[u8], n: usize) -> (r: u32)
    requires n + 3 < v.len(),
    ensures r as nat == (v[n as int] as nat) * 0x1000000 + (v[n+1] as nat) * 0x10000 + (v[n+2] as nat) * 0x100 + (v[n+3] as nat),
{
    let p1 = v[n] as u32;
    let p2 = v[n + 1] as u32;
    let p3 = v[n + 2] as u32;
    let p4 = v[n + 3] as u32;
    proof {
        assert(p1 < 256 && p2 < 256 && p3 < 256 && p4 < 256 ==>
           (p4 | (p3 << 8) | (p2 << 16) | (p1 << 24)) == p1 * 0x1000000 + p2 * 0x10000 + p3 * 0x100 + p4) by(bit_vector);
    }
    p4 | (p3 << 8) | (p2 << 16) | (p1 << 24)
}
}
fn main() {}
