#![feature(allocator_api)]
use vstd::prelude::*;
use vstd::std_specs::ops::*;
use std::rc::Rc;
use std::borrow::Borrow;

verus! {

pub mod num_bigint {
    use vstd::prelude::*;
    use vstd::std_specs::ops::*;
    use vstd::std_specs::cmp::*;
    #[verifier::external_body]
    #[verifier::accept_recursive_types]
    pub struct BigInt { x: Vec<u64> }
    pub uninterp spec fn bi(n: BigInt) -> int;
    pub uninterp spec fn of_int(i: int) -> BigInt;
    pub broadcast axiom fn of_int_bi(i: int) ensures #[trigger] bi(of_int(i)) == i;
    pub broadcast axiom fn bi_inj(a: BigInt, b: BigInt) ensures #[trigger] bi(a) == #[trigger] bi(b) ==> a == b;

    impl Clone for BigInt {
        #[verifier::external_body]
        fn clone(&self) -> (r: BigInt) ensures r == *self { unimplemented!() }
    }
    impl RemSpecImpl<BigInt> for BigInt {
        open spec fn obeys_rem_spec() -> bool { true }
        open spec fn rem_req(self, rhs: BigInt) -> bool { bi(rhs) != 0 }
        open spec fn rem_spec(self, rhs: BigInt) -> BigInt { of_int(if bi(self) >= 0 { bi(self) % bi(rhs) } else { -((-bi(self)) % bi(rhs)) }) }
    }
    impl core::ops::Rem<BigInt> for BigInt {
        type Output = BigInt;
        #[verifier::external_body]
        fn rem(self, rhs: BigInt) -> BigInt { unimplemented!() }
    }
    impl DivSpecImpl<BigInt> for BigInt {
        open spec fn obeys_div_spec() -> bool { true }
        open spec fn div_req(self, rhs: BigInt) -> bool { bi(rhs) != 0 }
        open spec fn div_spec(self, rhs: BigInt) -> BigInt { of_int(if bi(self) >= 0 { bi(self) / bi(rhs) } else { -((-bi(self)) / bi(rhs)) }) }
    }
    impl core::ops::Div<BigInt> for BigInt {
        type Output = BigInt;
        #[verifier::external_body]
        fn div(self, rhs: BigInt) -> BigInt { unimplemented!() }
    }
    impl PartialEqSpecImpl for BigInt {
        open spec fn obeys_eq_spec() -> bool { true }
        open spec fn eq_spec(&self, other: &BigInt) -> bool { bi(*self) == bi(*other) }
    }
    impl PartialEq for BigInt {
        #[verifier::external_body]
        fn eq(&self, other: &BigInt) -> bool { unimplemented!() }
    }
    pub trait ToBigInt { fn to_bigint(&self) -> Option<BigInt>; }
    impl ToBigInt for i32 {
        #[verifier::external_body]
        fn to_bigint(&self) -> (r: Option<BigInt>) ensures r.is_some(), bi(r.unwrap()) == *self as int { unimplemented!() }
    }
}
use num_bigint::*;
pub type Number = BigInt;
broadcast use {num_bigint::of_int_bi, num_bigint::bi_inj};
pub assume_specification<T, A> [<std::rc::Rc<T, A> as std::borrow::Borrow<T>>::borrow] (r: &std::rc::Rc<T, A>) -> (o: &T)
    where A: std::alloc::Allocator, T: std::marker::MetaSized + ?Sized,
    ensures o == &**r;


#[verifier::external_body]
pub fn bi_zero() -> (r: Number) ensures bi(r) == 0 { unimplemented!() }
#[verifier::external_body]
pub fn bi_one() -> (r: Number) ensures bi(r) == 1 { unimplemented!() }

pub struct Srcloc { pub line: usize, pub col: usize }
impl Clone for Srcloc { fn clone(&self) -> (r: Srcloc) ensures r == *self { Srcloc { line: self.line, col: self.col } } }

pub enum SExp {
    Nil(Srcloc),
    Cons(Srcloc, Rc<SExp>, Rc<SExp>),
    Integer(Srcloc, Number),
    QuotedString(Srcloc, u8, Vec<u8>),
    Atom(Srcloc, Vec<u8>),
}
pub enum RunFailure { RunErr(Srcloc, String) }
#[verifier::external_body]
pub fn opaque_string() -> String { unimplemented!() }

pub open spec fn path_lookup(p: int, t: SExp) -> Option<SExp>
    decreases p when p >= 1
{
    if p <= 1 { Some(t) } else {
        match t {
            SExp::Cons(_, a, b) => if p % 2 == 0 { path_lookup(p / 2, *a) } else { path_lookup(p / 2, *b) },
            _ => None,
        }
    }
}

fn choose_path(
    l: Srcloc,
    orig: Number,
    p: Number,
    all: Rc<SExp>,
    context: Rc<SExp>,
) -> (r: Result<Rc<SExp>, RunFailure>)
    requires bi(p) >= 1,
    ensures match path_lookup(bi(p), *context) { Some(v) => r.is_ok() && *r->Ok_0 == v, None => r.is_err() }
    decreases bi(p)
{
    if p == bi_one() {
        Ok(context)
    } else {
        match context.borrow() {
            SExp::Cons(l, a, b) => {
                let next = if p.clone() % 2_i32.to_bigint().unwrap() == bi_zero() {
                    a
                } else {
                    b
                };

                choose_path(
                    l.clone(),
                    orig,
                    p / (2_i32.to_bigint().unwrap()),
                    all,
                    next.clone(),
                )
            }

            _ => Err(RunFailure::RunErr(l, opaque_string())),
        }
    }
}
}
fn main() {}
