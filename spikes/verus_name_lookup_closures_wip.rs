#![feature(allocator_api)]
use vstd::prelude::*;
use std::rc::Rc;
use std::borrow::Borrow;

verus! {
pub assume_specification<T, A> [<std::rc::Rc<T, A> as std::borrow::Borrow<T>>::borrow] (r: &std::rc::Rc<T, A>) -> (o: &T)
    where A: std::alloc::Allocator, T: std::marker::MetaSized + ?Sized,
    ensures o == &**r;

pub assume_specification<T, E, F: FnOnce(E) -> T>[Result::<T, E>::unwrap_or_else](r: Result<T, E>, op: F) -> (o: T)
    requires r.is_err() ==> op.requires((r->Err_0,)),
    ensures match r { Ok(t) => o == t, Err(e) => op.ensures((e,), o) };
pub struct Srcloc { pub line: usize, pub col: usize }
impl Clone for Srcloc { fn clone(&self) -> (r: Srcloc) ensures r == *self { Srcloc { line: self.line, col: self.col } } }
pub struct CompileErr(pub Srcloc, pub String);
#[verifier::external_body]
pub fn opaque_string() -> String { unimplemented!() }

pub enum SExp {
    Nil(Srcloc),
    Cons(Srcloc, Rc<SExp>, Rc<SExp>),
    Atom(Srcloc, Vec<u8>),
}

pub open spec fn height(t: SExp) -> nat decreases t {
    match t { SExp::Cons(_, a, b) => 1 + if height(*a) > height(*b) { height(*a) } else { height(*b) }, _ => 0 }
}
pub open spec fn path_lookup(p: int, t: SExp) -> Option<SExp>
    decreases p when p >= 1
{
    if p <= 1 { Some(t) } else {
        match t {
            SExp::Cons(_, a, b) => if p % 2 == 0 { path_lookup(p / 2, *a) } else { path_lookup(p / 2, *b) },
            _ => None,
        }
    }
}
pub open spec fn names(t: SExp, name: Seq<u8>) -> bool { match t { SExp::Atom(_, a) => a@ == name, _ => false } }

#[verifier::external_body]
fn vec_eq(a: &Vec<u8>, b: &[u8]) -> (r: bool) ensures r == (a@ == b@) { unimplemented!() }

fn create_name_lookup_(
    l: Srcloc,
    name: &[u8],
    env: Rc<SExp>,
    find: Rc<SExp>,
) -> (r: Result<u64, CompileErr>)
    requires height(*find) < 60
    ensures r.is_ok() ==> 1 <= r->Ok_0 < vstd::arithmetic::power2::pow2(height(*find) + 1) && path_lookup(r->Ok_0 as int, *find).is_some() && names(path_lookup(r->Ok_0 as int, *find).unwrap(), name@)
    decreases *find
{
    match find.borrow() {
        SExp::Atom(l, a) => {
            if vec_eq(a, name) {
                Ok(1_u64)
            } else {
                Err(CompileErr(l.clone(), opaque_string()))
            }
        }
        SExp::Cons(l, head, rest) => {
                create_name_lookup_(l.clone(), name, env.clone(), head.clone())
                    .map(|v| Ok(2 * v))
                    .unwrap_or_else(|_e0| {
                        create_name_lookup_(l.clone(), name, env, rest.clone()).map(|v| 2 * v + 1)
                    })
        }
        _ => Err(CompileErr(l, opaque_string())),
    }
}
}
fn main() {}
