#![feature(allocator_api)]
use vstd::prelude::*;
use vstd::arithmetic::power2::*;

verus! {
pub mod num_bigint {
    use vstd::prelude::*;
    use vstd::std_specs::cmp::*;
    use vstd::std_specs::ops::*;
    use vstd::arithmetic::power2::*;
    #[verifier::external_body]
    #[verifier::accept_recursive_types]
    pub struct BigInt { x: Vec<u64> }
    pub uninterp spec fn bi(n: BigInt) -> int;
    pub uninterp spec fn of_int(i: int) -> BigInt;
    pub broadcast axiom fn of_int_bi(i: int) ensures #[trigger] bi(of_int(i)) == i;
    // bitwise ops on non-negative mathematical integers (trusted)
    pub uninterp spec fn int_and(a: int, b: int) -> int;
    pub uninterp spec fn int_or(a: int, b: int) -> int;
    pub broadcast axiom fn and_low_mask(a: int, k: nat) requires a >= 0 ensures #[trigger] int_and(a, pow2(k) as int - 1) == a % (pow2(k) as int);
    pub broadcast axiom fn or_disjoint(a: int, b: int, k: nat) requires a >= 0, a % (pow2(k) as int) == 0, 0 <= b < pow2(k) as int ensures #[trigger] int_or(a, b) == a + b, #[trigger] pow2(k) > 0;

    impl Clone for BigInt {
        #[verifier::external_body]
        fn clone(&self) -> (r: BigInt) ensures r == *self { unimplemented!() }
    }
    impl PartialEqSpecImpl for BigInt {
        open spec fn obeys_eq_spec() -> bool { true }
        open spec fn eq_spec(&self, other: &BigInt) -> bool { bi(*self) == bi(*other) }
    }
    impl PartialEq for BigInt { #[verifier::external_body] fn eq(&self, other: &BigInt) -> bool { unimplemented!() } }
    impl PartialOrdSpecImpl for BigInt {
        open spec fn obeys_partial_cmp_spec() -> bool { true }
        open spec fn partial_cmp_spec(&self, other: &BigInt) -> Option<core::cmp::Ordering> {
            if bi(*self) < bi(*other) { Some(core::cmp::Ordering::Less) } else if bi(*self) == bi(*other) { Some(core::cmp::Ordering::Equal) } else { Some(core::cmp::Ordering::Greater) }
        }
    }
    impl PartialOrd for BigInt { #[verifier::external_body] fn partial_cmp(&self, other: &BigInt) -> Option<core::cmp::Ordering> { unimplemented!() } }
    impl ShlAssignSpecImpl<i32> for BigInt {
        open spec fn obeys_shl_assign_spec() -> bool { true }
        open spec fn shl_assign_req(&self, rhs: i32) -> bool { rhs >= 0 }
        open spec fn shl_assign_spec(&self, rhs: i32) -> &BigInt { &of_int(bi(*self) * (pow2(rhs as nat) as int)) }
    }
    impl core::ops::ShlAssign<i32> for BigInt { #[verifier::external_body] fn shl_assign(&mut self, rhs: i32) { unimplemented!() } }
    impl ShrAssignSpecImpl<i32> for BigInt {
        open spec fn obeys_shr_assign_spec() -> bool { true }
        open spec fn shr_assign_req(&self, rhs: i32) -> bool { rhs >= 0 && bi(*self) >= 0 }
        open spec fn shr_assign_spec(&self, rhs: i32) -> &BigInt { &of_int(bi(*self) / (pow2(rhs as nat) as int)) }
    }
    impl core::ops::ShrAssign<i32> for BigInt { #[verifier::external_body] fn shr_assign(&mut self, rhs: i32) { unimplemented!() } }
    impl SubAssignSpecImpl<BigInt> for BigInt {
        open spec fn obeys_sub_assign_spec() -> bool { true }
        open spec fn sub_assign_req(&self, rhs: BigInt) -> bool { true }
        open spec fn sub_assign_spec(&self, rhs: BigInt) -> &BigInt { &of_int(bi(*self) - bi(rhs)) }
    }
    impl core::ops::SubAssign<BigInt> for BigInt { #[verifier::external_body] fn sub_assign(&mut self, rhs: BigInt) { unimplemented!() } }
    impl BitAndSpecImpl<BigInt> for BigInt {
        open spec fn obeys_bitand_spec() -> bool { true }
        open spec fn bitand_req(self, rhs: BigInt) -> bool { bi(self) >= 0 && bi(rhs) >= 0 }
        open spec fn bitand_spec(self, rhs: BigInt) -> BigInt { of_int(int_and(bi(self), bi(rhs))) }
    }
    impl core::ops::BitAnd<BigInt> for BigInt { type Output = BigInt; #[verifier::external_body] fn bitand(self, rhs: BigInt) -> BigInt { unimplemented!() } }
    impl BitOrSpecImpl<BigInt> for BigInt {
        open spec fn obeys_bitor_spec() -> bool { true }
        open spec fn bitor_req(self, rhs: BigInt) -> bool { bi(self) >= 0 && bi(rhs) >= 0 }
        open spec fn bitor_spec(self, rhs: BigInt) -> BigInt { of_int(int_or(bi(self), bi(rhs))) }
    }
    impl core::ops::BitOr<BigInt> for BigInt { type Output = BigInt; #[verifier::external_body] fn bitor(self, rhs: BigInt) -> BigInt { unimplemented!() } }
}
use num_bigint::*;
pub type Number = BigInt;
broadcast use {num_bigint::of_int_bi};

#[verifier::external_body]
pub fn bi_one() -> (r: Number) ensures bi(r) == 1 { unimplemented!() }

// number of path steps in p (position of the top bit)
pub open spec fn plen(p: int) -> nat decreases p when p >= 1 { if p <= 1 { 0 } else { 1 + plen(p / 2) } }
// follow p, then q
pub open spec fn compose(p: int, q: int) -> int { q * (pow2(plen(p)) as int) + (p - (pow2(plen(p)) as int)) }

pub fn compose_paths(path_0_: &Number, path_1_: &Number) -> (r: Number)
    requires bi(*path_0_) >= 1, bi(*path_1_) >= 1
    ensures bi(r) == compose(bi(*path_0_), bi(*path_1_))
{
    let path_0 = path_0_.clone();
    let mut path_1 = path_1_.clone();
    let mut mask = bi_one();
    let mut temp_path = path_0.clone();
    let ghost mut k: nat = 0;
    proof { lemma2_to64(); }
    while temp_path > bi_one()
        invariant
            bi(path_0) >= 1, bi(path_0) == bi(*path_0_),
            bi(mask) == pow2(k) as int,
            bi(temp_path) == bi(path_0) / (pow2(k) as int),
            bi(temp_path) >= 1,
            bi(path_1) == bi(*path_1_) * (pow2(k) as int),
            plen(bi(path_0)) == k + plen(bi(temp_path)),
        decreases bi(temp_path)
    {
        let ghost m0 = bi(mask);
        let ghost t0 = bi(temp_path);
        let ghost p10 = bi(path_1);
        path_1 <<= 1;
        mask <<= 1;
        temp_path >>= 1;
        proof {
            lemma2_to64();
            assert(pow2(1) == 2);
            lemma_pow2_unfold(k + 1);
            assert(pow2(k + 1) == 2 * pow2(k));
            lemma_pow2_pos(k);
            assert(bi(mask) == m0 * 2);
            assert(bi(temp_path) == t0 / 2);
            assert(bi(path_1) == p10 * 2);
            vstd::arithmetic::div_mod::lemma_div_denominator(bi(path_0), pow2(k) as int, 2);
            assert(bi(temp_path) == bi(path_0) / ((pow2(k) as int) * 2));
            assert((pow2(k) as int) * 2 == pow2(k + 1) as int);
            assert(bi(*path_1_) * (pow2(k) as int) * 2 == bi(*path_1_) * ((pow2(k) as int) * 2)) by(nonlinear_arith);
            assert(plen(t0) == 1 + plen(t0 / 2));
            k = k + 1;
        }
    }

    mask -= bi_one();
    proof {
        lemma_pow2_pos(k);
        broadcast use num_bigint::and_low_mask, num_bigint::or_disjoint;
        // temp_path == 1  ==> pow2(k) <= p0 < 2*pow2(k)
        vstd::arithmetic::div_mod::lemma_fundamental_div_mod(bi(path_0), pow2(k) as int);
        vstd::arithmetic::div_mod::lemma_mod_bound(bi(path_0), pow2(k) as int);
        vstd::arithmetic::div_mod::lemma_mod_multiples_basic(bi(*path_1_), pow2(k) as int);
        assert(plen(1) == 0);
    }
    path_1 | (path_0 & mask)
}
}
fn main() {}
