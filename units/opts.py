"""C11: every compile entry point derives the compiler options the same way.

The option-derivation expressions are cut mechanically out of the real text of
  clvmc.rs::compile_clvm_text_maybe_opt   (library / file-to-file / Python / wasm entry)
  comp_input.rs::RunAndCompileInputData::new + compile_modern   (run / cldb command line)
and emitted as Verus spec functions; the obligations state that they are the
same function of (do_optimize, stepping) and equal the rule in the property
statement, that both paths hand the same do_optimize to the classic
post-optimiser, and that the library wrapper compile_clvm_text requests
optimisation.  compile_file / maybe_finalize_program_via_classic_optimizer are
uninterpreted functions of (options, text).
"""
import hashlib
import re

from vlib.rustlex import LostAnchor, find_item, find_impl_block
from vlib import unitgen


def _args_of(text, call):
    """Return the argument text of the first `call(` in text (balanced parens)."""
    i = text.find(call + '(')
    if i < 0:
        raise LostAnchor('call %s( not found' % call)
    j = i + len(call) + 1
    depth = 1
    k = j
    while depth > 0:
        if k >= len(text):
            raise LostAnchor('unbalanced call ' + call)
        if text[k] == '(':
            depth += 1
        elif text[k] == ')':
            depth -= 1
        k += 1
    return text[j:k - 1]


def _const_value(name):
    """Integer value of `const NAME: T = <int>;` somewhere under src/ (mechanical lookup, stated in the evidence)."""
    import os
    root = os.path.join(unitgen.REPO, 'src')
    for dp, _, fns in os.walk(root):
        for fn in fns:
            if fn.endswith('.rs'):
                try:
                    t = open(os.path.join(dp, fn)).read()
                except Exception:
                    continue
                m = re.search(r'\bconst\s+%s\s*:\s*[a-z0-9]+\s*=\s*([0-9_]+)\s*;' % re.escape(name), t)
                if m:
                    return m.group(1).replace('_', '')
    raise LostAnchor('constant %s not found as an integer literal' % name)


def _expr_to_spec(e, selfdot=False):
    e = re.sub(r'//[^\n]*', '', e).strip()
    if selfdot:
        e = e.replace('self.do_optimize', 'do_optimize')
    for name in set(re.findall(r'\b[A-Z][A-Z0-9_]+\b', e)):
        e = re.sub(r'\b%s\b' % name, _const_value(name), e)
    if not re.fullmatch(r'[\sa-z_0-9|&<>=!()]+', e):
        raise LostAnchor('option expression outside the supported form: %r' % e)
    return e


def _split_top(args):
    out, depth, cur = [], 0, ''
    for ch in args:
        if ch in '([{':
            depth += 1
        elif ch in ')]}':
            depth -= 1
        if ch == ',' and depth == 0:
            out.append(cur.strip())
            cur = ''
        else:
            cur += ch
    if cur.strip():
        out.append(cur.strip())
    return out


def render(mode=None, canary=None):
    items = []
    notes = ['opts: option-derivation expressions extracted from compile_clvm_text_maybe_opt and RunAndCompileInputData::new / compile_modern']
    csrc = unitgen.load_source('src/classic/clvm_tools/clvmc.rs')
    a, b, _ = find_item(csrc, 'fn', 'compile_clvm_text_maybe_opt')
    ctext = csrc.text[a:b]
    items.append({'item': 'fn compile_clvm_text_maybe_opt (option derivation)', 'file': 'src/classic/clvm_tools/clvmc.rs', 'line': csrc.text.count('\n', 0, a) + 1,
                  'sha256': hashlib.sha256(ctext.encode()).hexdigest(), 'rewrites': [], 'spliced': ['set_optimize / set_frontend_opt arguments -> spec fns']})
    m = re.search(r'if let Some\(stepping\) = dialect\.stepping \{(.*?)\n    \} else \{', ctext, flags=re.S)
    if not m:
        raise LostAnchor('clvmc: modern branch not found')
    modern = m.group(1)
    c_opt = _expr_to_spec(_args_of(modern, '.set_optimize'))
    c_fe = _expr_to_spec(_args_of(modern, '.set_frontend_opt'))
    if modern.count('.set_optimize(') != 1 or modern.count('.set_frontend_opt(') != 1:
        raise LostAnchor('clvmc: expected exactly one set_optimize and one set_frontend_opt')
    if modern.find('compile_file(') < 0 or modern.find('compile_file(') > modern.find('maybe_finalize_program_via_classic_optimizer('):
        raise LostAnchor('clvmc: compile_file / maybe_finalize order')
    c_fin = _split_top(_args_of(modern, 'maybe_finalize_program_via_classic_optimizer'))
    c_cf = _split_top(_args_of(modern, 'compile_file'))
    # wrapper
    a2, b2, _ = find_item(csrc, 'fn', 'compile_clvm_text')
    wtext = csrc.text[a2:b2]
    w_args = _split_top(_args_of(wtext, 'compile_clvm_text_maybe_opt'))
    items.append({'item': 'fn compile_clvm_text', 'file': 'src/classic/clvm_tools/clvmc.rs', 'line': csrc.text.count('\n', 0, a2) + 1,
                  'sha256': hashlib.sha256(wtext.encode()).hexdigest(), 'rewrites': [], 'spliced': ['do_optimize argument']})
    # comp_input
    isrc = unitgen.load_source('src/classic/clvm_tools/comp_input.rs')
    blocks = find_impl_block(isrc, 'RunAndCompileInputData')
    if not blocks:
        raise LostAnchor('impl RunAndCompileInputData')
    a3, b3, _ = find_item(isrc, 'fn', 'new', within=blocks[0])
    ntext = isrc.text[a3:b3]
    items.append({'item': 'fn RunAndCompileInputData::new (option derivation)', 'file': 'src/classic/clvm_tools/comp_input.rs', 'line': isrc.text.count('\n', 0, a3) + 1,
                  'sha256': hashlib.sha256(ntext.encode()).hexdigest(), 'rewrites': [], 'spliced': ['set_optimize / set_frontend_opt arguments -> spec fns']})
    m = re.search(r'if let Some\(stepping\) = dialect\.stepping \{(.*?)\n        \}', ntext, flags=re.S)
    if not m:
        raise LostAnchor('comp_input: stepping block not found')
    blk = m.group(1)
    t_opt = _expr_to_spec(_args_of(blk, '.set_optimize'))
    t_fe = _expr_to_spec(_args_of(blk, '.set_frontend_opt'))
    pre = ntext[:m.start()]
    t_opt_classic = _expr_to_spec(_args_of(pre[pre.find('let mut opts'):], '.set_optimize'))
    a4, b4, _ = find_item(isrc, 'fn', 'compile_modern', within=blocks[0])
    mtext = isrc.text[a4:b4]
    items.append({'item': 'fn RunAndCompileInputData::compile_modern', 'file': 'src/classic/clvm_tools/comp_input.rs', 'line': isrc.text.count('\n', 0, a4) + 1,
                  'sha256': hashlib.sha256(mtext.encode()).hexdigest(), 'rewrites': [], 'spliced': ['compile_file / maybe_finalize arguments']})
    t_fin = _split_top(_args_of(mtext, 'maybe_finalize_program_via_classic_optimizer'))
    t_cf = _split_top(_args_of(mtext, 'compile_file'))
    if mtext.find('compile_file(') > mtext.find('maybe_finalize_program_via_classic_optimizer('):
        raise LostAnchor('comp_input: compile_file / maybe_finalize order')
    if canary == 'tool_threshold':
        t_opt = t_opt.replace('> 22', '>= 22')
    if canary == 'finalize_flag':
        t_fin[3] = 'true'

    def norm(x):
        return re.sub(r'\s+', '', x).replace('self.', '').replace('.clone()', '').replace('&', '')
    out = []
    w = out.append
    w('#![allow(unused_imports, dead_code, unused_variables)]')
    w('use vstd::prelude::*;')
    w('verus! {')
    w('// extracted from clvmc.rs::compile_clvm_text_maybe_opt')
    w('pub open spec fn lib_optimize(do_optimize: bool, stepping: int) -> bool { %s }' % c_opt)
    w('pub open spec fn lib_frontend_opt(do_optimize: bool, stepping: int) -> bool { %s }' % c_fe)
    w('// extracted from comp_input.rs::RunAndCompileInputData::new')
    w('pub open spec fn tool_optimize(do_optimize: bool, stepping: int) -> bool { %s }' % t_opt)
    w('pub open spec fn tool_frontend_opt(do_optimize: bool, stepping: int) -> bool { %s }' % t_fe)
    w('// the flag each path hands to the classic post-optimiser (4th argument of maybe_finalize_program_via_classic_optimizer)')
    w('pub open spec fn lib_finalize_flag(do_optimize: bool, stepping: int) -> bool { %s }' % _expr_to_spec(c_fin[3]))
    w('pub open spec fn tool_finalize_flag(do_optimize: bool, stepping: int) -> bool { %s }' % _expr_to_spec(t_fin[3], True))
    w('// compile_clvm_text (Python / wasm / file-to-file entry) calls compile_clvm_text_maybe_opt with this do_optimize')
    w('pub open spec fn wrapper_do_optimize() -> bool { %s }' % _expr_to_spec(w_args[1]))
    w('pub open spec fn same_opts_argument() -> bool { %s }' % ('true' if norm(c_cf[2]) == norm(c_fin[2]) == 'opts' and norm(t_cf[2]) == norm(t_fin[2]) == 'opts' else 'false'))
    w('// C11: both entry points derive (optimize, frontend_opt) identically, and as the property states')
    w('pub proof fn entry_points_derive_the_same_options()')
    w('    ensures')
    w('        forall|d: bool, s: int| lib_optimize(d, s) == tool_optimize(d, s) && lib_frontend_opt(d, s) == tool_frontend_opt(d, s),')
    w('        forall|d: bool, s: int| lib_optimize(d, s) == (d || s > 22) && lib_frontend_opt(d, s) == (s == 22),')
    w('{}')
    w('pub proof fn post_optimiser_gets_the_same_flag()')
    w('    ensures forall|d: bool, s: int| lib_finalize_flag(d, s) == tool_finalize_flag(d, s) && lib_finalize_flag(d, s) == d, same_opts_argument(),')
    w('{}')
    w('pub proof fn library_entry_requests_optimisation()')
    w('    ensures wrapper_do_optimize() == true,')
    w('{}')
    w('// with compile_file and the post-optimiser as uninterpreted functions of (options, text) the emitted programs are equal')
    w('pub uninterp spec fn compile_file_fn(optimize: bool, frontend_opt: bool, stepping: int, text: Seq<char>) -> Seq<u8>;')
    w('pub uninterp spec fn finalize_fn(optimize: bool, frontend_opt: bool, stepping: int, flag: bool, prog: Seq<u8>) -> Seq<u8>;')
    w('pub open spec fn lib_program(d: bool, s: int, text: Seq<char>) -> Seq<u8> { finalize_fn(lib_optimize(d, s), lib_frontend_opt(d, s), s, lib_finalize_flag(d, s), compile_file_fn(lib_optimize(d, s), lib_frontend_opt(d, s), s, text)) }')
    w('pub open spec fn tool_program(d: bool, s: int, text: Seq<char>) -> Seq<u8> { finalize_fn(tool_optimize(d, s), tool_frontend_opt(d, s), s, tool_finalize_flag(d, s), compile_file_fn(tool_optimize(d, s), tool_frontend_opt(d, s), s, text)) }')
    w('pub proof fn same_program(d: bool, s: int, text: Seq<char>)')
    w('    ensures lib_program(d, s, text) == tool_program(d, s, text)')
    w('{ entry_points_derive_the_same_options(); post_optimiser_gets_the_same_flag(); }')
    w('}')
    w('fn main() {}')
    return {'text': '\n'.join(out) + '\n', 'regions': [], 'items': items, 'notes': notes,
            'canaries': [('tool_threshold', 'RunAndCompileInputData::new'), ('finalize_flag', 'compile_modern')], 'twins': []}
