#![feature(allocator_api)]
#![allow(unused_imports, dead_code, unused_variables, unused_mut, unused_parens)]
use vstd::prelude::*;
use std::rc::Rc;
use std::borrow::Borrow;

verus! {
global size_of usize == 8;
//@ include prelude/misc.rs
//@ include prelude/rc.rs
//@ include prelude/bigint.rs
//@ include prelude/std.rs
//@ extract struct Until from src/compiler/srcloc.rs
//@ derives
//@ end
//@ extract struct Srcloc from src/compiler/srcloc.rs
//@ derives
//@ end
//@ extract enum SExp from src/compiler/sexp.rs
//@ derives
//@ end
//@ extract enum SExpParseState from src/compiler/sexp.rs
//@ replace R28 @<enum SExpParseState {>@ => @<pub enum SExpParseState {>@
//@ end
//@ extract enum SExpParseResult from src/compiler/sexp.rs
//@ replace R28 @<enum SExpParseResult {>@ => @<pub enum SExpParseResult {>@
//@ end

//@ include spec/srcloc.rs
pub open spec fn sloc(s: SExp) -> Srcloc { match s { SExp::Nil(l) => l, SExp::Cons(l, _, _) => l, SExp::Integer(l, _) => l, SExp::QuotedString(l, _, _) => l, SExp::Atom(l, _) => l } }
impl Srcloc {
// proved in unit `srcloc` (same contract text)
//@ extract fn ext from src/compiler/srcloc.rs in impl Srcloc
//@ stub
//@ sigfile r contracts/srcloc_ext.sig
//@ end
}
// proved in unit `makeatom` (same contract text): except for a #-prefixed word (replaced by the primitive it names, which carries its own location) the value made from a word is located where the caller says
//@ extract fn make_atom from src/compiler/sexp.rs
//@ stub
//@ sigfile r contracts/make_atom.sig
//@ end
//@ extract fn make_cons from src/compiler/sexp.rs
//@ stub
//@ end
//@ extract fn restructure_list from src/compiler/sexp.rs
//@ stub
//@ end
//@ extract fn emit from src/compiler/sexp.rs
//@ sig r
    ensures r == SExpParseResult::Emit(a, current_state)
//@ end
//@ extract fn resume from src/compiler/sexp.rs
//@ sig r
    ensures r == SExpParseResult::Resume(current_state)
//@ end
//@ extract fn error from src/compiler/sexp.rs
//@ replace R1 @<t.to_string()>@ => @<verif_opaque_string()>@
//@ sig r
    ensures r is Error
//@ end
//@ note enlist: builds the proper list of its elements from the back; no index leaves the slice
//@ extract fn enlist from src/compiler/sexp.rs
//@ end

// nesting depth of the reader state: what the recursion of parse_sexp_step descends on
pub open spec fn state_rank(s: SExpParseState) -> nat
    decreases s
{
    match s {
        SExpParseState::OpenList(_, _) => 1,
        SExpParseState::StartStructuredList(_) => 1,
        SExpParseState::ParsingList(_, pp, _, _) => 1 + state_rank(*pp),
        SExpParseState::TermList(_, _, pp, _) => 1 + state_rank(*pp),
        _ => 0,
    }
}

// every location kept in the reader state has a column below usize::MAX (what Srcloc::ext needs)
pub open spec fn st_ok(s: SExpParseState) -> bool
    decreases s
{
    match s {
        SExpParseState::Bareword(l, _) => l.col < usize::MAX,
        SExpParseState::QuotedText(l, _, _) => l.col < usize::MAX,
        SExpParseState::QuotedEscaped(l, _, _) => l.col < usize::MAX,
        SExpParseState::OpenList(l, _) => l.col < usize::MAX,
        SExpParseState::StartStructuredList(l) => l.col < usize::MAX,
        SExpParseState::ParsingList(l, pp, _, _) => l.col < usize::MAX && st_ok(*pp),
        SExpParseState::TermList(l, _, pp, _) => l.col < usize::MAX && st_ok(*pp),
        _ => true,
    }
}
pub open spec fn res_ok(r: SExpParseResult) -> bool { match r { SExpParseResult::Resume(st) => st_ok(st), SExpParseResult::Emit(_, st) => st_ok(st), _ => true } }
// C15 (leaf tokens): while a word or a string is being read, the location kept in the state keeps its start (it is only
// extended over the byte just consumed), and the leaf finally emitted carries exactly that location (a word) or that
// location extended over the closing quote (a string)
pub open spec fn grown(l2: Srcloc, l: Srcloc, loc: Srcloc) -> bool {
    l2.file == l.file && sstart(l2) == pmin(sstart(l), sstart(loc)) && ple(send(l2), pmax(send(l), send(loc)))
}
pub open spec fn is_hash_word(s: SExpParseState) -> bool { s matches SExpParseState::Bareword(_, w) && w@.len() > 0 && w@[0] == 0x23u8 }
pub open spec fn step_locs_ok(cur: SExpParseState, loc: Srcloc, r: SExpParseResult) -> bool {
    match cur {
        SExpParseState::Bareword(l, _) => l.file == loc.file ==> match r {
            SExpParseResult::Resume(SExpParseState::Bareword(l2, _)) => grown(l2, l, loc),
            SExpParseResult::Emit(o, _) => is_hash_word(cur) || sloc(*o) == l,
            _ => true,
        },
        SExpParseState::QuotedText(l, _, _) => l.file == loc.file ==> match r {
            SExpParseResult::Resume(SExpParseState::QuotedText(l2, _, _)) => l2 == l,
            SExpParseResult::Resume(SExpParseState::QuotedEscaped(l2, _, _)) => l2 == l,
            SExpParseResult::Emit(o, _) => grown(sloc(*o), l, loc),
            _ => true,
        },
        SExpParseState::QuotedEscaped(l, _, _) => match r {
            SExpParseResult::Resume(SExpParseState::QuotedText(l2, _, _)) => l2 == l,
            _ => true,
        },
        // a token starts at the byte that opens it
        SExpParseState::Empty => match r {
            SExpParseResult::Resume(SExpParseState::Bareword(l2, _)) => l2 == loc,
            SExpParseResult::Resume(SExpParseState::QuotedText(l2, _, _)) => l2 == loc,
            SExpParseResult::Resume(SExpParseState::OpenList(l2, _)) => l2 == loc,
            _ => true,
        },
        _ => true,
    }
}

//@ note parse_sexp_step (the reader's per-byte transition function, all 290 lines): for every state and every byte it returns (Emit, Resume or Error) without indexing outside a list, without arithmetic underflow, and its recursion on the nested state terminates, and every location it hands to Srcloc::ext satisfies ext's column bound given that the state's locations do (C14); a word or string being read keeps the start of its location, which is only extended over the byte just consumed, and the leaf finally emitted carries that location (C15)
//@ extract fn parse_sexp_step from src/compiler/sexp.rs
//@ canary index_last_of_empty @<if list_content.len() == 1 {>@ => @<if list_content.len() <= 1 {>@
//@ canary word_located_at_its_end @<Rc::new(make_atom(srcloc.clone(), word_so_far.to_vec())),>@ => @<Rc::new(make_atom(loc.clone(), word_so_far.to_vec())),>@
//@ replace all R45 @<for item in list_copy.iter().rev() {>@ => @<let mut verif_i: usize = list_copy.len(); while verif_i > 0 invariant verif_i <= list_copy.len() decreases verif_i { verif_i = verif_i - 1; let item = &list_copy[verif_i];>@
//@ sig r
    requires st_ok(*current_state), loc.col < usize::MAX
    ensures res_ok(r), step_locs_ok(*current_state, loc, r),
    decreases state_rank(*current_state)
//@ before stmt @<match current_state {>@
    proof { reveal_with_fuel(st_ok, 3); }
//@ end
}
fn main() {}
