#![feature(allocator_api)]
#![allow(unused_imports, dead_code, unused_variables, unused_mut, unused_parens)]
use vstd::prelude::*;
use std::rc::Rc;
use std::borrow::Borrow;

verus! {
global size_of usize == 8;
//@ include prelude/misc.rs
//@ include prelude/rc.rs
//@ include prelude/bigint.rs
//@ include prelude/std.rs
//@ extract struct Until from src/compiler/srcloc.rs
//@ derives
//@ end
//@ extract struct Srcloc from src/compiler/srcloc.rs
//@ derives
//@ end
//@ extract enum SExp from src/compiler/sexp.rs
//@ derives
//@ end
//@ extract enum SExpParseState from src/compiler/sexp.rs
//@ replace R28 @<enum SExpParseState {>@ => @<pub enum SExpParseState {>@
//@ end
//@ extract enum SExpParseResult from src/compiler/sexp.rs
//@ replace R28 @<enum SExpParseResult {>@ => @<pub enum SExpParseResult {>@
//@ end

impl Srcloc {
// proved in unit `srcloc` under its column bound; here only absence of index / underflow / non-termination in the reader is at stake,
// so the bound is not carried through the parser state (ASSUMED: column numbers stay below usize::MAX)
//@ extract fn ext from src/compiler/srcloc.rs in impl Srcloc
//@ stub
//@ end
}
//@ extract fn make_atom from src/compiler/sexp.rs
//@ stub
//@ end
//@ extract fn make_cons from src/compiler/sexp.rs
//@ stub
//@ end
//@ extract fn restructure_list from src/compiler/sexp.rs
//@ stub
//@ end
//@ extract fn emit from src/compiler/sexp.rs
//@ end
//@ extract fn resume from src/compiler/sexp.rs
//@ end
//@ extract fn error from src/compiler/sexp.rs
//@ replace R1 @<t.to_string()>@ => @<verif_opaque_string()>@
//@ end
//@ note enlist: builds the proper list of its elements from the back; no index leaves the slice
//@ extract fn enlist from src/compiler/sexp.rs
//@ end

// nesting depth of the reader state: what the recursion of parse_sexp_step descends on
pub open spec fn state_rank(s: SExpParseState) -> nat
    decreases s
{
    match s {
        SExpParseState::OpenList(_, _) => 1,
        SExpParseState::StartStructuredList(_) => 1,
        SExpParseState::ParsingList(_, pp, _, _) => 1 + state_rank(*pp),
        SExpParseState::TermList(_, _, pp, _) => 1 + state_rank(*pp),
        _ => 0,
    }
}

//@ note parse_sexp_step (the reader's per-byte transition function, all 290 lines): for every state and every byte it returns (Emit, Resume or Error) without indexing outside a list, without arithmetic underflow, and its recursion on the nested state terminates (C14)
//@ extract fn parse_sexp_step from src/compiler/sexp.rs
//@ canary index_last_of_empty @<if list_content.len() == 1 {>@ => @<if list_content.len() <= 1 {>@
//@ replace all R45 @<for item in list_copy.iter().rev() {>@ => @<let mut verif_i: usize = list_copy.len(); while verif_i > 0 invariant verif_i <= list_copy.len() decreases verif_i { verif_i = verif_i - 1; let item = &list_copy[verif_i];>@
//@ sig r
    decreases state_rank(*current_state)
//@ end
}
fn main() {}
