#![feature(allocator_api)]
#![allow(unused_imports, dead_code, unused_variables, unused_mut, unused_parens)]
use vstd::prelude::*;
use vstd::arithmetic::power2::*;
use std::rc::Rc;
use std::borrow::Borrow;

verus! {
//@ include prelude/bigint.rs
//@ include spec/bytes.rs
//@ include prelude/misc.rs
//@ include prelude/bigint_bytes.rs
//@ include prelude/rc.rs
//@ include prelude/std.rs
//@ include units/inc/sexp_types.rs
broadcast use {num_bigint::of_int_bi, num_bigint::bi_of_int};

//@ extract fn bi_zero from src/classic/clvm/__type_compatibility__.rs
//@ sig r
    ensures bi(r) == 0
//@ end
//@ extract fn bi_one from src/classic/clvm/__type_compatibility__.rs
//@ sig r
    ensures bi(r) == 1
//@ end

// BodyForm is opaque here; make_operator1(l, "f"|"r", x) builds the call (f x) / (r x)
#[verifier::external_body]
#[verifier::accept_recursive_types]
pub struct BodyForm { x: u8 }
pub uninterp spec fn bf_first(x: BodyForm) -> BodyForm;
pub uninterp spec fn bf_rest(x: BodyForm) -> BodyForm;
pub uninterp spec fn bf_other(op: Seq<char>, x: BodyForm) -> BodyForm;
impl BodyForm {
    #[verifier::external_body]
    pub fn loc(&self) -> Srcloc { unimplemented!() }
}
#[verifier::external_body]
pub fn make_operator1(l: &Srcloc, op: String, arg: Rc<BodyForm>) -> (r: BodyForm)
    ensures r == (if op@ == "f"@ { bf_first(*arg) } else if op@ == "r"@ { bf_rest(*arg) } else { bf_other(op@, *arg) })
{ unimplemented!() }

impl SExp {
//@ extract fn atomize from src/compiler/sexp.rs in impl SExp
//@ sig r
    ensures match *self {
        SExp::Integer(l, i) => r == SExp::Atom(l, r->Atom_1) && r->Atom_1@ == u8n(bi(i)) && r is Atom,
        SExp::QuotedString(l, _, a) => r is Atom && r->Atom_0 == l && r->Atom_1@ == a@,
        _ => r == *self,
    }
//@ end
}

// SPEC: the expression reaching consensus path p from x: bits are consumed from the least
// significant end, 1 = rest, 0 = first, the top 1 bit stops
pub open spec fn chain(p: int, x: BodyForm) -> BodyForm
    decreases p when p >= 1
{
    if p <= 1 { x } else { chain(p / 2, if p % 2 == 1 { bf_rest(x) } else { bf_first(x) }) }
}
// SPEC: the bindings a destructuring pattern produces, left to right, each name with the path
// (path + mask * relative path) of its position
pub open spec fn pat_bindings(s: SExp, path: int, mask: int, x: BodyForm) -> Seq<(Seq<u8>, BodyForm)>
    decreases s
{
    match s {
        SExp::Cons(_, a, b) => pat_bindings(*a, path, 2 * mask, x) + pat_bindings(*b, path + mask, 2 * mask, x),
        SExp::Atom(_, n) => seq![(n@, chain(path + mask, x))],
        SExp::Integer(_, i) => seq![(u8n(bi(i)), chain(path + mask, x))],
        SExp::QuotedString(_, _, n) => seq![(n@, chain(path + mask, x))],
        SExp::Nil(_) => Seq::<(Seq<u8>, BodyForm)>::empty(),
    }
}
pub open spec fn view_bindings(v: Seq<(Vec<u8>, Rc<BodyForm>)>) -> Seq<(Seq<u8>, BodyForm)> {
    v.map(|i: int, e: (Vec<u8>, Rc<BodyForm>)| (e.0@, *e.1))
}

//@ note compute_paths_of_destructure: every name in a binding pattern is bound to the f/r chain that follows the consensus path of its position (least significant bit first), so the evaluator destructures exactly like compiled code
//@ extract fn compute_paths_of_destructure from src/compiler/evaluate.rs
//@ canary test_path_not_low_bit @<if produce_path.clone() & bi_one() != bi_zero() {>@ => @<if path.clone() & produce_path.clone() != bi_zero() {>@
//@ sig
    requires
        exists|k: nat| bi(mask) == pow2(k) as int,
        0 <= bi(path) < bi(mask),
    ensures
        view_bindings(final(bindings)@) == view_bindings(old(bindings)@) + pat_bindings(*structure, bi(path), bi(mask), *bodyform),
    decreases *structure
//@ before stmt @<match structure.atomize()>@
    let ghost k0: nat = choose|k: nat| bi(mask) == pow2(k) as int;
    let ghost b0 = view_bindings(bindings@);
    proof { lemma_pow2_pos(k0); lemma2_to64(); }
//@ before stmt @<let next_mask>@
            proof { lemma_pow2_unfold(k0 + 1); }
//@ after stmt @<let next_right_path>@
            proof {
                assert(bi(next_mask) == pow2(k0 + 1) as int);
                assert(bi(next_right_path) == bi(mask) + bi(path));
            }
//@ after stmt #1 @<compute_paths_of_destructure(bindings,>@
            proof {
                assert(view_bindings(bindings@) =~= b0 + pat_bindings(*structure, bi(path), bi(mask), *bodyform));
            }
//@ after stmt @<let mut output_form>@
            let ghost p0: int = bi(path) + bi(mask);
            proof {
                vstd::arithmetic::div_mod::lemma_mod_self_0(pow2(k0) as int);
                num_bigint::or_disjoint(bi(mask), bi(path), k0);
                num_bigint::or_comm(bi(path), bi(mask));
                assert(bi(produce_path) == p0);
            }
//@ loop 0
                invariant
                    bi(produce_path) >= 1,
                    chain(bi(produce_path), *output_form) == chain(p0, *bodyform),
                decreases bi(produce_path)
//@ before stmt @<if produce_path.clone() & bi_one()>@
                proof {
                    lemma2_to64();
                    num_bigint::and_low_mask(bi(produce_path), 1);
                    reveal_strlit("f");
                    reveal_strlit("r");
                    assert("f"@ != "r"@) by { assert("f"@[0] != "r"@[0]); }
                }
                let ghost pp = bi(produce_path);
                proof {
                    assert(chain(pp, *output_form) == chain(pp / 2, if pp % 2 == 1 { bf_rest(*output_form) } else { bf_first(*output_form) }));
                }
//@ after stmt @<produce_path /= 2_u32.to_bigint().unwrap()>@
                proof {
                    assert(bi(produce_path) == pp / 2);
                }
//@ after stmt @<bindings.push((name, output_form))>@
            proof {
                assert(chain(1, *output_form) == *output_form);
                assert(view_bindings(bindings@) =~= b0 + pat_bindings(*structure, bi(path), bi(mask), *bodyform));
            }
//@ end
}
fn main() {}
