"""C01: the path arithmetic the inliner uses when parameters of an inline function are
drawn from the call's &rest tail.

The two `let` statements that compute the paths are cut mechanically out of the real text of
  inline.rs::choose_arg_from_list_or_tail   (let target_path = ...)   path of element number target_shift of the tail
  inline.rs::arg_lookup                     (let tail_path = ...)     path of the tail after `underflow` elements were consumed
and wrapped, unchanged, in exec functions over the num_bigint stand-in; the postconditions state the consensus paths
(rest^s then first = 3*2^s - 1; rest^k = 2^(k+1) - 1), and two lemmas tie those numbers to tree_path.
What is dropped: everything else of the two functions (BodyForm plumbing).  The definitions `let two = 2_i32.to_bigint().unwrap();`
and the guards `index >= args.len()` / `arg_choice > args.len()` in front of the subtractions are checked to be present textually.
"""
import hashlib
import re

from vlib.rustlex import LostAnchor, find_item
from vlib import unitgen


def _stmt(text, start):
    i = text.find(start)
    if i < 0 or text.count(start) != 1:
        raise LostAnchor('statement %r not found exactly once' % start)
    j = text.find(';', i)
    return text[i:j + 1]


def render(mode=None, canary=None):
    items = []
    notes = ['inlinepaths: the path computations of choose_arg_from_list_or_tail and arg_lookup against the consensus paths of "element s of the tail" and "the tail after k elements"']
    src = unitgen.load_source('src/compiler/inline.rs')
    out = {}
    for fn, var, guard, sub in (('choose_arg_from_list_or_tail', 'target_path', 'if index >= args.len()', 'let target_shift = index - args.len();'),
                                ('arg_lookup', 'tail_path', 'if arg_choice > args.len()', 'let underflow = arg_choice - args.len();')):
        a, b, _ = find_item(src, 'fn', fn)
        t = src.text[a:b]
        st = _stmt(t, 'let %s =' % var)
        st = re.sub(r'//[^\n]*', '', st)
        if 'let two = 2_i32.to_bigint().unwrap();' not in t:
            raise LostAnchor('%s: definition of `two` changed' % fn)
        if guard not in t or sub not in t or t.find(guard) > t.find(sub):
            raise LostAnchor('%s: guard %r in front of %r not found' % (fn, guard, sub))
        if not re.fullmatch(r'[\sa-z_0-9().|&<>+\-*=;]+', st):
            raise LostAnchor('%s: statement outside the supported form: %r' % (fn, st))
        items.append({'item': 'fn %s (statement let %s)' % (fn, var), 'file': 'src/compiler/inline.rs', 'line': src.text.count('\n', 0, a) + 1,
                      'sha256': hashlib.sha256(t.encode()).hexdigest(), 'rewrites': [], 'spliced': ['statement wrapped in an exec fn with the consensus path as postcondition']})
        out[var] = st
    if canary == 'tail_path_shift':
        out['tail_path'] = out['tail_path'].replace('(two.clone() << underflow) - bi_one()', '(bi_one() << underflow) | bi_one()')
    if canary == 'target_path_no_first':
        out['target_path'] = out['target_path'].replace('>> 1', '>> 0')
    hdr = unitgen.load_text('units/inlinepaths.hdr.rs') if hasattr(unitgen, 'load_text') else open(unitgen.VERIF + '/units/inlinepaths.hdr.rs').read()
    gen = unitgen.generate_from_text('inlinepaths', hdr.replace('/*TARGET_PATH_STMT*/', out['target_path']).replace('/*TAIL_PATH_STMT*/', out['tail_path']), mode=mode)
    gen['items'] = gen['items'] + items
    gen['notes'] = notes + gen['notes']
    gen['canaries'] = gen['canaries'] + [('tail_path_shift', 'arg_lookup'), ('target_path_no_first', 'choose_arg_from_list_or_tail')]
    return gen
