#![feature(allocator_api)]
#![allow(unused_imports, dead_code, unused_variables, unused_mut, unused_parens)]
use vstd::prelude::*;
use vstd::arithmetic::power2::*;
use std::rc::Rc;
use std::borrow::Borrow;

verus! {
//@ include prelude/bigint.rs
//@ include spec/bytes.rs
//@ include prelude/misc.rs
//@ include prelude/clvmr.rs
//@ include prelude/bigint_bytes.rs
//@ include prelude/rc.rs
//@ include prelude/std.rs
//@ include units/inc/sexp_types.rs
//@ include prelude/allocator_tree.rs
//@ include prelude/sha.rs
//@ include units/inc/bytes.rs
broadcast use {num_bigint::of_int_bi, num_bigint::bi_of_int};

//@ extract fn bi_zero from src/classic/clvm/__type_compatibility__.rs
//@ sig r
    ensures bi(r) == 0
//@ end

//@ extract fn sha256tree_from_atom from src/compiler/clvm.rs
//@ sig r
    ensures r@ == sha(seq![1u8] + v@)
//@ before tail
    proof { assert([1u8]@ =~= seq![1u8]); assert(Seq::<u8>::empty() + [1u8]@ + v@ =~= seq![1u8] + v@); }
//@ end

//@ note modern sha256tree: equals the CLVM tree hash of the value's CLVM encoding (tree_of), in both integer modes
//@ extract fn sha256tree from src/compiler/clvm.rs
//@ canary swap_children @<hasher.update(&t1);>@ => @<hasher.update(&t2);>@
//@ replace R13 @<NewStyleIntConversion::setting()>@ => @<verif_int_mode()>@
//@ sigfile r contracts/sha256tree_modern.sig
//@ before stmt @<hasher.finalize().to_vec()>@
            proof {
                assert([2u8]@ =~= seq![2u8]);
                assert(Seq::<u8>::empty() + [2u8]@ + t1@ + t2@ =~= seq![2u8] + t1@ + t2@);
            }
//@ end

pub mod classic_hash {
use super::*;
pub broadcast proof fn lemma_single_prefix(x: Seq<u8>, rest: Seq<u8>)
    requires x.len() == 1
    ensures #[trigger] (x + rest) == seq![x[0]] + rest
{ assert(x =~= seq![x[0]]); }

// wraps sha2::Sha256::digest (assumed)
//@ extract fn sha256 from src/classic/clvm/__type_compatibility__.rs
//@ stub
//@ sig r
    ensures bv(r) == sha(bv(value))
//@ end

//@ note classic sha256tree: equals the CLVM tree hash of the node
//@ extract fn sha256tree from src/classic/clvm_tools/sha256tree.rs
//@ canary wrong_tag @<BytesFromType::Raw(vec![2])>@ => @<BytesFromType::Raw(vec![1])>@
//@ replace all R14 @<SExp::>@ => @<allocator::SExp::>@
//@ sig r
    requires node_tree(*old(allocator), v) is Some
    ensures *final(allocator) == *old(allocator),
        bv(r) == tree_hash(node_tree(*old(allocator), v)->Some_0)
    decreases node_tree(*old(allocator), v)->Some_0
//@ before stmt @<match allocator.sexp(v)>@
    proof { broadcast use axiom_sha_len; }
//@ before stmt @<let left>@
            proof {
                let t = node_tree(*allocator, v)->Some_0;
                assert(t is Pair);
                assert(*t->Pair_0 == node_tree(*allocator, l)->Some_0);
                assert(*t->Pair_1 == node_tree(*allocator, r)->Some_0);
                assert(decreases_to!(t => *t->Pair_0));
                assert(decreases_to!(t => *t->Pair_1));
            }
//@ before stmt #0 @<sha256(>@
            proof {
                broadcast use lemma_single_prefix;
                let t = node_tree(*allocator, v)->Some_0;
                assert(tree_hash(t) == sha(seq![2u8] + tree_hash(*t->Pair_0) + tree_hash(*t->Pair_1)));
            }
//@ before stmt #1 @<sha256(>@
            proof {
                broadcast use lemma_single_prefix;
            }
//@ end
}

// C07: the two hashes agree on a value and its conversion (lemma over the contracts)
pub proof fn lemma_hashes_agree(a: Allocator, n: NodePtr, s: SExp)
    requires node_tree(a, n) == Some(tree_of(int_mode(), s))
    ensures tree_hash(tree_of(int_mode(), s)) == tree_hash(node_tree(a, n)->Some_0)
{}
}
fn main() {}
