#![feature(allocator_api)]
#![allow(unused_imports, dead_code, unused_variables, unused_mut, unused_parens)]
use vstd::prelude::*;
use vstd::arithmetic::power2::*;
use std::rc::Rc;
use std::borrow::Borrow;

verus! {
//@ include prelude/bigint.rs
//@ include spec/bytes.rs
//@ include prelude/misc.rs
//@ include prelude/bigint_bytes.rs
//@ include prelude/rc.rs
//@ include prelude/std.rs
//@ include units/inc/sexp_types.rs
//@ include spec/eval.rs
broadcast use {num_bigint::of_int_bi, num_bigint::bi_of_int};
pub open spec fn tv(s: SExp) -> Tree { tree_of(true, s) }
pub open spec fn tvr(s: &SExp) -> Tree { tv(*s) }
//@ include units/inc/codewf.rs
pub open spec fn op(k: u8) -> Tree { Tree::Atom(seq![k]) }
pub open spec fn pair(a: Tree, b: Tree) -> Tree { Tree::Pair(Box::new(a), Box::new(b)) }

// R50: a NodeSel / AtomValue pattern expression `PATTERN.select_nodes(x)` is replaced by a helper whose contract states the shape
// the pattern matches when it succeeds (transcribed from the pattern by hand; ASSUMED).  AtomValue::Here(&[k]) matches an atom with
// the bytes [k]; NodeSel::Cons(p, q) a pair whose parts match p and q; ThisNode anything.
pub open spec fn tf(t: Tree) -> Tree { match t { Tree::Pair(a, _) => *a, _ => t } }
pub open spec fn tr(t: Tree) -> Tree { match t { Tree::Pair(_, b) => *b, _ => t } }
// (1 . x)
#[verifier::external_body]
pub fn verif_sel_quoted(s: Rc<SExp>) -> (r: Option<Rc<SExp>>)
    ensures r matches Some(x) ==> tv(*s) == pair(op(1), tv(*x)), r is None ==> !(tv(*s) is Pair && tf(tv(*s)) == op(1))
{ unimplemented!() }
// (2 (1 . inner) 1 . any)
#[verifier::external_body]
pub fn verif_sel_apply_quoted_env(s: Rc<SExp>) -> (r: Option<Rc<SExp>>)
    ensures r matches Some(inner) ==> ({ let t = tv(*s); t is Pair && tf(t) == op(2) && tr(t) is Pair && tf(tr(t)) == pair(op(1), tv(*inner)) && tr(tr(t)) is Pair && tf(tr(tr(t))) == op(1) })
{ unimplemented!() }
// (2 (1 1 . body) . any)
#[verifier::external_body]
pub fn verif_sel_apply_double_quote(s: Rc<SExp>) -> (r: Option<Rc<SExp>>)
    ensures r matches Some(body) ==> ({ let t = tv(*s); t is Pair && tf(t) == op(2) && tr(t) is Pair && tf(tr(t)) == pair(op(1), pair(op(1), tv(*body))) })
{ unimplemented!() }
// (3 cond a b . any)
#[verifier::external_body]
pub fn verif_sel_if(s: Rc<SExp>) -> (r: Option<(Rc<SExp>, Rc<SExp>, Rc<SExp>)>)
    ensures r matches Some((c, a, b)) ==> ({ let t = tv(*s); t is Pair && tf(t) == op(3) && tr(t) is Pair && tf(tr(t)) == tv(*c) && tr(tr(t)) is Pair && tf(tr(tr(t))) == tv(*a) && tr(tr(tr(t))) is Pair && tf(tr(tr(tr(t)))) == tv(*b) })
{ unimplemented!() }

// proved in unit `clvmleaves` (current integer mode)
//@ extract fn truthy from src/compiler/clvm.rs
//@ stub
//@ sig r
    ensures r == (tv(*sexp) != tnil())
//@ end
//@ extract fn bi_one from src/classic/clvm/__type_compatibility__.rs
//@ stub
//@ replace R41 @<-> Number>@ => @<-> num_bigint::BigInt>@
//@ sig r
    ensures bi(r) == 1
//@ end
//@ extract fn primquote from src/compiler/prims.rs
//@ sig r
    ensures tv(r) == pair(op(1), tv(*a))
//@ before tail
    proof { lemma_one(); reveal_with_fuel(tree_of, 3); }
//@ end
pub proof fn lemma_one()
    ensures u8n(1) == seq![1u8]
{
    lemma_be_single(1u8);
    assert(be_signed(seq![1u8]) == 1);
    axiom_signed_unique(seq![1u8]);
}
pub proof fn lemma_ops_distinct()
    ensures op(1) != op(2), op(1) != op(3), op(2) != op(3)
{
    assert(seq![1u8][0] != seq![2u8][0]); assert(seq![1u8][0] != seq![3u8][0]); assert(seq![2u8][0] != seq![3u8][0]);
}

pub proof fn lemma_tsize_parts(t: Tree)
    requires t is Pair
    ensures tsize(tf(t)) < tsize(t), tsize(tr(t)) < tsize(t)
{ reveal_with_fuel(tsize, 2); }
pub proof fn lemma_env_path(env: Tree)
    ensures eval(op(1), env) == Some(env), eval(tnil(), env) == Some(tnil())
{
    broadcast use axiom_path_lookup;
    lemma_be_single(1u8);
    reveal_with_fuel(tree_path, 2);
    assert(be_unsigned(Seq::<u8>::empty()) == 0);
}
// (a (q . P) 1 . any) computes what P computes, whenever it returns
pub proof fn lemma_single_apply(t: Tree, p: Tree)
    requires t is Pair, tf(t) == op(2), tr(t) is Pair, tf(tr(t)) == pair(op(1), p), tr(tr(t)) is Pair, tf(tr(tr(t))) == op(1)
    ensures refines(p, t), tsize(p) < tsize(t)
{
    broadcast use {axiom_apply, axiom_apply_arity};
    lemma_ops_distinct();
    lemma_tsize_parts(t); lemma_tsize_parts(tr(t)); lemma_tsize_parts(tf(tr(t)));
    assert forall|env: Tree| (#[trigger] eval(t, env)) is Some implies eval(p, env) == eval(t, env) by {
        lemma_env_path(env);
        let any = tr(tr(tr(t)));
        let l = eval_list(any, env);
        let operands = eval_list(tr(t), env);
        assert(eval(t, env) == op_apply(op(2), operands));
        assert(eval_list(tr(tr(t)), env) == seq![eval(op(1), env)] + l);
        assert(operands == seq![eval(tf(tr(t)), env)] + (seq![eval(op(1), env)] + l));
        assert(eval(tf(tr(t)), env) == Some(p));
        if l.len() == 0 {
            assert(operands =~= ops2(Some(p), Some(env)));
        } else {
            assert(operands.len() != 2);
        }
    }
}
// (a (q 1 . body) x . any) is (q . body), whenever it returns
pub proof fn lemma_apply_double_quote(t: Tree, body: Tree)
    requires t is Pair, tf(t) == op(2), tr(t) is Pair, tf(tr(t)) == pair(op(1), pair(op(1), body))
    ensures refines(pair(op(1), body), t), tsize(pair(op(1), body)) < tsize(t)
{
    broadcast use {axiom_apply, axiom_apply_arity, axiom_operands_strict};
    lemma_ops_distinct();
    lemma_tsize_parts(t); lemma_tsize_parts(tr(t)); lemma_tsize_parts(tf(tr(t)));
    reveal_with_fuel(tsize, 3);
    assert forall|env: Tree| (#[trigger] eval(t, env)) is Some implies eval(pair(op(1), body), env) == eval(t, env) by {
        let l = eval_list(tr(tr(t)), env);
        let operands = eval_list(tr(t), env);
        let prog = pair(op(1), body);
        assert(eval(t, env) == op_apply(op(2), operands));
        assert(operands == seq![eval(tf(tr(t)), env)] + l);
        assert(eval(tf(tr(t)), env) == Some(prog));
        if l.len() == 1 {
            if l[0] is None { assert(operands[1] is None); axiom_operands_strict(op(2), operands, 1); }
            let e = l[0]->Some_0;
            assert(operands =~= ops2(Some(prog), Some(e)));
            assert(eval(prog, e) == Some(body));
        } else {
            assert(operands.len() != 2);
        }
    }
}
// (i c A B . any) with a condition whose value vc is known: A if vc is not nil, else B -- whenever it returns
pub proof fn lemma_const_condition(t: Tree, c: Tree, a: Tree, b: Tree, vc: Tree)
    requires t is Pair, tf(t) == op(3), tr(t) is Pair, tf(tr(t)) == c, tr(tr(t)) is Pair, tf(tr(tr(t))) == a, tr(tr(tr(t))) is Pair, tf(tr(tr(tr(t)))) == b,
        forall|env: Tree| #[trigger] eval(c, env) == Some(vc)
    ensures vc != tnil() ==> refines(a, t), vc == tnil() ==> refines(b, t), tsize(a) < tsize(t), tsize(b) < tsize(t)
{
    broadcast use {axiom_if, axiom_if_arity};
    lemma_ops_distinct();
    lemma_tsize_parts(t); lemma_tsize_parts(tr(t)); lemma_tsize_parts(tr(tr(t))); lemma_tsize_parts(tr(tr(tr(t))));
    let pick = if vc != tnil() { a } else { b };
    assert forall|env: Tree| (#[trigger] eval(t, env)) is Some implies eval(pick, env) == eval(t, env) by {
        let l = eval_list(tr(tr(tr(tr(t)))), env);
        let operands = eval_list(tr(t), env);
        assert(eval(t, env) == op_apply(op(3), operands));
        assert(eval_list(tr(tr(tr(t))), env) == seq![eval(b, env)] + l);
        assert(eval_list(tr(tr(t)), env) == seq![eval(a, env)] + (seq![eval(b, env)] + l));
        assert(operands == seq![eval(c, env)] + (seq![eval(a, env)] + (seq![eval(b, env)] + l)));
        if l.len() == 0 {
            if eval(a, env) is None { assert(operands[1] is None); axiom_operands_strict(op(3), operands, 1); }
            if eval(b, env) is None { assert(operands[2] is None); axiom_operands_strict(op(3), operands, 2); }
            let va = eval(a, env)->Some_0; let vb = eval(b, env)->Some_0;
            assert(eval(c, env) == Some(vc));
            assert(operands =~= ops3(Some(vc), Some(va), Some(vb)));
            assert(op_apply(op(3), ops3(Some(vc), Some(va), Some(vb))) == Some(if vc != tnil() { va } else { vb }));
        } else {
            assert(operands.len() != 3);
        }
    }
}

//@ note change_double_to_single_apply: (a (q . P) 1) becomes P, which computes the same value whenever the original returns one
//@ extract fn change_double_to_single_apply from src/compiler/optimize/double_apply.rs
//@ replace-span R50 @<if let Ok(NodeSel::Cons(>@ @<.select_nodes(sexp.clone())>@ => @<if let Some(inner_program) = verif_sel_apply_quoted_env(sexp.clone())>@
//@ sig r
    ensures refines(tv(*r.1), tv(*sexp)), r.0 ==> tsize(tv(*r.1)) < tsize(tv(*sexp)), !r.0 ==> r.1 == sexp
//@ before stmt @<return (true, inner_program);>@
        proof { lemma_single_apply(tvr(&*sexp), tvr(&*inner_program)); }
//@ end
//@ note change_apply_double_quote: (a (q 1 . body) x) becomes (q . body)
//@ extract fn change_apply_double_quote from src/compiler/optimize/double_apply.rs
//@ canary keep_both_quotes @<return (true, Rc::new(primquote(body.loc(), body.clone())));>@ => @<return (true, Rc::new(primquote(body.loc(), Rc::new(primquote(body.loc(), body.clone())))));>@
//@ replace-span R50 @<if let Ok(NodeSel::Cons(>@ @<.select_nodes(sexp.clone())>@ => @<if let Some(body) = verif_sel_apply_double_quote(sexp.clone())>@
//@ sig r
    ensures refines(tv(*r.1), tv(*sexp)), r.0 ==> tsize(tv(*r.1)) < tsize(tv(*sexp)), !r.0 ==> r.1 == sexp
//@ before stmt @<return (true, Rc::new(primquote(body.loc(), body.clone())));>@
        proof { lemma_apply_double_quote(tvr(&*sexp), tvr(&*body)); }
//@ end
//@ note collapse_constant_condition: (i C A B) with a quoted or nil condition becomes the branch the consensus nil test selects
//@ extract fn collapse_constant_condition from src/compiler/optimize/double_apply.rs
//@ canary branches_swapped @<if use_cond { (true, a) } else { (true, b) }>@ => @<if use_cond { (true, b) } else { (true, a) }>@
//@ replace-span R50 @<if let Ok(NodeSel::Cons(>@ @<.select_nodes(sexp.clone())>@ => @<if let Some((cond, a, b)) = verif_sel_if(sexp.clone())>@
//@ replace-span R4 @<return NodeSel::Cons(AtomValue::Here(&[1]), ThisNode)>@ @<.unwrap_or_else(|| (false, sexp));>@ => @<let ghost verif_c = cond; let ghost verif_a = a; let ghost verif_b = b; let verif_use = match verif_sel_quoted(cond.clone()) { Some(cond_quoted) => { proof { lemma_quoted_value(tvr(&*verif_c), tvr(&*cond_quoted)); lemma_const_condition(tvr(&*sexp), tvr(&*verif_c), tvr(&*verif_a), tvr(&*verif_b), tvr(&*cond_quoted)); } Some(truthy(cond_quoted)) } None => if !truthy(cond) { proof { lemma_nil_value(); lemma_const_condition(tvr(&*sexp), tnil(), tvr(&*verif_a), tvr(&*verif_b), tnil()); } Some(false) } else { None } }; return match verif_use { Some(use_cond) => if use_cond { (true, a) } else { (true, b) }, None => (false, sexp) };>@
//@ sig r
    ensures refines(tv(*r.1), tv(*sexp)), r.0 ==> tsize(tv(*r.1)) < tsize(tv(*sexp)), !r.0 ==> r.1 == sexp
//@ end
pub proof fn lemma_quoted_value(c: Tree, cq: Tree)
    requires c == pair(op(1), cq)
    ensures forall|env: Tree| #[trigger] eval(c, env) == Some(cq)
{}
pub proof fn lemma_nil_value()
    ensures forall|env: Tree| #[trigger] eval(tnil(), env) == Some(tnil())
{
    assert forall|env: Tree| #[trigger] eval(tnil(), env) == Some(tnil()) by { lemma_env_path(env); }
}
}
fn main() {}
