#![feature(allocator_api)]
#![allow(unused_imports, dead_code, unused_variables, unused_mut, unused_parens)]
use vstd::prelude::*;
use std::rc::Rc;

verus! {
//@ note assumption: 64-bit target (global size_of usize == 8) for the i64 <-> usize casts in Stream::set_seek
global size_of usize == 8;
//@ include prelude/misc.rs
//@ include prelude/std.rs
//@ include units/inc/bytes.rs

//@ extract struct Stream from src/classic/clvm/__type_compatibility__.rs
//@ end
pub closed spec fn st_wf(s: Stream) -> bool { s.length <= s.buffer@.len() }
pub closed spec fn st_len(s: Stream) -> int { s.length as int }
pub closed spec fn st_seek(s: Stream) -> int { s.seek as int }
pub closed spec fn st_same(a: Stream, b: Stream) -> bool { a.length == b.length && a.buffer@ == b.buffer@ }

impl Stream {
//@ extract fn get_seek from src/classic/clvm/__type_compatibility__.rs in impl Stream
//@ sig r
    ensures r == st_seek(*self)
//@ end
//@ note Stream::set_seek computes self.length - 1: the precondition length >= 1 is the honest statement of when it does not underflow (its only caller, IRReader::backup, is reached only after a byte was read)
//@ extract fn set_seek from src/classic/clvm/__type_compatibility__.rs in impl Stream
//@ sig
    requires st_len(*old(self)) >= 1
    ensures st_same(*old(self), *final(self)),
        value < 0 ==> st_seek(*final(self)) == st_len(*old(self)) - 1,
        0 <= value <= st_len(*old(self)) - 1 ==> st_seek(*final(self)) == value,
        value > st_len(*old(self)) - 1 ==> st_seek(*final(self)) == st_len(*old(self)),
//@ end
}

//@ extract struct IRReader from src/classic/clvm_tools/ir/reader.rs
//@ end
pub closed spec fn rd_stream(r: IRReader) -> Stream { r.stream }
impl IRReader {
//@ note IRReader::backup moves the cursor back by n (to 0 if n exceeds it) and changes nothing else
//@ extract fn backup from src/classic/clvm_tools/ir/reader.rs in impl IRReader
//@ canary forward @<(cur_seek - n) as i64>@ => @<(cur_seek + n) as i64>@
//@ sig
    requires st_len(rd_stream(*old(self))) >= 1, st_seek(rd_stream(*old(self))) <= st_len(rd_stream(*old(self))), st_seek(rd_stream(*old(self))) <= i64::MAX
    ensures st_same(rd_stream(*old(self)), rd_stream(*final(self))),
        st_seek(rd_stream(*final(self))) == (if n > st_seek(rd_stream(*old(self))) { 0 } else { st_seek(rd_stream(*old(self))) - n }),
//@ end
}

//@ extract fn is_eol from src/classic/clvm_tools/ir/reader.rs
//@ sig r
    ensures r == (chval == 13 || chval == 10)
//@ end
//@ extract fn is_space from src/classic/clvm_tools/ir/reader.rs
//@ sig r
    ensures r == (chval == 32 || chval == 9 || chval == 13 || chval == 10)
//@ end

pub mod classic_reader {
use super::*;
//@ extract fn is_hex from src/classic/clvm_tools/ir/reader.rs
//@ sig r
    ensures r == (chars@.len() > 2 && chars@[0] == 48 && (chars@[1] == 120 || chars@[1] == 88))
//@ end
}

pub mod modern_reader {
use super::*;
//@ extract fn is_hex from src/compiler/sexp.rs
//@ sig r
    ensures r == (s@.len() >= 2 && s@[0] == 48 && s@[1] == 120)
//@ end
}
}
fn main() {}
