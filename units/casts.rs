#![feature(allocator_api)]
#![allow(unused_imports, dead_code, unused_variables, unused_mut, unused_parens)]
use vstd::prelude::*;
use vstd::arithmetic::power2::*;

verus! {
//@ include prelude/bigint.rs
//@ include spec/bytes.rs
//@ include prelude/misc.rs
//@ include prelude/clvmr.rs
//@ include prelude/bigint_bytes.rs
//@ include prelude/std.rs

//@ include units/inc/bytes.rs

//@ extract fn bi_zero from src/classic/clvm/__type_compatibility__.rs
//@ sig r
    ensures bi(r) == 0
//@ end
//@ extract fn bi_one from src/classic/clvm/__type_compatibility__.rs
//@ sig r
    ensures bi(r) == 1
//@ end

//@ include units/inc/int_from_bytes.rs
broadcast use {num_bigint::of_int_bi, num_bigint::bi_of_int};

//@ extract fn bigint_from_bytes from src/classic/clvm/casts.rs
//@ canary drop_remain_offset @<i * 4 + bytes4_remain>@ => @<i * 4>@
//@ replace R4 @<option.map(|cvt| cvt.signed).unwrap_or_else(|| false)>@ => @<(match option { Some(cvt) => cvt.signed, None => false })>@
//@ sigfile r contracts/bigint_from_bytes.sig
//@ after stmt @<let mut order>@
    let ghost len = dv@.len() as int;
    proof {
        lemma2_to64();
        assert(dv@.subrange(len, len) =~= Seq::<u8>::empty());
    }
//@ loop 0
            invariant
                dv@ == bv(*b), len == dv@.len(), bytes4_remain < 4,
                bytes4_remain + 4 * bytes4_length == len,
                bi(unsigned) == be_unsigned(dv@.subrange(len - 4 * i_reverse, len)),
                bi(order) == pow2((32 * i_reverse) as nat) as int,
//@ after stmt @<order <<= 32>@
            proof {
                let off = len - 4 * (i_reverse + 1);
                let w = dv@.subrange(off, off + 4);
                let rest = dv@.subrange(off + 4, len);
                assert(dv@.subrange(off, len) =~= w + rest);
                lemma_be_concat(w, rest);
                lemma_pow2_adds((32 * i_reverse) as nat, 32);
                assert((8 * rest.len()) as nat == (32 * i_reverse) as nat);
                assert((32 * i_reverse) as nat + 32 == (32 * (i_reverse + 1)) as nat);
            }
//@ before stmt @<if bytes4_remain > 0>@
    assert(bi(unsigned) == be_unsigned(dv@.subrange(bytes4_remain as int, len)));
    assert(bi(order) == pow2((32 * bytes4_length) as nat) as int) by { lemma2_to64(); }
//@ loop 1
            invariant
                dv@ == bv(*b), len == dv@.len(), bytes4_remain < 4,
                bytes4_remain + 4 * bytes4_length == len,
                bi(unsigned) == be_unsigned(dv@.subrange(bytes4_remain - i_reverse, len)),
                bi(order) == pow2((32 * bytes4_length + 8 * i_reverse) as nat) as int,
//@ after stmt @<order <<= 8>@
            proof {
                let off = bytes4_remain - (i_reverse + 1);
                let w = dv@.subrange(off, off + 1);
                let rest = dv@.subrange(off + 1, len);
                assert(dv@.subrange(off, len) =~= w + rest);
                lemma_be_concat(w, rest);
                assert(w =~= seq![dv@[off]]);
                lemma_be_single(dv@[off]);
                lemma_pow2_adds((32 * bytes4_length + 8 * i_reverse) as nat, 8);
                assert((8 * rest.len()) as nat == (32 * bytes4_length + 8 * i_reverse) as nat);
                assert((32 * bytes4_length + 8 * i_reverse) as nat + 8 == (32 * bytes4_length + 8 * (i_reverse + 1)) as nat);
            }
//@ before stmt @<if signed &&>@
    proof {
        assert(dv@.subrange(0, len) =~= dv@);
        let d0 = dv@[0];
        assert(((d0 & 0x80) != 0) == (d0 >= 0x80)) by(bit_vector);
    }
//@ end

//@ extract fn bigint_to_bytes_unsigned from src/classic/clvm/casts.rs
//@ replace R9 @<assert!(*v > bi_zero());>@ => @<verif_assert(*v > bi_zero());>@
//@ sigfile r contracts/bigint_to_bytes_unsigned.sig
//@ end

//@ extract fn bigint_to_bytes_clvm from src/classic/clvm/casts.rs
//@ sigfile r contracts/bigint_to_bytes_clvm.sig
//@ loop 0
        invariant
            be_signed(slice@) == bi(*v),
            slice@ == bytes@ || slice@.len() == 0,
            bytes@.len() >= 1,
            bi(*v) == 0 ==> bytes@ == seq![0u8],
            bi(*v) != 0 ==> is_min_signed(bytes@),
        ensures is_min_signed(slice@)
        decreases slice@.len()
//@ before stmt @<if slice.len() > 1>@
        proof {
            if slice@.len() > 1 {
                let s1 = slice@[1];
                assert((s1 & 0x80 == 0x80) == (s1 >= 0x80)) by(bit_vector);
            }
        }
//@ after stmt @<slice = &slice[1..]>@
        proof {
            assert(bi(*v) == 0);
            assert(slice@.len() == 0);
        }
//@ end

}
fn main() {}
