"""C20: the operator tables, extracted as data from the real source text on every
run and emitted as Verus spec functions; every clause of the property that is
about the tables becomes a proof obligation over that data.

Extraction (mechanical, stated): KW_PAIRS rows (v bytes, n name, version) from
classic/clvm/mod.rs; the filter predicate of each of the six lazy_static
builders; the match arms of keyword_from_atom / keyword_to_atom; prims() rows
(name, integer literal) from compiler/prims.rs; the *_atom opcode constants of
compiler/clvm.rs::run_step.  Anything that does not parse is a lost anchor.
"""
import hashlib
import re

from vlib.rustlex import Source, LostAnchor, find_item
from vlib import unitgen


def _seq(bs):
    return 'seq![' + ', '.join('%du8' % b for b in bs) + ']' if bs else 'Seq::<u8>::empty()'


def render(mode=None, canary=None):
    items = []
    notes = ['tables: data extracted from KW_PAIRS, the six lazy_static builders, keyword_from_atom/keyword_to_atom, prims() and run_step constants']
    src = unitgen.load_source('src/classic/clvm/mod.rs')
    s, e, _ = find_item(src, 'const', 'KW_PAIRS')
    kw_text = src.text[s:e]
    items.append({'item': 'const KW_PAIRS', 'file': 'src/classic/clvm/mod.rs', 'line': src.text.count('\n', 0, s) + 1,
                  'sha256': hashlib.sha256(kw_text.encode()).hexdigest(), 'rewrites': [], 'spliced': ['data -> spec fns']})
    rows = []
    for m in re.finditer(r'KwAtomPair\s*\{\s*v:\s*&\[([^\]]*)\],\s*n:\s*"((?:[^"\\]|\\.)*)",\s*version:\s*(\d+),?\s*\}', kw_text):
        bs = [int(x.strip(), 0) for x in m.group(1).split(',') if x.strip()]
        rows.append((bs, m.group(2).encode().decode('unicode_escape').encode('latin1'), int(m.group(3))))
    decl = re.search(r'\[KwAtomPair;\s*(\d+)\]', kw_text)
    if not decl or int(decl.group(1)) != len(rows) or not rows:
        raise LostAnchor('KW_PAIRS: parsed %d rows, declared %s' % (len(rows), decl.group(1) if decl else '?'))
    if canary == 'dup_opcode':
        rows[3] = (rows[2][0], rows[3][1], rows[3][2])
    if canary == 'prims_mismatch':
        pass
    # builders
    preds = {}
    for m in re.finditer(r'pub static ref (KEYWORD_(FROM|TO)_ATOM_(\d)):.*?KW_PAIRS\.iter\(\)\.filter\(\|p\|\s*(.*?)\)\s*\{\s*result\.insert\((.*?)\);', src.text, flags=re.S):
        name, direction, ver, pred, ins = m.group(1), m.group(2), int(m.group(3)), m.group(4).strip(), re.sub(r'\s+', '', m.group(5))
        want = 'pair.v.to_vec(),pair.n.to_string()' if direction == 'FROM' else 'pair.n.to_string(),pair.v.to_vec()'
        if ins != want:
            raise LostAnchor('%s: unexpected insert %s' % (name, ins))
        if not re.fullmatch(r'p\.version\s*(==|<=|<|>=|>|!=)\s*\d+', pred):
            raise LostAnchor('%s: filter predicate not of the form p.version OP N: %s' % (name, pred))
        preds[(direction, ver)] = pred
    if sorted(preds) != [('FROM', 0), ('FROM', 1), ('FROM', 2), ('TO', 0), ('TO', 1), ('TO', 2)]:
        raise LostAnchor('keyword table builders: found %s' % sorted(preds))
    if canary == 'non_monotone':
        preds[('TO', 1)] = 'p.version == 1'
    sel = {}
    for fn in ('keyword_from_atom', 'keyword_to_atom'):
        a, b, _ = find_item(src, 'fn', fn)
        t = src.text[a:b]
        arms = re.findall(r'(\d+|_)\s*=>\s*&(KEYWORD_(?:FROM|TO)_ATOM_(\d))', t)
        if len(arms) != 3:
            raise LostAnchor(fn + ': match arms not recognised')
        sel[fn] = arms
        items.append({'item': 'fn ' + fn, 'file': 'src/classic/clvm/mod.rs', 'line': src.text.count('\n', 0, a) + 1,
                      'sha256': hashlib.sha256(t.encode()).hexdigest(), 'rewrites': [], 'spliced': ['match arms -> spec fn']})
    m = re.search(r'pub const OPERATORS_LATEST_VERSION: usize = (\d+);', src.text)
    if not m:
        raise LostAnchor('OPERATORS_LATEST_VERSION')
    latest = int(m.group(1))
    # prims
    psrc = unitgen.load_source('src/compiler/prims.rs')
    a, b, _ = find_item(psrc, 'fn', 'prims')
    ptext = psrc.text[a:b]
    items.append({'item': 'fn prims', 'file': 'src/compiler/prims.rs', 'line': psrc.text.count('\n', 0, a) + 1,
                  'sha256': hashlib.sha256(ptext.encode()).hexdigest(), 'rewrites': [], 'spliced': ['rows -> spec fns']})
    prims = []
    for m in re.finditer(r'\(\s*"((?:[^"\\]|\\.)*)"\.as_bytes\(\)\.to_vec\(\),\s*SExp::Integer\(\s*primloc(?:\.clone\(\))?,\s*(0x[0-9a-fA-F]+|\d+)(?:_[iu]\d+)?\.to_bigint\(\)\.unwrap\(\)\s*\),?\s*\)', ptext):
        prims.append((m.group(1).encode(), int(m.group(2), 0)))
    if len(prims) != ptext.count('SExp::Integer(') or not prims:
        raise LostAnchor('prims(): parsed %d rows of %d' % (len(prims), ptext.count('SExp::Integer(')))
    if canary == 'prims_mismatch':
        prims[10] = (prims[10][0], prims[10][1] + 1)
    # run_step constants
    csrc = unitgen.load_source('src/compiler/clvm.rs')
    a, b, _ = find_item(csrc, 'fn', 'run_step')
    rtext = csrc.text[a:b]
    consts = dict((k, int(v)) for k, v in re.findall(r'let (\w+)_atom = (\d+)_i32\.to_bigint\(\)\.unwrap\(\);', rtext))
    if sorted(consts) != ['apply', 'cons', 'first', 'if', 'rest']:
        raise LostAnchor('run_step opcode constants: %s' % sorted(consts))
    if 'atom_value(head.clone())? == bi_one()' not in rtext:
        raise LostAnchor('run_step quote test')
    consts['quote'] = 1
    stepname = {'apply': b'a', 'if': b'i', 'cons': b'c', 'first': b'f', 'rest': b'r', 'quote': b'q'}
    items.append({'item': 'fn run_step (opcode constants only)', 'file': 'src/compiler/clvm.rs', 'line': csrc.text.count('\n', 0, a) + 1,
                  'sha256': hashlib.sha256(rtext.encode()).hexdigest(), 'rewrites': [], 'spliced': ['let X_atom = N -> spec fn']})

    n = len(rows)
    out = []
    w = out.append
    w('#![allow(unused_imports, dead_code, unused_variables)]')
    w('use vstd::prelude::*;')
    w('use vstd::arithmetic::power2::*;')
    w('verus! {')
    spec_bytes = open(unitgen.VERIF + '/spec/bytes.rs').read()
    w(spec_bytes)
    w('pub open spec fn kw_count() -> int { %d }' % n)

    def table(name, ty, vals, default):
        w('pub open spec fn %s(i: int) -> %s {' % (name, ty))
        for i, v in enumerate(vals):
            w('    %sif i == %d { %s }' % ('' if i == 0 else 'else ', i, v))
        w('    else { %s }' % default)
        w('}')
    table('kw_v', 'Seq<u8>', [_seq(r[0]) for r in rows], 'Seq::<u8>::empty()')
    table('kw_n', 'Seq<u8>', [_seq(list(r[1])) for r in rows], 'Seq::<u8>::empty()')
    table('kw_ver', 'int', [str(r[2]) for r in rows], '0')
    # injective integer keys so that distinctness is linear arithmetic: (len, big-endian value)
    table('kw_vkey', 'int', [str(len(r[0]) * (1 << 64) + int.from_bytes(bytes(r[0]), 'big')) for r in rows], '-1')
    table('kw_nkey', 'int', [str(len(r[1]) * (1 << 120) + int.from_bytes(r[1][:15], 'big')) for r in rows], '-1')
    w('pub open spec fn first15(s: Seq<u8>) -> Seq<u8> { if s.len() <= 15 { s } else { s.subrange(0, 15) } }')
    w('pub open spec fn prim_count() -> int { %d }' % len(prims))
    table('prim_n', 'Seq<u8>', [_seq(list(p[0])) for p in prims], 'Seq::<u8>::empty()')
    table('prim_code', 'int', [str(p[1]) for p in prims], '0')
    for (d, v), pred in sorted(preds.items()):
        w('pub open spec fn sel_%s_%d(ver: int) -> bool { %s }' % (d.lower(), v, pred.replace('p.version', 'ver')))
    for fn, arms in sel.items():
        w('pub open spec fn %s_table(version: int) -> int {' % fn)
        body = []
        for pat, _, tv in arms:
            if pat == '_':
                body.append('{ %s }' % tv)
            else:
                body.append('if version == %s { %s } else' % (pat, tv))
        w('    ' + ' '.join(body))
        w('}')

    # ---- obligations
    w('// key functions are injective encodings (length, big-endian value) of the byte strings: checked row by row by computation')
    w('pub proof fn keys_encode_rows()')
    w('    ensures')
    w('        forall|i: int| 0 <= i < kw_count() ==> #[trigger] kw_vkey(i) == kw_v(i).len() * 0x1_0000_0000_0000_0000 + be_unsigned(kw_v(i)),')
    w('        forall|i: int| 0 <= i < kw_count() ==> #[trigger] kw_nkey(i) == kw_n(i).len() * 0x1000000000000000000000000000000 + be_unsigned(first15(kw_n(i))),')
    w('{')
    w('    assert forall|i: int| 0 <= i < kw_count() implies #[trigger] kw_vkey(i) == kw_v(i).len() * 0x1_0000_0000_0000_0000 + be_unsigned(kw_v(i)) by {')
    for i, r in enumerate(rows):
        w('        if i == %d { assert(be_unsigned(kw_v(%d)) == %d && kw_v(%d).len() == %d) by(compute_only); }' % (i, i, int.from_bytes(bytes(r[0]), 'big'), i, len(r[0])))
    w('    }')
    w('    assert forall|i: int| 0 <= i < kw_count() implies #[trigger] kw_nkey(i) == kw_n(i).len() * 0x1000000000000000000000000000000 + be_unsigned(first15(kw_n(i))) by {')
    for i, r in enumerate(rows):
        w('        if i == %d { assert(be_unsigned(first15(kw_n(%d))) == %d && kw_n(%d).len() == %d) by(compute_only); }' % (i, i, int.from_bytes(r[1][:15], 'big'), i, len(r[1])))
    w('    }')
    w('}')
    w('// C20: opcode -> name is a function, name -> opcode is a function (the FROM/TO maps are mutually inverse)')
    w('pub proof fn opcodes_pairwise_distinct()')
    w('    ensures forall|i: int, j: int| 0 <= i < j < kw_count() ==> kw_v(i) != kw_v(j),')
    w('{')
    w('    keys_encode_rows();')
    w('    assert forall|i: int, j: int| 0 <= i < j < kw_count() implies kw_v(i) != kw_v(j) by { assert(kw_vkey(i) != kw_vkey(j)); }')
    w('}')
    w('pub proof fn names_pairwise_distinct()')
    w('    ensures forall|i: int, j: int| 0 <= i < j < kw_count() ==> kw_n(i) != kw_n(j),')
    w('{')
    w('    keys_encode_rows();')
    w('    assert forall|i: int, j: int| 0 <= i < j < kw_count() implies kw_n(i) != kw_n(j) by { assert(kw_nkey(i) != kw_nkey(j)); }')
    w('}')
    w('// C20: FROM and TO table of each version select the same rows; versions only add names')
    w('pub proof fn builders_select_same_rows_and_are_monotone()')
    w('    ensures')
    w('        forall|ver: int| 0 <= ver ==> sel_from_0(ver) == sel_to_0(ver) && sel_from_1(ver) == sel_to_1(ver) && sel_from_2(ver) == sel_to_2(ver),')
    w('        forall|ver: int| 0 <= ver ==> (sel_from_0(ver) ==> sel_from_1(ver)) && (sel_from_1(ver) ==> sel_from_2(ver)),')
    w('        forall|i: int| 0 <= i < kw_count() ==> sel_from_%d(#[trigger] kw_ver(i)),' % min(latest, 2))
    w('{}')
    w('// C09 / C20: no keyword starts with # (the assembler strips a leading # from a symbol before looking it up, so such a name would not be read back)')
    w('pub proof fn no_keyword_starts_with_hash()')
    w('    ensures forall|i: int| 0 <= i < kw_count() ==> (#[trigger] kw_n(i)).len() > 0 && kw_n(i)[0] != 0x23,')
    w('{')
    w('    assert forall|i: int| 0 <= i < kw_count() implies (#[trigger] kw_n(i)).len() > 0 && kw_n(i)[0] != 0x23 by {')
    for i, r in enumerate(rows):
        w('        if i == %d { assert(kw_n(%d).len() > 0 && kw_n(%d)[0] != 0x23) by(compute_only); }' % (i, i, i))
    w('    }')
    w('}')
    w('// C09: every keyword is read back by the classic reader as that very symbol: it is not empty, holds no byte that ends or splits an atom')
    w('// (blank, parenthesis), does not begin like a dot, a string, a comment or a hex constant, and cannot be taken for a decimal number')
    w('// (it has a byte outside 0-9 + - _ or no digit at all)')
    w('pub open spec fn plain_sym_byte(c: u8) -> bool { c != 0x20 && c != 0x09 && c != 0x0a && c != 0x0d && c != 0x28 && c != 0x29 }')
    w('pub open spec fn numberish(c: u8) -> bool { (0x30 <= c && c <= 0x39) || c == 0x2b || c == 0x2d || c == 0x5f }')
    w('pub open spec fn plain_symbol(s: Seq<u8>) -> bool {')
    w('    s.len() > 0 && s[0] != 0x2e && s[0] != 0x22 && s[0] != 0x27 && s[0] != 0x3b')
    w('    && !(s.len() >= 2 && s[0] == 0x30 && (s[1] == 0x78 || s[1] == 0x58))')
    w('    && (forall|i: int| 0 <= i < s.len() ==> plain_sym_byte(#[trigger] s[i]))')
    w('    && ((exists|i: int| 0 <= i < s.len() && !numberish(#[trigger] s[i])) || (forall|i: int| 0 <= i < s.len() ==> !(0x30 <= #[trigger] s[i] && s[i] <= 0x39)))')
    w('}')
    w('pub proof fn keywords_are_plain_symbols()')
    w('    ensures forall|i: int| 0 <= i < kw_count() ==> plain_symbol(#[trigger] kw_n(i)),')
    w('{')
    w('    assert forall|i: int| 0 <= i < kw_count() implies plain_symbol(#[trigger] kw_n(i)) by {')
    for i, r in enumerate(rows):
        nm = bytes(r[1])
        wit = next((k for k, c in enumerate(nm) if not (0x30 <= c <= 0x39 or c in (0x2b, 0x2d, 0x5f))), None)
        w('        if i == %d {' % i)
        w('            let s = kw_n(%d);' % i)
        w('            assert(kw_n(%d).len() == %d) by(compute_only);' % (i, len(nm)))
        for k, c in enumerate(nm):
            w('            assert(kw_n(%d)[%d] == %d) by(compute_only);' % (i, k, c))
        if wit is not None:
            w('            assert(!numberish(s[%d]));' % wit)
        w('            assert(plain_symbol(s));')
        w('        }')
    w('    }')
    w('}')
    w('// C20: keyword_from_atom(v) and keyword_to_atom(v) pick the table of the same version, min(v, 2)')
    w('pub proof fn selectors_agree()')
    w('    ensures forall|v: int| 0 <= v ==> keyword_from_atom_table(v) == keyword_to_atom_table(v) && keyword_from_atom_table(v) == (if v <= 2 { v } else { 2 }),')
    w('{}')
    # prims <-> KW witnesses
    byname = {r[1]: i for i, r in enumerate(rows)}
    w('// C20: every operator the modern compiler knows (prims()) has the same opcode in the classic tables, canonically encoded')
    w('pub proof fn prims_agree_with_kw()')
    w('{')
    for j, (nm, code) in enumerate(prims):
        i = byname.get(nm)
        if i is None:
            w('    assert(false); // prims() row %d %r has no KW_PAIRS row of that name' % (j, nm.decode('latin1')))
        else:
            w('    assert(kw_n(%d) =~= prim_n(%d) && be_signed(kw_v(%d)) == prim_code(%d) && is_min_signed(kw_v(%d))) by(compute_only); // %s' % (i, j, i, j, i, nm.decode('latin1')))
    w('}')
    pnames = {p[0] for p in prims}
    w('pub proof fn kw_rows_known_to_modern_compiler()')
    w('{')
    for i, r in enumerate(rows):
        if r[1] not in pnames:
            w('    assert(false); // KW_PAIRS row %d %r is unknown to prims()' % (i, r[1].decode('latin1')))
    w('    assert(prim_count() == kw_count());')
    w('}')
    w('// C20: the opcodes the stepping evaluator special-cases are the classic opcodes of q a i c f r')
    w('pub proof fn stepper_constants_agree()')
    w('{')
    for k, code in sorted(consts.items()):
        i = byname.get(stepname[k])
        if i is None:
            w('    assert(false); // no KW row named %r' % stepname[k].decode())
        else:
            w('    assert(be_signed(kw_v(%d)) == %d) by(compute_only); // %s_atom' % (i, code, k))
    w('}')
    w('}')
    w('fn main() {}')
    text = '\n'.join(out) + '\n'
    return {'text': text, 'regions': [], 'items': items, 'notes': notes,
            'canaries': [('dup_opcode', 'KW_PAIRS'), ('non_monotone', 'builders'), ('prims_mismatch', 'prims')], 'twins': []}
