#![feature(allocator_api)]
#![allow(unused_imports, dead_code, unused_variables, unused_mut, unused_parens)]
use vstd::prelude::*;
use vstd::arithmetic::power2::*;

verus! {
//@ include spec/bytes.rs
//@ include spec/ser.rs
//@ include prelude/misc.rs
//@ include prelude/clvmr.rs
//@ include prelude/std.rs
//@ include units/inc/bytes.rs
//@ include spec/sertree.rs
//@ include prelude/allocator_tree.rs
use allocator::SExp;

//@ extract const MAX_SINGLE_BYTE from src/classic/clvm/serialize.rs
//@ end
//@ extract const CONS_BOX_MARKER from src/classic/clvm/serialize.rs
//@ end
// proved in unit `ser` (same contract text)
//@ extract fn atom_size_blob from src/classic/clvm/serialize.rs
//@ stub
//@ sigfile r contracts/atom_size_blob.sig
//@ end
//@ extract enum SExpToByteOp from src/classic/clvm/serialize.rs
//@ replace R28 @<enum SExpToByteOp {>@ => @<pub enum SExpToByteOp {>@
//@ end
//@ extract struct SExpToBytesIterator from src/classic/clvm/serialize.rs
//@ replace R28 @<struct SExpToBytesIterator<'a> {>@ => @<pub struct SExpToBytesIterator<'a> {>@
//@ end

//@ include spec/serout.rs

pub broadcast proof fn lemma_single_prefix(x: Seq<u8>, rest: Seq<u8>)
    requires x.len() == 1
    ensures #[trigger] (x + rest) == seq![x[0]] + rest
{ assert(x =~= seq![x[0]]); }

impl<'a> SExpToBytesIterator<'a> {
//@ note SExpToBytesIterator::next (the serialiser): each emitted chunk is the next piece of the consensus serialisation of what is still on the work stack; the allocator is untouched
//@ extract fn next from src/classic/clvm/serialize.rs in impl Iterator for SExpToBytesIterator<'_>
//@ canary children_swapped @<self.state.push(SExpToByteOp::Object(r));>@ => @<self.state.push(SExpToByteOp::Object(f));>@
//@ replace R10 @<Option<Self::Item>>@ => @<Option<Vec<u8>>>@
//@ replace R4 @<self.state.pop().and_then(|step| match step {>@ => @<match self.state.pop() { None => None, Some(step) => match step {>@
//@ replace-block R4
            SExpToByteOp::Blob(b) => Some(b),
        })
//@ with
            SExpToByteOp::Blob(b) => Some(b),
        } }
//@ sigfile r contracts/ser_next.sig
//@ before stmt @<match self.state.pop()>@
        let ghost s0 = self.state@;
        let ghost al = *self.allocator;
        proof { if s0.len() > 0 { assert(pending(al, s0) == op_bytes(al, s0.last()) + pending(al, s0.drop_last())); assert(stack_weight(al, s0) == op_weight(al, s0.last()) + stack_weight(al, s0.drop_last())); } }
//@ before stmt #0 @<Some(b)>@
                            proof {
                                let dl = s0.drop_last();
                                if original {
                                    assert(self.state@ =~= dl.push(SExpToByteOp::Blob(buf)));
                                    assert(self.state@.drop_last() =~= dl);
                                    assert(pending(al, self.state@) == buf@ + pending(al, dl));
                                    assert(stack_weight(al, self.state@) == 1 + stack_weight(al, dl));
                                    assert(b@ + (buf@ + pending(al, dl)) =~= (b@ + buf@) + pending(al, dl));
                                } else {
                                    assert(self.state@ =~= dl);
                                    if buf@.len() == 0 { assert(buf@ =~= Seq::<u8>::empty()); }
                                }
                            }
//@ before stmt @<Some(vec![CONS_BOX_MARKER as u8])>@
                    proof {
                        broadcast use lemma_single_prefix;
                        let dl = s0.drop_last();
                        let s1 = dl.push(SExpToByteOp::Object(r));
                        assert(self.state@ =~= s1.push(SExpToByteOp::Object(f)));
                        assert(self.state@.drop_last() =~= s1);
                        assert(s1.drop_last() =~= dl);
                        assert(pending(al, s1) == ser(node_tree(al, r)->Some_0) + pending(al, dl));
                        assert(pending(al, self.state@) == ser(node_tree(al, f)->Some_0) + pending(al, s1));
                        assert(stack_weight(al, s1) == tree_weight(node_tree(al, r)->Some_0) + stack_weight(al, dl));
                        assert(stack_weight(al, self.state@) == tree_weight(node_tree(al, f)->Some_0) + stack_weight(al, s1));
                        let sf = ser(node_tree(al, f)->Some_0); let sr = ser(node_tree(al, r)->Some_0); let pd = pending(al, dl);
                        assert(seq![0xffu8] + (sf + (sr + pd)) =~= (seq![0xffu8] + sf + sr) + pd);
                    }
//@ end
}
}
fn main() {}
