#![feature(allocator_api)]
#![allow(unused_imports, dead_code, unused_variables, unused_mut, unused_parens)]
use vstd::prelude::*;
use std::rc::Rc;
use std::borrow::Borrow;

verus! {
//@ include prelude/misc.rs
//@ include prelude/rc.rs
//@ include prelude/fs.rs
//@ extract struct Until from src/compiler/srcloc.rs
//@ derives
//@ end
//@ extract struct Srcloc from src/compiler/srcloc.rs
//@ derives
//@ end
//@ extract struct CompileErr from src/compiler/comptypes.rs
//@ end
//@ extract struct AcceptedDialect from src/compiler/dialect.rs
//@ derives
//@ end
//@ extract struct DefaultCompilerOpts from src/compiler/compiler.rs
//@ fields include_dirs dialect
//@ end
impl Srcloc {
//@ extract fn start from src/compiler/srcloc.rs in impl Srcloc
//@ stub
//@ end
}
// pseudo-files (stock macros, dialect markers) are not files: the claim below is about real files only
pub uninterp spec fn is_pseudo_file(name: String) -> bool;
#[verifier::external_body]
pub fn verif_pseudo_file(name: &String, strict: bool) -> (r: Option<Vec<u8>>)
    ensures r is Some <==> is_pseudo_file(*name)
{ unimplemented!() }

pub open spec fn first_hit(dirs: Seq<String>, name: String, i: int) -> bool {
    0 <= i < dirs.len() && fs_content(pb_join(dirs[i], name)) is Some
    && forall|j: int| 0 <= j < i ==> fs_content(pb_join(dirs[j], name)) is None
}

impl DefaultCompilerOpts {
//@ extract fn dialect from src/compiler/compiler.rs in impl CompilerOpts for DefaultCompilerOpts
//@ sig r
    ensures r == self.dialect
//@ end
//@ note read_new_file: a real file is taken from the FIRST search directory in which it is readable; the returned name is that path; an error means no directory has it
//@ extract fn read_new_file from src/compiler/compiler.rs in impl CompilerOpts for DefaultCompilerOpts
//@ canary stop_at_first_miss @</*continue*/ ();>@ => @<return Err(CompileErr(Srcloc::start(&inc_from), verif_opaque_string()));>@
//@ replace R20 @<continue;>@ => @</*continue*/ ();>@
//@ replace-block R17
        if filename == "*macros*" {
            if self.dialect().strict {
                return Ok((filename, ADVANCED_MACROS.bytes().collect()));
            } else {
                return Ok((filename, STANDARD_MACROS.bytes().collect()));
            }
        } else if let Some(dialect) = KNOWN_DIALECTS.get(&filename) {
            return Ok((filename, dialect.content.bytes().collect()));
        }
//@ with
        if let Some(pseudo) = verif_pseudo_file(&filename, self.dialect().strict) {
            return Ok((filename, pseudo));
        }
//@ replace R18 @<p.to_str().map(|x| x.to_owned()).unwrap_or_else(|| filename)>@ => @<(match p.to_str_owned() { Some(x) => x, None => filename })>@
//@ replace R1 @<format!("could not find {filename} to include")>@ => @<verif_opaque_string()>@
//@ replace R19 @<for dir in self.include_dirs.iter() {>@ => @<for dir in it: self.include_dirs.iter() {>@
//@ sig r
    ensures
        !is_pseudo_file(filename) ==> match r {
            Ok((pname, content)) => exists|i: int| #[trigger] first_hit(self.include_dirs@, filename, i)
                && fs_content(pb_join(self.include_dirs@[i], filename)) == Some(content@)
                && pname == (match pb_str(pb_join(self.include_dirs@[i], filename)) { Some(x) => x, None => filename }),
            Err(_) => forall|i: int| 0 <= i < self.include_dirs@.len() ==> fs_content(pb_join(#[trigger] self.include_dirs@[i], filename)) is None,
        }
//@ loop 0
            invariant
                !is_pseudo_file(filename),
                forall|j: int| 0 <= j < it.index@ ==> fs_content(pb_join(#[trigger] self.include_dirs@[j], filename)) is None,
//@ before stmt #1 @<return Ok((>@
                    proof {
                        let i = it.index@ as int;
                        assert(first_hit(self.include_dirs@, filename, i));
                    }
//@ after stmt @<p.push(filename.clone())>@
            proof { assert(p == pb_join(self.include_dirs@[it.index@ as int], filename)); }
//@ end
}
}
fn main() {}
