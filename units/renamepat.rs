#![feature(allocator_api)]
#![allow(unused_imports, dead_code, unused_variables, unused_mut, unused_parens)]
use vstd::prelude::*;
use vstd::arithmetic::power2::*;
use vstd::string::*;
use std::rc::Rc;
use std::borrow::Borrow;
use std::collections::HashMap;
use vstd::std_specs::hash::*;

verus! {
//@ include prelude/bigint.rs
//@ include spec/bytes.rs
//@ include prelude/misc.rs
//@ include prelude/bigint_bytes.rs
//@ include prelude/rc.rs
//@ include prelude/std.rs
//@ include units/inc/sexp_types.rs
broadcast use {num_bigint::of_int_bi, num_bigint::bi_of_int};
//@ include units/inc/binds.rs

// SPEC (C01, C10; finding F37): renaming a parameter list or binding pattern. Every atom of the pattern is a name: one
// the map knows is replaced by its new spelling, whatever it is spelled like (q, quote and qq are names here, not
// quotation marks); the shape, the locations and every other leaf stay as they are.
pub open spec fn pat_renamed(m: Map<Vec<u8>, Vec<u8>>, s: SExp, r: SExp) -> bool
    decreases s
{
    match s {
        SExp::Atom(l, n) => r matches SExp::Atom(l2, n2) && l2 == l && (if m.contains_key(n) { n2@ == m[n]@ } else { n2 == n }),
        SExp::Cons(l, a, b) => r matches SExp::Cons(l2, a2, b2) && l2 == l && pat_renamed(m, *a, *a2) && pat_renamed(m, *b, *b2),
        other => r == other,
    }
}
// nothing the map does not know changes at all
pub proof fn lemma_untouched(m: Map<Vec<u8>, Vec<u8>>, s: &SExp, r: &SExp)
    requires pat_renamed(m, *s, *r), m == Map::<Vec<u8>, Vec<u8>>::empty()
    ensures tree_of(true, *r) == tree_of(true, *s), tree_of(false, *r) == tree_of(false, *s)
    decreases *s
{
    match s {
        SExp::Cons(l, a, b) => { match r { SExp::Cons(l2, a2, b2) => { lemma_untouched(m, &**a, &**a2); lemma_untouched(m, &**b, &**b2); }, _ => {} } },
        _ => {}
    }
}
// the pattern keeps its shape: a pair stays a pair, a leaf a leaf
pub open spec fn same_shape(s: SExp, r: SExp) -> bool
    decreases s
{
    match s {
        SExp::Cons(_, a, b) => r matches SExp::Cons(_, a2, b2) && same_shape(*a, *a2) && same_shape(*b, *b2),
        _ => !(r is Cons),
    }
}
pub proof fn lemma_shape(m: Map<Vec<u8>, Vec<u8>>, s: &SExp, r: &SExp)
    requires pat_renamed(m, *s, *r)
    ensures same_shape(*s, *r)
    decreases *s
{
    match s {
        SExp::Cons(l, a, b) => { match r { SExp::Cons(l2, a2, b2) => { lemma_shape(m, &**a, &**a2); lemma_shape(m, &**b, &**b2); }, _ => {} } },
        _ => {}
    }
}

//@ note rename_in_pattern: every atom of a parameter list / binding pattern that the renaming map knows is replaced, also below a head spelled q, quote or qq (F37); shape, locations and other leaves unchanged
//@ extract fn rename_in_pattern from src/compiler/rename.rs
//@ canary one_letter_heads_kept @<rename_in_pattern(namemap, f.clone()),>@ => @<(if (match &**f { SExp::Atom(_, q) => q.len() == 1, _ => false }) { f.clone() } else { rename_in_pattern(namemap, f.clone()) }),>@
//@ sig r
    requires obeys_key_model::<Vec<u8>>()
    ensures pat_renamed(namemap@, *body, *r)
    decreases *body
//@ end
}
fn main() {}
