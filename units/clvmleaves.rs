#![feature(allocator_api)]
#![allow(unused_imports, dead_code, unused_variables, unused_mut, unused_parens)]
use vstd::prelude::*;
use vstd::arithmetic::power2::*;
use std::rc::Rc;
use std::borrow::Borrow;

verus! {
//@ include prelude/bigint.rs
//@ include spec/bytes.rs
//@ include prelude/misc.rs
//@ include prelude/bigint_bytes.rs
//@ include prelude/bigint_le.rs
//@ include prelude/rc.rs
//@ include prelude/std.rs
//@ include units/inc/sexp_types.rs
broadcast use {num_bigint::of_int_bi, num_bigint::bi_of_int};

//@ extract fn bi_zero from src/classic/clvm/__type_compatibility__.rs
//@ sig r
    ensures bi(r) == 0
//@ end
//@ extract fn bi_one from src/classic/clvm/__type_compatibility__.rs
//@ sig r
    ensures bi(r) == 1
//@ end

//@ note choose_path: postcondition is consensus path lookup (tree_path) on the CLVM value of the context, including path 0 = nil
//@ extract fn choose_path from src/compiler/clvm.rs
//@ canary swap_branches @<.unwrap() == bi_zero() {>@ => @<.unwrap() != bi_zero() {>@
//@ replace R1 @<format!("bad path {orig} in {all}")>@ => @<verif_opaque_string()>@
//@ sigfile r contracts/clvm_choose_path.sig
    decreases bi(p)
//@ end

pub proof fn lemma_be_lead_zero(x: Seq<u8>)
    ensures be_unsigned(seq![0u8] + x) == be_unsigned(x)
{
    lemma_be_concat(seq![0u8], x);
    lemma_be_single(0u8);
}

//@ note path_from_u8 / flatten_signed_int: a program atom is read as the unsigned big-endian path the consensus evaluator follows
//@ extract fn path_from_u8 from src/compiler/clvm.rs
//@ sigfile r contracts/clvm_path_from_u8.sig
//@ end

//@ extract fn flatten_signed_int from src/compiler/clvm.rs
//@ replace R12 @<Number::from_signed_bytes_le>@ => @<BigInt::from_signed_bytes_le>@
//@ sigfile r contracts/clvm_flatten_signed_int.sig
//@ after stmt @<let mut sign_digits>@
    let ghost le0 = sign_digits@;
//@ before tail
    proof {
        broadcast use axiom_signed_unique;
        assert(sign_digits@ == le0.push(0u8));
        assert(le0.push(0u8).reverse() =~= seq![0u8] + le0.reverse());
        lemma_be_lead_zero(le0.reverse());
        assert((seq![0u8] + le0.reverse())[0] == 0u8);
        if bi(v) == 0 { assert(le0.reverse() =~= seq![0u8]); }
    }
//@ end

// C06/path_of_atom: a canonical integer atom, read back through number_from_u8 and
// flatten_signed_int (the Integer route of run_step), is the unsigned path of its bytes
pub proof fn lemma_path_of_canonical_atom(s: Seq<u8>)
    requires is_min_signed(s)
    ensures s.len() > 0 ==> be_unsigned(u8n(be_signed(s))) == be_unsigned(s),
            s.len() == 0 ==> be_signed(s) == 0,
{
    broadcast use axiom_signed_unique;
    if s.len() > 0 {
        if be_signed(s) == 0 {
            // a non-empty minimal encoding is never zero
            lemma_min_signed_nonzero(s);
        }
    }
}
pub proof fn lemma_min_signed_nonzero(s: Seq<u8>)
    requires is_min_signed(s), s.len() > 0
    ensures be_signed(s) != 0
{
    lemma_be_bounds(s);
    let hd = seq![s[0]];
    let tl = s.subrange(1, s.len() as int);
    assert(s =~= hd + tl);
    lemma_be_concat(hd, tl);
    lemma_be_single(s[0]);
    lemma_be_bounds(tl);
    lemma2_to64();
    let n = (8 * tl.len()) as nat;
    lemma_pow2_pos(n);
    lemma_pow2_adds(n, 8);
    assert((8 * s.len()) as nat == n + 8);
    if s[0] >= 0x80 {
        // be_signed = be_unsigned - 2^(8 len) < 0
    } else if s[0] != 0 {
        assert(be_unsigned(s) >= (s[0] as int) * (pow2(n) as int));
        assert((s[0] as int) * (pow2(n) as int) >= pow2(n) as int) by(nonlinear_arith) requires s[0] >= 1, pow2(n) > 0;
    } else {
        // s[0] == 0: minimality forces s.len() > 1 and s[1] >= 0x80, so the value is >= 2^(n-1) > 0
        let t2 = tl.subrange(1, tl.len() as int);
        assert(tl =~= seq![tl[0]] + t2);
        lemma_be_concat(seq![tl[0]], t2);
        lemma_be_single(tl[0]);
        lemma_be_bounds(t2);
        lemma_pow2_pos((8 * t2.len()) as nat);
        assert((tl[0] as int) * (pow2((8 * t2.len()) as nat) as int) >= 1) by(nonlinear_arith) requires tl[0] >= 0x80, pow2((8 * t2.len()) as nat) > 0;
    }
}

//@ extract fn atom_value from src/compiler/clvm.rs
//@ replace R1 @<format!("cons is not a number {head}")>@ => @<verif_opaque_string()>@
//@ sigfile r contracts/clvm_atom_value.sig
//@ end

pub proof fn lemma_truthy_hint(sxr: &SExp)
    ensures
        *sxr matches SExp::Integer(_, i) ==> (bi(i) != 0 ==> signed_bytes(bi(i)).len() > 0),
        *sxr matches SExp::QuotedString(_, _, s) ==> (s@.len() == 0 <==> s@ == Seq::<u8>::empty()),
        *sxr matches SExp::Atom(_, s) ==> (s@.len() == 0 <==> s@ == Seq::<u8>::empty()),
{
    broadcast use axiom_signed_bytes;
    match sxr {
        SExp::Integer(_, i) => { if bi(*i) != 0 { assert(be_signed(signed_bytes(bi(*i))) == bi(*i)); } }
        SExp::QuotedString(_, _, s) => { assert(s@.len() == 0 <==> s@ =~= Seq::<u8>::empty()); }
        SExp::Atom(_, s) => { assert(s@.len() == 0 <==> s@ =~= Seq::<u8>::empty()); }
        _ => {}
    }
}

//@ note truthy: in the current integer mode a value is falsy exactly when its CLVM value is the empty atom (consensus nil test); in legacy mode exactly when it is an atom with numeric value 0
//@ extract fn truthy from src/compiler/clvm.rs
//@ canary negate @<return !a.is_empty();>@ => @<return a.is_empty();>@
//@ replace R13 @<NewStyleIntConversion::setting()>@ => @<verif_int_mode()>@
//@ replace R4 @<atom_value(sexp).unwrap_or_else(|_| bi_one())>@ => @<(match atom_value(sexp) { Ok(v) => v, Err(_) => bi_one() })>@
//@ sigfile r contracts/clvm_truthy.sig
//@ before stmt @<if verif_int_mode()>@
    proof { lemma_truthy_hint(&*sexp); }
//@ end

// ---- argument references generated for operator application (apply_op): reference number j is the
// consensus path "rest k+j times, then first" = 3 * 2^(k+j) - 1 (5, 11, 23, ... for k = 1)
pub open spec fn arg_ref(k: nat) -> int { 3 * (pow2(k) as int) - 1 }
pub open spec fn refs_rel(k: nat, refs: SExp, args: SExp) -> bool
    decreases args
{
    match args {
        SExp::Cons(_, a, b) => refs matches SExp::Cons(_, rh, rt) && (*rh matches SExp::Integer(_, i) && bi(i) == arg_ref(k)) && refs_rel(k + 1, *rt, *b),
        _ => refs == args,
    }
}
pub open spec fn rest_n(t: Tree, k: nat) -> Option<Tree>
    decreases k
{
    if k == 0 { Some(t) } else { match t { Tree::Pair(_, b) => rest_n(*b, (k - 1) as nat), Tree::Atom(_) => None } }
}
pub proof fn lemma_arg_ref_selects(t: Tree, k: nat)
    ensures tree_path(arg_ref(k), t) == (match rest_n(t, k) { Some(Tree::Pair(a, _)) => Some(*a), _ => None })
    decreases k
{
    lemma2_to64();
    lemma_pow2_pos(k);
    reveal_with_fuel(tree_path, 3);
    reveal_with_fuel(rest_n, 2);
    if k == 0 {
        assert(arg_ref(0) == 2);
        match t { Tree::Pair(a, _) => { assert(tree_path(2, t) == tree_path(1, *a)); } Tree::Atom(_) => {} }
    } else {
        lemma_pow2_unfold(k);
        let p = arg_ref(k);
        assert(p == 2 * arg_ref((k - 1) as nat) + 1);
        assert(p >= 2 && p % 2 == 1 && p / 2 == arg_ref((k - 1) as nat));
        match t { Tree::Pair(_, b) => { lemma_arg_ref_selects(*b, (k - 1) as nat); } Tree::Atom(_) => {} }
    }
}

//@ note generate_argument_refs: the j-th generated reference is the path 3*2^(k+j)-1; by lemma_arg_ref_selects that path selects the j-th argument from an environment whose k-th tail is the argument list
//@ extract fn generate_argument_refs from src/compiler/clvm.rs
//@ canary first_not_rest @<let next_index = bi_one() + 2_i32.to_bigint().unwrap() * start.clone();>@ => @<let next_index = 2_i32.to_bigint().unwrap() * start.clone();>@
//@ sig r
    requires exists|k: nat| bi(start) == #[trigger] arg_ref(k)
    ensures forall|k: nat| bi(start) == #[trigger] arg_ref(k) ==> refs_rel(k, *r, *sexp)
    decreases *sexp
//@ after stmt @<let next_index>@
            proof {
                assert forall|k: nat| bi(start) == #[trigger] arg_ref(k) implies bi(next_index) == arg_ref(k + 1) by { lemma_pow2_unfold(k + 1); }
            }
//@ end

// R52: the operator-name table Rc<HashMap<Vec<u8>, Rc<SExp>>> -> opaque stand-in (what a name maps to is abstract); the allocator and
// the program runner handed through to `run` are unused here (R42)
#[verifier::external_body]
pub struct VerifPrimMap { x: u8 }
pub uninterp spec fn prim_of_name(m: VerifPrimMap, name: Seq<u8>) -> Option<SExp>;
impl VerifPrimMap {
    #[verifier::external_body]
    pub fn get(&self, name: &Vec<u8>) -> (r: Option<&Rc<SExp>>)
        ensures match prim_of_name(*self, name@) { Some(p) => r matches Some(x) && **x == p, None => r is None }
    { unimplemented!() }
}
pub struct VerifUnused { pub x: u8 }
// the evaluator as a whole is not under contract here
#[verifier::external_body]
pub fn run(allocator: &mut VerifUnused, runner: Rc<VerifUnused>, prim_map: Rc<VerifPrimMap>, sexp_: Rc<SExp>, context_: Rc<SExp>, prim_override: Option<&VerifUnused>, iter_limit: Option<usize>) -> Result<Rc<SExp>, RunFailure> { unimplemented!() }
impl SExp {
//@ extract fn with_loc from src/compiler/sexp.rs in impl SExp
//@ stub
//@ sig r
    ensures tree_of(int_mode(), r) == tree_of(int_mode(), *self)
//@ end
}
//@ note translate_head (C06 / C20: which operator the stepping evaluator runs): a NUMBER in operator position is the opcode itself and is handed on unchanged; a name is what the operator-name table maps it to (finding F24: numbers were looked up as names by their byte, so 61 = % ran as '=' and 62 = keccak256 as '>')
//@ extract fn translate_head from src/compiler/clvm.rs
//@ canary number_as_name @<SExp::Integer(_, _) => Ok(sexp.clone()),>@ => @<SExp::Integer(l, i) => match prim_map.get(&u8_from_number(i.clone())) { None => Ok(sexp.clone()), Some(v) => Ok(Rc::new(v.with_loc(l.clone()))) },>@
//@ replace R42 @<allocator: &mut Allocator,>@ => @<allocator: &mut VerifUnused,>@
//@ replace R42 @<runner: Rc<dyn TRunProgram>,>@ => @<runner: Rc<VerifUnused>,>@
//@ replace R52 @<prim_map: Rc<HashMap<Vec<u8>, Rc<SExp>>>,>@ => @<prim_map: Rc<VerifPrimMap>,>@
//@ replace R1 @<"cannot apply nil".to_string(),>@ => @<verif_opaque_string(),>@
//@ replace R1 @<format!("Unexpected head form in clvm {sexp}"),>@ => @<verif_opaque_string(),>@
//@ replace R1 @<format!("unimplemented operator {sexp}"),>@ => @<verif_opaque_string(),>@
//@ replace R7 @<if u8_from_number(opcode.clone()) != *v {>@ => @<if !verif_vec_eq(&u8_from_number(opcode.clone()), v) {>@
//@ attr @<#[verifier::exec_allows_no_decreases_clause]>@
//@ sigfile r contracts/clvm_translate_head.sig
//@ end
}
fn main() {}
