#![feature(allocator_api)]
#![allow(unused_imports, dead_code, unused_variables, unused_mut, unused_parens)]
use vstd::prelude::*;
use std::rc::Rc;
use std::mem::swap;

verus! {
global size_of usize == 8;
//@ include prelude/misc.rs
//@ include prelude/std.rs
//@ include units/inc/bytes.rs
//@ include units/inc/stream.rs
//@ include units/inc/scan.rs
//@ extract struct SyntaxErr from src/classic/clvm/syntax_error.rs
//@ end
impl SyntaxErr {
//@ extract fn new from src/classic/clvm/syntax_error.rs in impl SyntaxErr
//@ end
}
//@ extract enum IRRepr from src/classic/clvm_tools/ir/type.rs
//@ end
//@ extract struct IRReader from src/classic/clvm_tools/ir/reader.rs
//@ end
pub closed spec fn rd_stream(r: IRReader) -> Stream { r.stream }
pub open spec fn rd_rest(r: IRReader) -> Seq<u8> { stream_rest(rd_stream(r)) }
pub closed spec fn stream_len(s: Stream) -> int { s.length as int }
// reader state the classic reader keeps between its functions: a well-formed stream whose cursor is inside the text
pub open spec fn rd_ok(r: IRReader) -> bool {
    stream_wf(rd_stream(r)) && 0 <= stream_seek(rd_stream(r)) <= stream_len(rd_stream(r)) && stream_len(rd_stream(r)) < 0x7fff_ffff_ffff_ffff
}
pub proof fn lemma_rest_len(r: IRReader)
    requires rd_ok(r)
    ensures rd_rest(r).len() == stream_len(rd_stream(r)) - stream_seek(rd_stream(r))
{}
pub proof fn lemma_rest_by_seek(a: IRReader, b: IRReader)
    requires stream_same_data(rd_stream(a), rd_stream(b)), stream_seek(rd_stream(a)) == stream_seek(rd_stream(b))
    ensures rd_rest(a) == rd_rest(b), stream_len(rd_stream(a)) == stream_len(rd_stream(b))
{}
pub proof fn lemma_same_len(a: IRReader, b: IRReader)
    requires stream_same_data(rd_stream(a), rd_stream(b))
    ensures stream_len(rd_stream(a)) == stream_len(rd_stream(b))
{}
// the text from position k on
pub closed spec fn rest_at(r: IRReader, k: int) -> Seq<u8> {
    if 0 <= k <= r.stream.length { r.stream.buffer@.subrange(k, r.stream.length as int) } else { Seq::<u8>::empty() }
}
pub proof fn lemma_rest_at(r: IRReader)
    requires rd_ok(r)
    ensures rd_rest(r) == rest_at(r, stream_seek(rd_stream(r)))
{}
pub proof fn lemma_rest_at_same(a: IRReader, b: IRReader, k: int)
    requires stream_same_data(rd_stream(a), rd_stream(b))
    ensures rest_at(a, k) == rest_at(b, k)
{}
pub proof fn lemma_rest_at_step(r: IRReader, k: int)
    requires stream_wf(rd_stream(r)), 0 <= k < stream_len(rd_stream(r))
    ensures rest_at(r, k).len() == stream_len(rd_stream(r)) - k, rest_at(r, k + 1) == rest_at(r, k).subrange(1, rest_at(r, k).len() as int)
{
    assert(rest_at(r, k + 1) =~= rest_at(r, k).subrange(1, rest_at(r, k).len() as int));
}

impl Stream {
// proved in unit `ser` (same contract text)
//@ extract fn read from src/classic/clvm/__type_compatibility__.rs in impl Stream
//@ stub
//@ sigfile r contracts/stream_read.sig
//@ end
//@ extract fn new from src/classic/clvm/__type_compatibility__.rs in impl Stream
//@ sig r
    ensures stream_wf(r), stream_seek(r) == 0,
        b matches Some(x) ==> stream_len(r) == bv(x).len() && stream_rest(r) == bv(x),
        b is None ==> stream_len(r) == 0,
//@ before #1 stmt @<Stream {>@
                proof { assert(data@.subrange(0, data@.len() as int) =~= data@); }
//@ end
//@ extract fn get_seek from src/classic/clvm/__type_compatibility__.rs in impl Stream
//@ sig r
    ensures r == stream_seek(*self)
//@ end
//@ extract fn set_seek from src/classic/clvm/__type_compatibility__.rs in impl Stream
//@ sig
    requires stream_len(*old(self)) >= 1
    ensures stream_same_data(*old(self), *final(self)), stream_wf(*old(self)) ==> stream_wf(*final(self)),
        stream_seek(*final(self)) == (if value < 0 { stream_len(*old(self)) - 1 } else if value > stream_len(*old(self)) - 1 { stream_len(*old(self)) } else { value as int }),
//@ end
}
impl IRReader {
// proved in unit `quoted` (same contract text)
//@ extract fn read from src/classic/clvm_tools/ir/reader.rs in impl IRReader
//@ stub
//@ sigfile r contracts/irreader_read.sig
//@ end
//@ extract fn backup from src/classic/clvm_tools/ir/reader.rs in impl IRReader
//@ sig
    requires rd_ok(*old(self)), stream_len(rd_stream(*old(self))) >= 1
    ensures rd_ok(*final(self)), stream_same_data(rd_stream(*old(self)), rd_stream(*final(self))),
        stream_seek(rd_stream(*final(self))) == (if n > stream_seek(rd_stream(*old(self))) { 0 } else { stream_seek(rd_stream(*old(self))) - n }),
//@ end
}

//@ extract fn is_eol from src/classic/clvm_tools/ir/reader.rs
//@ sig r
    ensures r == (chval == 13 || chval == 10)
//@ end
//@ extract fn is_space from src/classic/clvm_tools/ir/reader.rs
//@ sig r
    ensures r == sp(chval)
//@ end
pub open spec fn sp(c: u8) -> bool { c == 32 || c == 9 || c == 13 || c == 10 }
// SPEC: the text left after blanks and ; comments (a comment runs to the end of its line)
pub open spec fn skip_ws(t: Seq<u8>, in_comment: bool) -> Seq<u8>
    decreases t.len()
{
    if t.len() == 0 { t } else {
        let c = t[0];
        let r = t.subrange(1, t.len() as int);
        if in_comment { if c == 13 || c == 10 { skip_ws(r, false) } else { skip_ws(r, true) } }
        else if c == 0x3b { skip_ws(r, true) }
        else if sp(c) { skip_ws(r, false) }
        else { t }
    }
}
pub proof fn lemma_skip_ws_suffix(t: Seq<u8>, c: bool)
    ensures skip_ws(t, c).len() <= t.len(), skip_ws(t, c) == t.subrange(t.len() - skip_ws(t, c).len(), t.len() as int),
        skip_ws(t, c).len() > 0 ==> !sp(skip_ws(t, c)[0]) && skip_ws(t, c)[0] != 0x3b,
    decreases t.len()
{
    if t.len() > 0 {
        let r = t.subrange(1, t.len() as int);
        lemma_skip_ws_suffix(r, true);
        lemma_skip_ws_suffix(r, false);
        let k = skip_ws(t, c);
        assert(k =~= t.subrange(t.len() - k.len(), t.len() as int));
    } else {
        assert(t =~= t.subrange(0, 0));
    }
}

//@ note consume_whitespace: leaves the stream at the first byte that is neither blank nor inside a ; comment (skip_ws), or at the end of the text
//@ extract fn consume_whitespace from src/classic/clvm_tools/ir/reader.rs
//@ canary comment_never_ends @<in_comment = false;>@ => @<in_comment = true;>@
//@ sig
    requires rd_ok(*old(s))
    ensures rd_ok(*final(s)), stream_same_data(rd_stream(*old(s)), rd_stream(*final(s))),
        rd_rest(*final(s)) == skip_ws(rd_rest(*old(s)), false),
//@ before stmt @<let mut in_comment = false;>@
    let ghost rest0 = rd_rest(*s);
    let ghost s0 = *s;
    let ghost mut verif_k: int = stream_seek(rd_stream(*s));
    proof { lemma_rest_at(*s); }
//@ loop 0
        invariant_except_break
            verif_k == stream_seek(rd_stream(*s)),
            skip_ws(rest0, false) == skip_ws(rd_rest(*s), in_comment),
        invariant
            rd_ok(*s), stream_same_data(rd_stream(s0), rd_stream(*s)), rest0 == rd_rest(s0), s0 == *old(s),
        ensures
            rd_ok(*s), stream_same_data(rd_stream(s0), rd_stream(*s)),
            stream_seek(rd_stream(*s)) == verif_k + 1, 0 <= verif_k < stream_len(rd_stream(*s)),
            skip_ws(rest0, false) == rest_at(*s, verif_k),
        decreases rd_rest(*s).len()
//@ before stmt @<let b = s.read(1);>@
        let ghost verif_before = *s;
        proof { lemma_rest_at(*s); lemma_rest_len(*s); }
//@ after stmt @<let b = s.read(1);>@
        proof {
            lemma_same_len(verif_before, *s);
            lemma_rest_at_same(verif_before, *s, verif_k);
            if bv(b).len() > 0 {
                lemma_rest_at_step(*s, verif_k);
                lemma_rest_at(*s);
                assert(bv(b)[0] == rd_rest(verif_before)[0]);
            }
        }
//@ after stmt @<let ch = b.at(0);>@
        proof { verif_k = verif_k + 1; }
//@ before stmt @<break;>@
        proof { verif_k = verif_k - 1; }
//@ before stmt @<s.backup(1);>@
    let ghost verif_mid = *s;
//@ after stmt @<s.backup(1);>@
    proof {
        lemma_same_len(verif_mid, *s);
        lemma_rest_at_same(verif_mid, *s, verif_k);
        lemma_rest_at(*s);
    }
//@ end

// bytes that end a bare atom
pub open spec fn delim(c: u8) -> bool { c == 0x28 || c == 0x29 || sp(c) }
pub open spec fn atom_len(t: Seq<u8>) -> int
    decreases t.len()
{
    if t.len() == 0 || delim(t[0]) { 0 } else { 1 + atom_len(t.subrange(1, t.len() as int)) }
}
pub proof fn lemma_atom_len(t: Seq<u8>)
    ensures 0 <= atom_len(t) <= t.len()
    decreases t.len()
{
    if t.len() > 0 && !delim(t[0]) { lemma_atom_len(t.subrange(1, t.len() as int)); }
}
// what the atom text denotes (numbers, hex, symbols): string parsing, outside this unit
pub uninterp spec fn interp_spec(chars: Seq<u8>) -> Result<IRRepr, SyntaxErr>;
//@ extract fn interpret_atom_value from src/classic/clvm_tools/ir/reader.rs
//@ stub
//@ sig r
    ensures r == interp_spec(chars@)
//@ end
pub open spec fn is_suffix(a: Seq<u8>, b: Seq<u8>) -> bool { a.len() <= b.len() && a == b.subrange(b.len() - a.len(), b.len() as int) }

//@ note consume_atom: the atom is the given first byte(s) followed by the bytes up to the next parenthesis, blank or the end of the text; the stream is left at that delimiter
//@ extract fn consume_atom from src/classic/clvm_tools/ir/reader.rs
//@ canary eats_delimiter @<s.backup(1);>@ => @<s.backup(0);>@
//@ replace all R4 @<interpret_atom_value(&result_vec).map(Some)>@ => @<(match interpret_atom_value(&result_vec) { Ok(verif_v) => Ok(Some(verif_v)), Err(verif_e) => Err(verif_e) })>@
//@ sig r
    requires rd_ok(*old(s))
    ensures rd_ok(*final(s)), stream_same_data(rd_stream(*old(s)), rd_stream(*final(s))),
        ({ let rest0 = rd_rest(*old(s));
           let n = atom_len(rest0);
           let text = bv(*b) + rest0.subrange(0, n);
           rd_rest(*final(s)) == rest0.subrange(n, rest0.len() as int)
           && stream_seek(rd_stream(*final(s))) == stream_seek(rd_stream(*old(s))) + n
           && r == (if text.len() == 0 && n == rest0.len() { Ok(None::<IRRepr>) } else {
                   match interp_spec(text) { Ok(v) => Ok::<Option<IRRepr>, SyntaxErr>(Some(v)), Err(e) => Err::<Option<IRRepr>, SyntaxErr>(e) } }) }),
//@ before stmt @<let mut result_vec>@
    let ghost rest0 = rd_rest(*s);
    let ghost s0 = *s;
    let ghost mut verif_n: int = 0;
    let ghost verif_b0 = bv(*b);
    proof { lemma_atom_len(rest0); lemma_rest_at(*s); lemma_rest_len(*s); assert(rest0.subrange(0, 0) =~= Seq::<u8>::empty()); assert(verif_b0 + Seq::<u8>::empty() =~= verif_b0); assert(rest0.subrange(0, rest0.len() as int) =~= rest0); }
//@ loop 0
        invariant
            rd_ok(*s), stream_same_data(rd_stream(s0), rd_stream(*s)), rest0 == rd_rest(s0), s0 == *old(s),
            0 <= verif_n <= rest0.len(),
            stream_seek(rd_stream(*s)) == stream_seek(rd_stream(s0)) + verif_n,
            rd_rest(*s) == rest0.subrange(verif_n, rest0.len() as int),
            result_vec@ == verif_b0 + rest0.subrange(0, verif_n), verif_b0 == bv(*b),
            atom_len(rest0) == verif_n + atom_len(rd_rest(*s)),
        decreases rest0.len() - verif_n
//@ before stmt @<let b = s.read(1);>@
        let ghost verif_before = *s;
        proof { lemma_rest_len(*s); lemma_same_len(s0, *s); }
//@ after stmt @<let b = s.read(1);>@
        proof {
            lemma_same_len(verif_before, *s);
            if bv(b).len() > 0 { assert(bv(b)[0] == rd_rest(verif_before)[0]); }
            else { assert(rd_rest(verif_before).len() == 0); assert(rest0.subrange(0, verif_n) =~= rest0.subrange(0, rest0.len() as int)); }
        }
//@ before stmt @<s.backup(1);>@
            let ghost verif_mid = *s;
            proof { lemma_rest_at(verif_before); }
//@ after stmt @<s.backup(1);>@
            proof {
                lemma_same_len(verif_mid, *s);
                lemma_rest_at_same(verif_before, *s, stream_seek(rd_stream(verif_before)));
                lemma_rest_at(*s);
            }
//@ after stmt @<result_vec.push(b.at(0));>@
        proof {
            assert(rest0.subrange(0, verif_n + 1) =~= rest0.subrange(0, verif_n).push(rest0[verif_n]));
            assert(verif_b0 + rest0.subrange(0, verif_n + 1) =~= (verif_b0 + rest0.subrange(0, verif_n)).push(rest0[verif_n]));
            assert(rd_rest(*s) =~= rest0.subrange(verif_n + 1, rest0.len() as int));
            verif_n = verif_n + 1;
        }
//@ end

//@ note enlist_ir: indexes only elements that are there (it empties the vector's slots back to front)
//@ extract fn enlist_ir from src/classic/clvm_tools/ir/reader.rs
//@ replace R49 @<fn enlist_ir(vec: &mut [IRRepr], tail: IRRepr) -> IRRepr {>@ => @<fn enlist_ir(vec: &mut Vec<IRRepr>, tail: IRRepr) -> IRRepr {>@
//@ replace R4 @<swap(&mut vec[i], &mut next_head);>@ => @<verif_swap_at(vec, i, &mut next_head);>@
//@ loop 0
        invariant vec@.len() == old(vec)@.len()
//@ end
// R4: std::mem::swap(&mut vec[i], &mut x) -> exchange of element i with x (trusted)
#[verifier::external_body]
pub fn verif_swap_at(vec: &mut Vec<IRRepr>, i: usize, x: &mut IRRepr)
    requires i < old(vec)@.len()
    ensures final(vec)@ == old(vec)@.update(i as int, *old(x)), *final(x) == old(vec)@[i as int]
{ unimplemented!() }

// proved in unit `quoted` (same contract text)
//@ extract fn consume_quoted from src/classic/clvm_tools/ir/reader.rs
//@ stub
//@ sigfile r contracts/consume_quoted.sig
//@ end

// what every reader function keeps: the text is unchanged and the cursor stays inside it; when it returns a value the cursor has only moved forward
pub open spec fn kept(a: IRReader, b: IRReader) -> bool { rd_ok(b) && stream_same_data(rd_stream(a), rd_stream(b)) }
pub open spec fn fwd(a: IRReader, b: IRReader) -> bool { stream_seek(rd_stream(b)) >= stream_seek(rd_stream(a)) }
pub proof fn lemma_kept_trans(a: IRReader, b: IRReader, c: IRReader)
    requires kept(a, b), kept(b, c)
    ensures kept(a, c)
{}
pub proof fn lemma_fwd_trans(a: IRReader, b: IRReader, c: IRReader)
    requires fwd(a, b), fwd(b, c)
    ensures fwd(a, c)
{}
pub proof fn lemma_fwd_by(a: IRReader, b: IRReader, k: int)
    requires rd_ok(a), kept(a, b), 0 <= k <= rd_rest(a).len(), rd_rest(b) == rd_rest(a).subrange(k, rd_rest(a).len() as int)
    ensures fwd(a, b), rd_rest(b).len() == rd_rest(a).len() - k, stream_seek(rd_stream(b)) == stream_seek(rd_stream(a)) + k
{
    lemma_rest_len(a); lemma_rest_len(b); lemma_same_len(a, b);
}
// with the text unchanged, the remaining text is a suffix of what it was
pub proof fn lemma_fwd_suffix(a: IRReader, b: IRReader)
    requires rd_ok(a), kept(a, b), fwd(a, b)
    ensures is_suffix(rd_rest(b), rd_rest(a))
{
    let x = rd_rest(a); let y = rd_rest(b);
    assert(y =~= x.subrange(x.len() - y.len(), x.len() as int));
}
pub proof fn lemma_rdok_from_sum(a: IRReader, b: IRReader)
    requires rd_ok(a), stream_wf(rd_stream(b)), stream_same_data(rd_stream(a), rd_stream(b)),
        stream_seek(rd_stream(b)) + rd_rest(b).len() == stream_seek(rd_stream(a)) + rd_rest(a).len()
    ensures rd_ok(b)
{}
pub proof fn lemma_scan_bound(rest: Seq<u8>, q: u8, bs: bool)
    ensures scan(rest, q, bs) matches Some((t, n)) ==> 1 <= n <= rest.len()
    decreases rest.len()
{
    if rest.len() > 0 {
        let r = rest.subrange(1, rest.len() as int);
        lemma_scan_bound(r, q, true);
        lemma_scan_bound(r, q, false);
    }
}

//@ note consume_cons_body / consume_object (the classic reader as a whole, C14): for every text, every index is in range, every read is inside the text, the cursor only moves forward and both functions terminate (each list element consumes at least one byte)
//@ extract fn consume_cons_body from src/classic/clvm_tools/ir/reader.rs
//@ replace all R1 @<"missing )".to_string()>@ => @<verif_opaque_string()>@
//@ sig r
    requires rd_ok(*old(s)), stream_seek(rd_stream(*old(s))) >= 1
    ensures kept(*old(s), *final(s)), r is Ok ==> fwd(*old(s), *final(s))
    decreases rd_rest(*old(s)).len(), 1int
//@ before stmt @<let mut result = vec![];>@
    let ghost s0 = *s;
    proof { assert(rd_rest(s0).subrange(0, rd_rest(s0).len() as int) =~= rd_rest(s0)); lemma_fwd_by(s0, *s, 0); }
//@ loop 0
        invariant
            s0 == *old(s), kept(s0, *s), fwd(s0, *s), stream_seek(rd_stream(*s)) >= 1,
        decreases rd_rest(*s).len()
//@ before #0 stmt @<consume_whitespace(s);>@
        let ghost verif_top = *s;
        proof { lemma_skip_ws_suffix(rd_rest(*s), false); lemma_rest_len(*s); }
//@ after #0 stmt @<consume_whitespace(s);>@
        let ghost verif_ws = *s;
        proof {
            lemma_same_len(verif_top, *s); lemma_rest_len(*s);
            lemma_fwd_by(verif_top, *s, rd_rest(verif_top).len() - rd_rest(*s).len());
            lemma_fwd_trans(s0, verif_top, *s);
        }
//@ after #0 stmt @<let b = s.read(1);>@
        let ghost verif_rd = *s;
        proof {
            lemma_same_len(verif_ws, *s); lemma_rest_len(*s);
            if bv(b).len() > 0 {
                lemma_fwd_by(verif_ws, *s, 1);
                lemma_fwd_trans(s0, verif_ws, *s);
            }
        }
//@ after stmt @<let v = consume_cons_body(s)?;>@
            proof { lemma_fwd_trans(s0, verif_rd, *s); }
//@ after stmt @<let v = consume_quoted(s, b.at(0))?;>@
            proof {
                lemma_scan_bound(rd_rest(verif_rd), bv(b)[0], false);
                lemma_rdok_from_sum(verif_rd, *s);
                match scan(rd_rest(verif_rd), bv(b)[0], false) { Some((t, n)) => { lemma_fwd_by(verif_rd, *s, n); } None => {} }
                lemma_fwd_trans(s0, verif_rd, *s);
            }
//@ before #1 stmt @<consume_whitespace(s);>@
            proof { lemma_skip_ws_suffix(rd_rest(*s), false); lemma_rest_len(*s); }
//@ after #1 stmt @<consume_whitespace(s);>@
            let ghost verif_ws2 = *s;
            proof {
                lemma_same_len(verif_rd, *s); lemma_rest_len(*s);
                lemma_fwd_by(verif_rd, *s, rd_rest(verif_rd).len() - rd_rest(*s).len());
                lemma_fwd_trans(s0, verif_rd, *s);
            }
//@ after stmt @<let v = consume_object(s)?;>@
            let ghost verif_obj = *s;
            proof { lemma_fwd_trans(s0, verif_ws2, *s); lemma_skip_ws_suffix(rd_rest(*s), false); lemma_rest_len(*s); }
//@ after #2 stmt @<consume_whitespace(s);>@
            let ghost verif_ws3 = *s;
            proof {
                lemma_same_len(verif_obj, *s); lemma_rest_len(*s);
                lemma_fwd_by(verif_obj, *s, rd_rest(verif_obj).len() - rd_rest(*s).len());
                lemma_fwd_trans(s0, verif_obj, *s);
            }
//@ after #1 stmt @<let b = s.read(1);>@
            proof {
                lemma_same_len(verif_ws3, *s); lemma_rest_len(*s);
                if bv(b).len() > 0 { lemma_fwd_by(verif_ws3, *s, 1); lemma_fwd_trans(s0, verif_ws3, *s); }
            }
//@ before stmt @<result.push(f);>@
            proof {
                lemma_atom_len(rd_rest(verif_rd));
                lemma_same_len(verif_rd, *s); lemma_rest_len(*s); lemma_rest_len(verif_rd);
                lemma_fwd_by(verif_rd, *s, atom_len(rd_rest(verif_rd)));
                lemma_fwd_trans(s0, verif_rd, *s);
            }
//@ end
//@ extract fn consume_object from src/classic/clvm_tools/ir/reader.rs
//@ replace all R1 @<"empty stream".to_string()>@ => @<verif_opaque_string()>@
//@ sig r
    requires rd_ok(*old(s))
    ensures kept(*old(s), *final(s)), r is Ok ==> fwd(*old(s), *final(s))
    decreases rd_rest(*old(s)).len(), 2int
//@ before stmt @<consume_whitespace(s);>@
    let ghost s0 = *s;
    proof { lemma_skip_ws_suffix(rd_rest(*s), false); lemma_rest_len(*s); }
//@ after stmt @<consume_whitespace(s);>@
    let ghost verif_ws = *s;
    proof {
        lemma_same_len(s0, *s); lemma_rest_len(*s);
        lemma_fwd_by(s0, *s, rd_rest(s0).len() - rd_rest(*s).len());
    }
//@ after stmt @<let b = s.read(1);>@
    let ghost verif_rd = *s;
    proof {
        lemma_same_len(verif_ws, *s); lemma_rest_len(*s);
        if bv(b).len() > 0 {
            lemma_fwd_by(verif_ws, *s, 1); lemma_fwd_trans(s0, verif_ws, *s);
            lemma_scan_bound(rd_rest(verif_rd), bv(b)[0], false);
            lemma_atom_len(rd_rest(verif_rd));
        } else {
            lemma_fwd_by(verif_ws, *s, 0); lemma_fwd_trans(s0, verif_ws, *s);
        }
    }
//@ end

impl IRReader {
//@ extract fn new from src/classic/clvm_tools/ir/reader.rs in impl IRReader
//@ sig r
    ensures rd_stream(r) == s
//@ end
//@ extract fn read_expr from src/classic/clvm_tools/ir/reader.rs in impl IRReader
//@ sig r
    requires rd_ok(*old(self))
    ensures kept(*old(self), *final(self))
//@ end
}
// R4: s.as_bytes().to_vec() on a &str -> the bytes of the text (opaque)
#[verifier::external_body]
pub fn verif_str_bytes(s: &str) -> (r: Vec<u8>) ensures r@ == string_bytes(s@) { unimplemented!() }
//@ note read_ir (the classic assembler's entry point): for every text shorter than 2^63 bytes the reader is started in a state that satisfies its precondition, so reading any text neither indexes outside it nor loops
//@ extract fn read_ir from src/classic/clvm_tools/ir/reader.rs
//@ replace R4 @<s.as_bytes().to_vec()>@ => @<verif_str_bytes(s)>@
//@ sig r
    requires string_bytes(s@).len() < 0x7fff_ffff_ffff_ffff
//@ end

}
fn main() {}
