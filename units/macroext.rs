#![feature(allocator_api)]
#![allow(unused_imports, dead_code, unused_variables, unused_mut, unused_parens)]
use vstd::prelude::*;
use vstd::arithmetic::power2::*;
use std::rc::Rc;
use std::borrow::Borrow;

verus! {
global size_of usize == 8;
//@ include prelude/bigint.rs
//@ include spec/bytes.rs
//@ include prelude/misc.rs
//@ include prelude/bigint_bytes.rs
//@ include prelude/rc.rs
//@ include prelude/std.rs
//@ include units/inc/sexp_types.rs
broadcast use {num_bigint::of_int_bi, num_bigint::bi_of_int};
//@ extract struct CompileErr from src/compiler/comptypes.rs
//@ end
//@ extract enum MatchedNumber from src/compiler/preprocessor/macros.rs
//@ replace R28 @<enum MatchedNumber {>@ => @<pub enum MatchedNumber {>@
//@ replace R41 @<(Srcloc, Number)>@ => @<(Srcloc, num_bigint::BigInt)>@
//@ end

// the classifiers and conversions the extension functions call: no contract needed for absence of panics
//@ extract fn match_quoted_string from src/compiler/preprocessor/macros.rs
//@ stub
//@ end
//@ extract fn match_atom from src/compiler/preprocessor/macros.rs
//@ stub
//@ end
//@ extract fn match_number from src/compiler/preprocessor/macros.rs
//@ stub
//@ end
//@ extract fn usize_value from src/compiler/preprocessor/macros.rs
//@ stub
//@ end
//@ extract fn bi_one from src/classic/clvm/__type_compatibility__.rs
//@ stub
//@ replace R41 @<-> Number>@ => @<-> num_bigint::BigInt>@
//@ end
// R4: s.iter().take(end).skip(start).copied().collect() -> the sub-vector [start, end); the helper demands start <= end <= len,
// so the range test in front of it has to be sufficient
#[verifier::external_body]
pub fn verif_subvec(s: &Vec<u8>, start: usize, end: usize) -> (r: Vec<u8>)
    requires start <= end <= s@.len()
    ensures r@ == s@.subrange(start as int, end as int)
{ unimplemented!() }
// R43: usize -> BigInt through the ToBigInt trait
#[verifier::external_body]
pub fn verif_usize_to_bigint(n: usize) -> (r: Option<num_bigint::BigInt>) ensures r matches Some(b) ==> bi(b) == n { unimplemented!() }

//@ note required_arg: Ok exactly when the call has an n-th argument, and then it is that argument
//@ extract fn required_arg from src/compiler/preprocessor/macros.rs
//@ canary off_by_one @<match args.get(n) {>@ => @<match args.get(if n > 0 { n - 1 } else { 0 }) {>@
//@ replace-block R4
    args.get(n)
        .cloned()
        .ok_or_else(|| CompileErr(loc.clone(), format!("missing argument {}", n + 1)))
//@ with
    match args.get(n) { Some(verif_a) => Ok(verif_a.clone()), None => Err(CompileErr(loc.clone(), verif_opaque_string())) }
//@ sig r
    ensures r is Ok <==> n < args@.len(), r matches Ok(a) ==> a == args@[n as int]
//@ end

pub struct StringQ;
pub struct NumberQ;
pub struct SymbolQ;
pub struct SymbolToString;
pub struct StringToSymbol;
pub struct StringAppend;
pub struct StringLength;
pub struct Substring;
//@ note the defmac extension functions: no argument is indexed that the call did not supply, for any argument list (C14)
impl StringQ {
//@ extract fn try_eval from src/compiler/preprocessor/macros.rs in impl ExtensionFunction for StringQ
//@ end
}
impl NumberQ {
//@ extract fn try_eval from src/compiler/preprocessor/macros.rs in impl ExtensionFunction for NumberQ
//@ end
}
impl SymbolQ {
//@ extract fn try_eval from src/compiler/preprocessor/macros.rs in impl ExtensionFunction for SymbolQ
//@ end
}
impl SymbolToString {
//@ extract fn try_eval from src/compiler/preprocessor/macros.rs in impl ExtensionFunction for SymbolToString
//@ end
}
impl StringToSymbol {
//@ extract fn try_eval from src/compiler/preprocessor/macros.rs in impl ExtensionFunction for StringToSymbol
//@ end
}
impl StringAppend {
//@ extract fn try_eval from src/compiler/preprocessor/macros.rs in impl ExtensionFunction for StringAppend
//@ replace R4 @<out_loc.unwrap_or_else(|| loc.clone()),>@ => @<(match out_loc { Some(verif_l) => verif_l, None => loc.clone() }),>@
//@ end
}
impl StringLength {
//@ extract fn try_eval from src/compiler/preprocessor/macros.rs in impl ExtensionFunction for StringLength
//@ replace R43 @<value.len().to_bigint()>@ => @<verif_usize_to_bigint(value.len())>@
//@ replace R1 @<"Error getting string length".to_string(),>@ => @<verif_opaque_string(),>@
//@ end
}
impl Substring {
//@ extract fn try_eval from src/compiler/preprocessor/macros.rs in impl ExtensionFunction for Substring
//@ canary weak_range_test @<if start_element > end_element || start_element > s.len() || end_element > s.len() {>@ => @<if start_element > end_element || start_element > s.len() {>@
//@ replace-block R4
                let result_value: Vec<u8> = s
                    .iter()
                    .take(end_element)
                    .skip(start_element)
                    .copied()
                    .collect();
//@ with
                let result_value: Vec<u8> = verif_subvec(s, start_element, end_element);
//@ replace R1 @<"start greater than end in substring".to_string(),>@ => @<verif_opaque_string(),>@
//@ replace R1 @<"Not a string".to_string()>@ => @<verif_opaque_string()>@
//@ end
}
}
fn main() {}
