#![feature(allocator_api)]
#![allow(unused_imports, dead_code, unused_variables, unused_mut, unused_parens)]
use vstd::prelude::*;
use std::rc::Rc;
use std::borrow::Borrow;

verus! {
global size_of usize == 8;
//@ include prelude/misc.rs
//@ include prelude/rc.rs
//@ include prelude/bigint.rs
//@ include prelude/std.rs
//@ extract struct Until from src/compiler/srcloc.rs
//@ derives
//@ end
//@ extract struct Srcloc from src/compiler/srcloc.rs
//@ derives
//@ end
//@ extract enum SExp from src/compiler/sexp.rs
//@ derives
//@ end
//@ extract enum Integral from src/compiler/sexp.rs
//@ replace R28 @<enum Integral {>@ => @<pub enum Integral {>@
//@ end
pub open spec fn sloc(s: SExp) -> Srcloc { match s { SExp::Nil(l) => l, SExp::Cons(l, _, _) => l, SExp::Integer(l, _) => l, SExp::QuotedString(l, _, _) => l, SExp::Atom(l, _) => l } }

//@ extract fn bi_zero from src/classic/clvm/__type_compatibility__.rs
//@ stub
//@ replace R41 @<-> Number>@ => @<-> num_bigint::BigInt>@
//@ sig r
    ensures num_bigint::bi(r) == 0
//@ end
// the operator table: only its rows' names are looked at here
#[verifier::external_body]
pub fn prims() -> Vec<(Vec<u8>, SExp)> { unimplemented!() }
//@ extract fn is_hex from src/compiler/sexp.rs
//@ sig r
    ensures r == (s@.len() >= 2 && s@[0] == 0x30 && s@[1] == 0x78)
//@ end
// decimal syntax test and text -> number conversion (string handling, outside this unit)
#[verifier::external_body]
pub fn is_dec(s: &[u8]) -> bool { unimplemented!() }
#[verifier::external_body]
pub fn normalize_int(v: Vec<u8>, base: u32) -> num_bigint::BigInt { unimplemented!() }
//@ extract fn matches_integral from src/compiler/sexp.rs
//@ sig r
    ensures r is Hex ==> (s@.len() >= 2 && s@[0] == 0x30 && s@[1] == 0x78)
//@ end
// hex digits -> bytes (binascii)
#[verifier::external_body]
pub fn hex2bin<'a>(input: &[u8], output: &'a mut Vec<u8>) -> Result<(), u8> { unimplemented!() }
// R49: `&v[2..]` / `&hex_const[2..]` / `v[1..]` -> the slice from an index on
#[verifier::external_body]
pub fn verif_from(v: &[u8], k: usize) -> (r: &[u8])
    requires k <= v@.len()
    ensures r@ == v@.subrange(k as int, v@.len() as int)
{ &v[k..] }

//@ note from_hex (a 0x… word): the constant is located where the caller says; the padded copy is only indexed inside its length
//@ extract fn from_hex from src/compiler/sexp.rs
//@ replace R49 @<&hex_const[2..]>@ => @<verif_from(hex_const.as_slice(), 2)>@
//@ replace R49 @<&v[2..]>@ => @<verif_from(v, 2)>@
//@ replace R4 @<hex2bin(v_ref, &mut result).ok();>@ => @<let _ = hex2bin(v_ref, &mut result);>@
//@ sig r
    requires v@.len() >= 2
    ensures sloc(r) == l, r is QuotedString
//@ end

impl SExp {
//@ extract fn with_loc from src/compiler/sexp.rs in impl SExp
//@ sig r
    ensures sloc(r) == loc
//@ end
}
//@ note make_atom (what the modern reader makes of a word): every value, also the number a #-prefixed operator name stands for (finding F54: it used to carry the operator table's own location in the pseudo-file *prims*), is located where the caller says -- the contract unit readerstep assumes; a word that is neither hex nor decimal is the atom of exactly its bytes; the slices taken are inside the word
//@ extract fn make_atom from src/compiler/sexp.rs
//@ canary word_relocated @<Integral::NotIntegralValue => SExp::Atom(l, v),>@ => @<Integral::NotIntegralValue => SExp::Atom(Srcloc { file: l.file, line: 0, col: l.col, until: l.until }, v),>@
//@ replace all R49 @<v[1..].to_vec()>@ => @<verif_from(v.as_slice(), 1).to_vec()>@
//@ replace-span R31 @<for p in prims() {>@ @<return p.1.with_loc(l);>@ => @<let verif_prims = prims(); let mut verif_i: usize = 0; let verif_n = verif_prims.len(); let mut verif_hit: Option<SExp> = None; while verif_i < verif_n invariant verif_n == verif_prims@.len() decreases verif_n - verif_i { if verif_vec_eq(&want_name, &verif_prims[verif_i].0) { verif_hit = Some(verif_prims[verif_i].1.clone()); break; } verif_i = verif_i + 1; } if true { if verif_hit.is_some() { return verif_hit.unwrap().with_loc(l);>@
//@ sigfile r contracts/make_atom.sig
//@ end
}
fn main() {}
