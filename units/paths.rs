#![feature(allocator_api)]
#![allow(unused_imports, dead_code, unused_variables, unused_mut, unused_parens)]
use vstd::prelude::*;
use vstd::arithmetic::power2::*;

verus! {
//@ include prelude/bigint.rs
//@ include spec/paths.rs
//@ include spec/bytes.rs
//@ include prelude/misc.rs
//@ include prelude/bigint_bytes.rs
//@ include prelude/std.rs
//@ include units/inc/bytes.rs
broadcast use {num_bigint::of_int_bi, num_bigint::bi_of_int};

//@ extract fn bi_zero from src/classic/clvm/__type_compatibility__.rs
//@ sig r
    ensures bi(r) == 0
//@ end
//@ extract fn bi_one from src/classic/clvm/__type_compatibility__.rs
//@ sig r
    ensures bi(r) == 1
//@ end

//@ extract fn compose_paths from src/classic/clvm_tools/node_path.rs
//@ canary swap_or_operands @<path_1 | (path_0 & mask)>@ => @<path_0 | (path_1 & mask)>@
//@ canary shift_twice @<mask <<= 1;>@ => @<mask <<= 2;>@
//@ sigfile r contracts/compose_paths.sig
//@ after stmt @<let mut temp_path>@
    let ghost mut k: nat = 0;
    proof { lemma2_to64(); }
//@ loop 0
        invariant
            bi(path_0) >= 1, bi(path_0) == bi(*path_0_),
            bi(mask) == pow2(k) as int,
            bi(temp_path) == bi(path_0) / (pow2(k) as int),
            bi(temp_path) >= 1,
            bi(path_1) == bi(*path_1_) * (pow2(k) as int),
            plen(bi(path_0)) == k + plen(bi(temp_path)),
        decreases bi(temp_path)
//@ before stmt @<path_1 <<=>@
        let ghost m0 = bi(mask);
        let ghost t0 = bi(temp_path);
        let ghost p10 = bi(path_1);
//@ after stmt @<temp_path >>=>@
        proof {
            lemma2_to64();
            assert(pow2(1) == 2);
            lemma_pow2_unfold(k + 1);
            assert(pow2(k + 1) == 2 * pow2(k));
            lemma_pow2_pos(k);
            vstd::arithmetic::div_mod::lemma_div_denominator(bi(path_0), pow2(k) as int, 2);
            assert((pow2(k) as int) * 2 == pow2(k + 1) as int);
            assert(bi(*path_1_) * (pow2(k) as int) * 2 == bi(*path_1_) * ((pow2(k) as int) * 2)) by(nonlinear_arith);
            assert(plen(t0) == 1 + plen(t0 / 2));
            k = k + 1;
        }
//@ before tail
    proof {
        lemma_pow2_pos(k);
        let pk = pow2(k) as int;
        let p0 = bi(path_0);
        let q = bi(*path_1_);
        assert(bi(mask) == pk - 1);
        assert(bi(temp_path) == 1);
        vstd::arithmetic::div_mod::lemma_fundamental_div_mod(p0, pk);
        vstd::arithmetic::div_mod::lemma_mod_bound(p0, pk);
        assert(p0 == pk * 1 + p0 % pk);
        assert(p0 % pk == p0 - pk);
        vstd::arithmetic::div_mod::lemma_mod_multiples_basic(q, pk);
        assert(bi(path_1) == q * pk);
        assert(bi(path_1) % pk == 0);
        num_bigint::and_low_mask(p0, k);
        assert(num_bigint::int_and(p0, bi(mask)) == p0 % pk);
        num_bigint::or_disjoint(bi(path_1), p0 % pk, k);
        lemma_plen_bounds(p0);
        assert(plen(1) == 0);
        assert(plen(p0) == k);
        assert(num_bigint::int_or(bi(path_1), p0 % pk) == q * pk + (p0 - pk));
    }
//@ end

// callees proved in unit `casts` (same contract text, assumed here)
//@ extract struct TConvertOption from src/classic/clvm/casts.rs
//@ end
//@ extract fn bigint_from_bytes from src/classic/clvm/casts.rs
//@ stub
//@ sigfile r contracts/bigint_from_bytes.sig
//@ end
//@ extract fn bigint_to_bytes_unsigned from src/classic/clvm/casts.rs
//@ stub
//@ sigfile r contracts/bigint_to_bytes_unsigned.sig
//@ end
//@ extract fn bigint_to_bytes_clvm from src/classic/clvm/casts.rs
//@ stub
//@ sigfile r contracts/bigint_to_bytes_clvm.sig
//@ end

//@ extract struct NodePath from src/classic/clvm_tools/node_path.rs
//@ end
pub closed spec fn np(n: NodePath) -> int { bi(n.index) }

impl NodePath {
//@ note NodePath::new: a negative number stands for the atom that encodes it, read unsigned (the path the consensus evaluator follows for that atom)
//@ extract fn new from src/classic/clvm_tools/node_path.rs in impl NodePath
//@ sigfile r contracts/nodepath_new.sig
//@ before stmt @<NodePath { index: unsigned }>@
                    proof {
                        broadcast use axiom_signed_unique;
                        lemma_be_bounds(bv(bytes_repr));
                    }
//@ end
//@ extract fn as_path from src/classic/clvm_tools/node_path.rs in impl NodePath
//@ sigfile r contracts/nodepath_as_path.sig
//@ end
//@ extract fn add from src/classic/clvm_tools/node_path.rs in impl NodePath
//@ sigfile r contracts/nodepath_add.sig
//@ before stmt @<NodePath::new(Some(composed_path))>@
        proof { lemma_plen_bounds(np(*self)); lemma_pow2_pos(plen(np(*self))); assert(compose(np(*self), np(other_node)) >= 0) by(nonlinear_arith)
            requires np(other_node) >= 1, pow2(plen(np(*self))) > 0, np(*self) >= pow2(plen(np(*self))), compose(np(*self), np(other_node)) == np(other_node) * (pow2(plen(np(*self))) as int) + (np(*self) - (pow2(plen(np(*self))) as int)); }
//@ end
//@ extract fn first from src/classic/clvm_tools/node_path.rs in impl NodePath
//@ sigfile r contracts/nodepath_first.sig
//@ end
//@ extract fn rest from src/classic/clvm_tools/node_path.rs in impl NodePath
//@ sigfile r contracts/nodepath_rest.sig
//@ end
}

//@ note path_number_from_u8 (classic optimiser): a path atom is read unsigned
//@ extract fn path_number_from_u8 from src/classic/clvm_tools/stages/stage_2/optimize.rs
//@ sig r
    requires v@.len() * 8 <= usize::MAX
    ensures bi(r) == be_unsigned(v@)
//@ end

// C04 / path_optimizer's rule "(f N) => path": composing atom path p with first (2) / rest (3)
// gives the path "follow p, then first / rest" -- lemma over the contracts above
pub proof fn lemma_first_rest_of_path(p: int)
    requires p >= 1
    ensures compose(p, 2) == 2 * (pow2(plen(p)) as int) + (p - (pow2(plen(p)) as int)),
            compose(p, 3) == 3 * (pow2(plen(p)) as int) + (p - (pow2(plen(p)) as int)),
            compose(1, 2) == 2, compose(1, 3) == 3,
{
    lemma2_to64();
    assert(plen(1) == 0);
}
}
fn main() {}
