#![feature(allocator_api)]
#![allow(unused_imports, dead_code, unused_variables, unused_mut, unused_parens)]
use vstd::prelude::*;
use std::rc::Rc;
use std::borrow::Borrow;

verus! {
global size_of usize == 8;
//@ include prelude/misc.rs
//@ include prelude/rc.rs
//@ include prelude/bigint.rs
//@ extract struct Until from src/compiler/srcloc.rs
//@ derives
//@ end
//@ extract struct Srcloc from src/compiler/srcloc.rs
//@ derives
//@ end
//@ include spec/srcloc.rs
//@ extract enum SExp from src/compiler/sexp.rs
//@ derives
//@ end
//@ extract enum SExpParseState from src/compiler/sexp.rs
//@ replace R28 @<enum SExpParseState {>@ => @<pub enum SExpParseState {>@
//@ end
//@ extract enum SExpParseResult from src/compiler/sexp.rs
//@ replace R28 @<enum SExpParseResult {>@ => @<pub enum SExpParseResult {>@
//@ end

impl SExp {
//@ extract fn loc from src/compiler/sexp.rs in impl SExp
//@ sig r
    ensures r == (match *self { SExp::Nil(l) => l, SExp::Cons(l, _, _) => l, SExp::Integer(l, _) => l, SExp::QuotedString(l, _, _) => l, SExp::Atom(l, _) => l })
//@ end
}
pub open spec fn sloc(s: SExp) -> Srcloc { match s { SExp::Nil(l) => l, SExp::Cons(l, _, _) => l, SExp::Integer(l, _) => l, SExp::QuotedString(l, _, _) => l, SExp::Atom(l, _) => l } }

impl Srcloc {
// proved in unit `srcloc` (same contract)
//@ extract fn ext from src/compiler/srcloc.rs in impl Srcloc
//@ stub
//@ sigfile r contracts/srcloc_ext.sig
//@ end
// proved in unit `srcloc` (same contract)
//@ extract fn advance from src/compiler/srcloc.rs in impl Srcloc
//@ stub
//@ sig r
    requires self.col < usize::MAX - 8, self.line < usize::MAX
    ensures r.file == self.file, r.until == self.until,
        sstart(r) == advance_pos(sstart(*self), ch),
//@ end
}

// the per-character transition function (300 lines of state machine) is abstract here
pub uninterp spec fn step_spec(loc: Srcloc, st: SExpParseState, ch: u8) -> SExpParseResult;
//@ extract fn parse_sexp_step from src/compiler/sexp.rs
//@ stub
//@ sig r
    ensures r == step_spec(loc, *current_state, this_char)
//@ end
//@ extract fn make_atom from src/compiler/sexp.rs
//@ stub
//@ end

//@ note make_cons: the location given to a cons cell built by the reader starts at the earlier of its two children and never reaches beyond the later end of the two (same file), so a list's location stays within the text spanned by its elements
//@ extract fn make_cons from src/compiler/sexp.rs
//@ canary loc_of_tail_only @<a.loc().ext(&b.loc())>@ => @<b.loc().ext(&b.loc())>@
//@ sig r
    requires sloc(*a).col < usize::MAX, sloc(*b).col < usize::MAX
    ensures r matches SExp::Cons(l, ra, rb) && ra == a && rb == b
        && (sloc(*b).file == sloc(*a).file ==> sstart(l) == pmin(sstart(sloc(*a)), sstart(sloc(*b))) && ple(send(l), pmax(send(sloc(*a)), send(sloc(*b)))))
        && (sloc(*b).file != sloc(*a).file ==> l == sloc(*a)),
//@ end

//@ extract struct ParsePartialResult from src/compiler/sexp.rs
//@ end
pub closed spec fn ppr_loc(p: ParsePartialResult) -> Srcloc { p.srcloc }
pub closed spec fn ppr_state(p: ParsePartialResult) -> SExpParseState { p.parse_state }
pub closed spec fn ppr_res(p: ParsePartialResult) -> Seq<Rc<SExp>> { p.res@ }

impl ParsePartialResult {
//@ extract fn new from src/compiler/sexp.rs in impl ParsePartialResult
//@ replace R27 @<res: Default::default(),>@ => @<res: Vec::new(),>@
//@ sig r
    ensures ppr_loc(r) == srcloc, ppr_state(r) is Empty, ppr_res(r) == Seq::<Rc<SExp>>::empty()
//@ end
//@ note ParsePartialResult::push (byte-at-a-time parsing; parse_sexp_inner is exactly the fold of push over the input): the transition function is called with the location OF the byte being consumed, and the cursor advances by exactly that byte on every non-error step; emitted forms are appended in order
//@ extract fn push from src/compiler/sexp.rs in impl ParsePartialResult
//@ canary advance_first @<match parse_sexp_step(self.srcloc.clone(), &self.parse_state, this_char) {>@ => @<match parse_sexp_step(next_location.clone(), &self.parse_state, this_char) {>@
//@ sig r
    requires ppr_loc(*old(self)).col < usize::MAX - 8, ppr_loc(*old(self)).line < usize::MAX
    ensures match step_spec(ppr_loc(*old(self)), ppr_state(*old(self)), this_char) {
        SExpParseResult::Error(l, e) => r == Err::<(), (Srcloc, String)>((l, e)) && *final(self) == *old(self),
        SExpParseResult::Resume(st) => r is Ok && ppr_state(*final(self)) == st && ppr_res(*final(self)) == ppr_res(*old(self))
            && ppr_loc(*final(self)).file == ppr_loc(*old(self)).file && ppr_loc(*final(self)).until == ppr_loc(*old(self)).until
            && sstart(ppr_loc(*final(self))) == advance_pos(sstart(ppr_loc(*old(self))), this_char),
        SExpParseResult::Emit(o, st) => r is Ok && ppr_state(*final(self)) == st && ppr_res(*final(self)) == ppr_res(*old(self)).push(o)
            && ppr_loc(*final(self)).file == ppr_loc(*old(self)).file && ppr_loc(*final(self)).until == ppr_loc(*old(self)).until
            && sstart(ppr_loc(*final(self))) == advance_pos(sstart(ppr_loc(*old(self))), this_char),
    }
//@ end
}
}
fn main() {}
