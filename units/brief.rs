#![feature(allocator_api)]
#![allow(unused_imports, dead_code, unused_variables, unused_mut, unused_parens)]
use vstd::prelude::*;
use vstd::arithmetic::power2::*;
use std::rc::Rc;
use std::borrow::Borrow;

verus! {
//@ include prelude/bigint.rs
//@ include spec/paths.rs
//@ include spec/bytes.rs
//@ include prelude/misc.rs
//@ include prelude/bigint_bytes.rs
//@ include prelude/rc.rs
//@ include prelude/std.rs
//@ include units/inc/sexp_types.rs
//@ include spec/eval.rs
broadcast use {num_bigint::of_int_bi, num_bigint::bi_of_int};
pub open spec fn tv(s: SExp) -> Tree { tree_of(true, s) }
pub open spec fn tvr(s: &SExp) -> Tree { tv(*s) }
//@ include units/inc/codewf.rs

//@ extract fn bi_one from src/classic/clvm/__type_compatibility__.rs
//@ stub
//@ replace R41 @<-> Number>@ => @<-> num_bigint::BigInt>@
//@ sig r
    ensures bi(r) == 1
//@ end
// proved in unit `paths` (same contract text)
//@ extract fn compose_paths from src/classic/clvm_tools/node_path.rs
//@ stub
//@ replace all R41 @<Number>@ => @<num_bigint::BigInt>@
//@ sigfile r contracts/compose_paths.sig
//@ end

// a proper list and its elements
pub open spec fn proper(t: Tree) -> Option<Seq<Tree>>
    decreases t
{
    match t {
        Tree::Atom(a) => if a.len() == 0 { Some(Seq::<Tree>::empty()) } else { None },
        Tree::Pair(h, r) => match proper(*r) { Some(s) => Some(seq![*h] + s), None => None },
    }
}
//@ include units/inc/sproper.rs
impl SExp {
// proved in unit `nullopt`
//@ extract fn atomize from src/compiler/sexp.rs in impl SExp
//@ stub
//@ sig r
    ensures match *self {
        SExp::Integer(l, i) => r matches SExp::Atom(_, v) && v@ == u8n(bi(i)),
        SExp::QuotedString(l, _, a) => r matches SExp::Atom(_, v) && v@ == a@,
        _ => r == *self,
    }
//@ end
// proved in unit `stepper` (same contract text)
//@ extract fn proper_list from src/compiler/sexp.rs in impl SExp
//@ stub
//@ sigfile r contracts/sexp_proper_list.sig
//@ end
}

pub proof fn lemma_small_atom(i: int, k: u8)
    requires 1 <= k <= 0x7f
    ensures (u8n(i) == seq![k]) == (i == k as int)
{
    lemma_be_single(k);
    assert(be_signed(seq![k]) == k as int);
    axiom_signed_unique(seq![k]);
    if i != 0 { axiom_signed_bytes(i); }
    if u8n(i) == seq![k] { if i == 0 { assert(u8n(0)[0] == 0u8); } else { assert(be_signed(signed_bytes(i)) == i); } }
}
pub proof fn lemma_atomized_is_op(a: &SExp, n: Seq<u8>, k: u8)
    requires 1 <= k <= 0x7f, match *a { SExp::Integer(_, i) => n == u8n(bi(i)), SExp::QuotedString(_, _, v) => n == v@, SExp::Atom(_, v) => n == v@, _ => false }
    ensures (n.len() == 1 && n[0] == k) == is_op(tv(*a), k)
{
    match *a {
        SExp::Integer(_, i) => { lemma_small_atom(bi(i), k); if n.len() == 1 && n[0] == k { assert(n =~= seq![k]); } if bi(i) == 0 { assert(u8n(0)[0] == 0u8); assert(tv(*a) == tnil()); assert(tnil() != Tree::Atom(seq![k])) by { assert(seq![k].len() == 1); } } }
        _ => { if n.len() == 1 && n[0] == k { assert(n =~= seq![k]); } }
    }
}
//@ extract fn is_quote_atom from src/compiler/optimize/brief.rs
//@ sig r
    ensures r == is_op(tv(*a), 1)
//@ before stmt @<return n.len() == 1 && n[0] == 1;>@
        proof { lemma_atomized_is_op(a, n@, 1); }
//@ before tail
    proof { assert(tnil() != Tree::Atom(seq![1u8])) by { assert(seq![1u8].len() == 1); } }
//@ end
//@ extract fn is_first_atom from src/compiler/optimize/brief.rs
//@ sig r
    ensures r == is_op(tv(*a), 5)
//@ before stmt @<return n.len() == 1 && n[0] == 5;>@
        proof { lemma_atomized_is_op(a, n@, 5); }
//@ before tail
    proof { assert(tnil() != Tree::Atom(seq![5u8])) by { assert(seq![5u8].len() == 1); } }
//@ end
//@ extract fn is_rest_atom from src/compiler/optimize/brief.rs
//@ sig r
    ensures r == is_op(tv(*a), 6)
//@ before stmt @<return n.len() == 1 && n[0] == 6;>@
        proof { lemma_atomized_is_op(a, n@, 6); }
//@ before tail
    proof { assert(tnil() != Tree::Atom(seq![6u8])) by { assert(seq![6u8].len() == 1); } }
//@ end

// following p and then q is following compose(p, q)
pub open spec fn then_path(q: int, v: Option<Tree>) -> Option<Tree> { match v { Some(t) => tree_path(q, t), None => None } }
pub proof fn lemma_compose_path(p: int, q: int, t: Tree)
    requires p >= 1, q >= 1
    ensures tree_path(compose(p, q), t) == then_path(q, tree_path(p, t))
    decreases p
{
    lemma2_to64();
    reveal_with_fuel(tree_path, 2);
    if p == 1 {
        assert(plen(1) == 0);
        assert(pow2(0) == 1);
        assert(q * 1 == q);
        assert(compose(1, q) == q);
    } else {
        lemma_plen_bounds(p); lemma_plen_bounds(p / 2);
        lemma_pow2_unfold(plen(p));
        let h = pow2(plen(p / 2)) as int;
        assert(plen(p) == 1 + plen(p / 2));
        assert(pow2(plen(p)) as int == 2 * h);
        assert(compose(p, q) == q * (2 * h) + (p - 2 * h));
        assert(compose(p / 2, q) == q * h + (p / 2 - h));
        assert(q * (2 * h) == 2 * (q * h)) by(nonlinear_arith);
        assert(compose(p, q) % 2 == p % 2 && compose(p, q) / 2 == compose(p / 2, q));
        assert(q * h >= h) by(nonlinear_arith) requires q >= 1, h >= 1;
        assert(compose(p, q) >= 2);
        match t {
            Tree::Pair(a, b) => { if p % 2 == 0 { lemma_compose_path(p / 2, q, *a); } else { lemma_compose_path(p / 2, q, *b); } }
            Tree::Atom(_) => {}
        }
    }
}
// one more first / rest step applied AFTER the steps q: (f x) / (r x) where x is reached by q
pub proof fn lemma_outer_step(q: int, v: Tree)
    requires q >= 1
    ensures tree_path(compose(q, 2), v) == sub_first(tree_path(q, v)), tree_path(compose(q, 3), v) == sub_rest(tree_path(q, v))
{
    lemma_compose_path(q, 2, v); lemma_compose_path(q, 3, v);
    reveal_with_fuel(tree_path, 3);
    match tree_path(q, v) { Some(t) => { match t { Tree::Pair(a, b) => { assert(tree_path(2, t) == Some(*a)); assert(tree_path(3, t) == Some(*b)); } Tree::Atom(_) => {} } } None => {} }
}

// a positive integer's atom, read as a path (unsigned), is that integer
pub proof fn lemma_pos_int_path(i: int)
    requires i >= 1
    ensures be_unsigned(u8n(i)) == i
{
    axiom_signed_bytes(i);
    let s = signed_bytes(i);
    assert(be_signed(s) == i);
    if s.len() == 0 { } else {
        lemma_be_bounds(s);
        lemma_pow2_pos((8 * s.len()) as nat);
        if s[0] >= 0x80 { assert(be_signed(s) < 0); }
    }
}
// a two-element list (cmd arg)
pub proof fn lemma_sproper_two(s: &SExp)
    requires sproper(*s) matches Some(x) && x.len() == 2
    ensures ({ let x = sproper(*s)->Some_0; tv(*s) == Tree::Pair(Box::new(tv(x[0])), Box::new(Tree::Pair(Box::new(tv(x[1])), Box::new(tnil())))) && tsize(tv(x[1])) < tsize(tv(*s))
        && (cexpr(*s) && !is_op(tv(x[0]), 1) ==> cexpr(x[1])) && (cshape(*s) && !is_op(tv(x[0]), 1) ==> cshape(x[1])) })
{
    reveal_with_fuel(sproper, 4); reveal_with_fuel(clist, 3); reveal_with_fuel(clshape, 3); reveal_with_fuel(tsize, 3);
    assert(tv(*s) != tnil());
    match s {
        SExp::Cons(_, h, r) => {
            assert(sproper(*s) == (match sproper(**r) { Some(x) => Some(seq![**h] + x), None => None }));
            let x1 = sproper_r(&**r)->Some_0;
            assert(x1.len() == 1);
            assert(tvr(&**r) != tnil()) by { if tvr(&**r) == tnil() { assert(sproper(**r) == Some(Seq::<SExp>::empty())); } }
            match &**r {
                SExp::Cons(_, h2, r2) => {
                    assert(sproper(**r) == (match sproper(**r2) { Some(x) => Some(seq![**h2] + x), None => None }));
                    let x2 = sproper_r(&**r2)->Some_0;
                    assert(x2.len() == 0);
                    assert(tvr(&**r2) == tnil()) by { if tvr(&**r2) != tnil() { match &**r2 { SExp::Cons(_, h3, r3) => { assert(sproper(**r2) == (match sproper(**r3) { Some(x) => Some(seq![**h3] + x), None => None })); } _ => {} } } }
                    assert(x2 =~= Seq::<SExp>::empty());
                    assert(x1 =~= seq![**h2]);
                    assert(sproper(*s)->Some_0 =~= seq![**h, **h2]);
                    assert(tv(*s) == Tree::Pair(Box::new(tv(**h)), Box::new(Tree::Pair(Box::new(tv(**h2)), Box::new(tv(**r2))))));
                }
                _ => {}
            }
        }
        _ => {}
    }
}
pub open spec fn verif_inv(t0: Tree, tb: Tree, target: int) -> bool { forall|env: Tree| #[trigger] eval(t0, env) == then_path(target, eval(tb, env)) }
pub proof fn lemma_step(t0: Tree, tb: Tree, tcmd: Tree, targ: Tree, target: int)
    requires verif_inv(t0, tb, target), target >= 1, tb == Tree::Pair(Box::new(tcmd), Box::new(Tree::Pair(Box::new(targ), Box::new(tnil())))),
    ensures is_op(tcmd, 5) ==> verif_inv(t0, targ, 2 * target), is_op(tcmd, 6) ==> verif_inv(t0, targ, 2 * target + 1),
{
    broadcast use {axiom_first_rest, axiom_proper_list_end};
    reveal_with_fuel(tree_path, 2);
    assert(seq![5u8] != seq![1u8]) by { assert(seq![5u8][0] != seq![1u8][0]); }
    assert(seq![6u8] != seq![1u8]) by { assert(seq![6u8][0] != seq![1u8][0]); }
    assert(seq![5u8] != seq![6u8]) by { assert(seq![5u8][0] != seq![6u8][0]); }
    if is_op(tcmd, 5) || is_op(tcmd, 6) {
        let first = is_op(tcmd, 5);
        let k = if first { 2 * target } else { 2 * target + 1 };
        assert(k >= 2 && k / 2 == target && (k % 2 == 0) == first);
        assert forall|env: Tree| #[trigger] eval(t0, env) == then_path(k, eval(targ, env)) by {
            assert(eval(t0, env) == then_path(target, eval(tb, env)));
            assert(tcmd != quote_atom());
            let x = eval(targ, env);
            let ops = eval_list(Tree::Pair(Box::new(targ), Box::new(tnil())), env);
            assert(eval_list(tnil(), env) == list_end(Seq::<u8>::empty()));
            assert(ops =~= seq![x]);
            assert(eval(tb, env) == op_apply(tcmd, ops));
            if first { assert(op_apply(Tree::Atom(seq![5u8]), seq![x]) == sub_first(x)); assert(eval(tb, env) == sub_first(x)); }
            else { assert(op_apply(Tree::Atom(seq![6u8]), seq![x]) == sub_rest(x)); assert(eval(tb, env) == sub_rest(x)); }
            match x {
                Some(v) => { match v {
                    Tree::Pair(a, b) => { assert(tree_path(k, v) == (if first { tree_path(target, *a) } else { tree_path(target, *b) })); }
                    Tree::Atom(_) => { assert(tree_path(k, v) is None); }
                } }
                None => {}
            }
        }
    }
}
//@ note brief_path_selection_single (cl23+): a chain (f (r (f ... N))) over a number N is replaced by the single path that the chain selects when N >= 1 and left alone otherwise (finding F43): the result has the same value in every environment, for numbers of any sign
//@ extract fn brief_path_selection_single from src/compiler/optimize/brief.rs
//@ canary rest_as_first @<if !is_first {>@ => @<if is_first {>@
//@ canary numbers_below_one_composed @<SExp::Integer(_l, i) if *i >= bi_one() => Some(i.clone()),>@ => @<SExp::Integer(_l, i) => Some(i.clone()),>@
//@ replace R48 @<while let Some(lst) = body.proper_list() {>@ => @<loop invariant verif_inv(verif_t0, tv(*body), bi(target_path)), bi(target_path) >= 1, found_stack as int + tsize(tv(*body)) <= tsize(verif_t0), 0 <= found_stack, tsize(verif_t0) < 0x7fffffff, (found_stack > 0 || body == orig_body), verif_t0 == tv(*orig_body), (*body is Cons || found_stack > 0) ==> cshape_r(&*body), found_stack > 0 ==> *orig_body is Cons decreases tsize(tv(*body)) { let verif_pl = body.proper_list(); if verif_pl.is_none() { break; } let lst = verif_pl.unwrap();>@
//@ replace R49 @<if let [cmd, arg] = &lst[..] {>@ => @<if lst.len() == 2 { let cmd = &lst[0]; let arg = &lst[1]; proof { lemma_sproper_two(&*body); lemma_step(verif_t0, tvr(&*body), tvr(cmd), tvr(arg), bi(target_path)); }>@
//@ sig r
    requires tsize(tv(*body)) < 0x7fffffff, *body is Cons ==> cshape(*body)
    ensures r.0 ==> same_value(tv(*r.1), tv(*body)) && *body is Cons, !r.0 ==> r.1 == body
//@ after stmt @<let mut target_path = bi_one();>@
    let ghost verif_t0 = tvr(&*body);
    proof { reveal_with_fuel(tree_path, 2); assert forall|env: Tree| #[trigger] eval(verif_t0, env) == then_path(1, eval(verif_t0, env)) by {} }
//@ after stmt @<let final_path = compose_paths(&i, &target_path);>@
            proof {
                broadcast use axiom_path_lookup;
                lemma_pos_int_path(bi(i));
                lemma_compose_ge1b(bi(i), bi(target_path));
                lemma_pos_int_path(bi(final_path));
                assert forall|env: Tree| #[trigger] eval(Tree::Atom(u8n(bi(final_path))), env) == eval(verif_t0, env) by {
                    lemma_compose_path(bi(i), bi(target_path), env);
                    assert(eval(tv(*body), env) == tree_path(bi(i), env));
                }
            }
//@ end
pub proof fn lemma_compose_ge1b(p: int, q: int)
    requires p >= 1, q >= 1
    ensures compose(p, q) >= 1
{
    lemma_plen_bounds(p); lemma_pow2_pos(plen(p));
    assert(compose(p, q) >= 1) by(nonlinear_arith) requires q >= 1, pow2(plen(p)) > 0, p >= pow2(plen(p)), compose(p, q) == q * (pow2(plen(p)) as int) + (p - (pow2(plen(p)) as int));
}

// the tree of the list x[from..]
pub open spec fn list_tree(x: Seq<SExp>, from: int) -> Tree
    decreases x.len() - from
{
    if from < 0 || from >= x.len() { tnil() } else { Tree::Pair(Box::new(tv(x[from])), Box::new(list_tree(x, from + 1))) }
}
pub proof fn lemma_sproper_tree(s: &SExp)
    requires sproper(*s) is Some
    ensures tv(*s) == list_tree(sproper(*s)->Some_0, 0),
        forall|k: int| 0 <= k < sproper(*s)->Some_0.len() ==> tsize(tv(#[trigger] sproper(*s)->Some_0[k])) < tsize(tv(*s)),
        cexpr(*s) && sproper(*s)->Some_0.len() >= 1 && !is_op(tv(sproper(*s)->Some_0[0]), 1) ==> !(sproper(*s)->Some_0[0] is Cons) && forall|k: int| 1 <= k < sproper(*s)->Some_0.len() ==> cexpr(#[trigger] sproper(*s)->Some_0[k]),
    decreases *s
{
    lemma_sproper_suffix(s, true);
}
// (generalised over list-spine positions)
pub proof fn lemma_sproper_suffix(s: &SExp, top: bool)
    requires sproper(*s) is Some
    ensures tv(*s) == list_tree(sproper(*s)->Some_0, 0),
        forall|k: int| 0 <= k < sproper(*s)->Some_0.len() ==> tsize(tv(#[trigger] sproper(*s)->Some_0[k])) < tsize(tv(*s)),
        clist(*s) ==> forall|k: int| 0 <= k < sproper(*s)->Some_0.len() ==> cexpr(#[trigger] sproper(*s)->Some_0[k]),
        top && cexpr(*s) && sproper(*s)->Some_0.len() >= 1 && !is_op(tv(sproper(*s)->Some_0[0]), 1) ==> !(sproper(*s)->Some_0[0] is Cons) && forall|k: int| 1 <= k < sproper(*s)->Some_0.len() ==> cexpr(#[trigger] sproper(*s)->Some_0[k]),
    decreases *s
{
    let x = sproper(*s)->Some_0;
    if tv(*s) == tnil() {
        assert(x =~= Seq::<SExp>::empty());
    } else {
        match s {
            SExp::Cons(_, h, r) => {
                lemma_sproper_suffix(&**r, false);
                let x1 = sproper_r(&**r)->Some_0;
                assert(x =~= seq![**h] + x1);
                assert(tv(*s) == Tree::Pair(Box::new(tv(**h)), Box::new(tv(**r))));
                lemma_list_tree_shift(&**h, x1, 0);
                assert(list_tree(x, 0) == Tree::Pair(Box::new(tv(x[0])), Box::new(list_tree(x, 1))));
                assert forall|k: int| 0 <= k < x.len() implies tsize(tv(#[trigger] x[k])) < tsize(tv(*s)) by { if k > 0 { assert(x[k] == x1[k - 1]); } }
                if clist(*s) { assert forall|k: int| 0 <= k < x.len() implies cexpr(#[trigger] x[k]) by { if k > 0 { assert(x[k] == x1[k - 1]); } } }
                if top && cexpr(*s) && !is_op(tv(x[0]), 1) { assert forall|k: int| 1 <= k < x.len() implies cexpr(#[trigger] x[k]) by { assert(x[k] == x1[k - 1]); } }
            }
            _ => {}
        }
    }
}
pub proof fn lemma_list_tree_shift(h: &SExp, x1: Seq<SExp>, from: int)
    requires from >= 0
    ensures list_tree(seq![*h] + x1, from + 1) == list_tree(x1, from)
    decreases x1.len() - from
{
    let x = seq![*h] + x1;
    if from < x1.len() { assert(x[from + 1] == x1[from]); lemma_list_tree_shift(h, x1, from + 1); }
}
pub open spec fn rebuilt_ok(e: Tree, x: Seq<SExp>, i: int) -> bool {
    same_operands(e, list_tree(x, i))
    && (i == 0 && x.len() >= 1 ==> (e matches Tree::Pair(h, t) && *h == tv(x[0]) && same_operands(*t, list_tree(x, 1))))
}

//@ note brief_path_selection (cl23+ path shortening, recursive over every evaluated position): the result has the same value as the code it was given, in every environment
//@ extract fn brief_path_selection from src/compiler/optimize/brief.rs
//@ canary rebuild_drops_head @<end = Rc::new(SExp::Cons(body.loc(), a, end));>@ => @<if verif_i > 0 { end = Rc::new(SExp::Cons(body.loc(), a, end)); }>@
//@ replace R45 @<for f in lst.iter().rev() {>@ => @<let mut verif_i: usize = lst.len(); while verif_i > 0 invariant verif_i <= lst.len(), lst@ == verif_x, verif_x.len() >= 2, rebuilt_ok(tv(*end), verif_x, verif_i as int), forall|k: int| 1 <= k < verif_x.len() ==> cexpr(#[trigger] verif_x[k]), !(verif_x[0] is Cons), forall|k: int| 0 <= k < verif_x.len() ==> tsize(tv(#[trigger] verif_x[k])) < tsize(tv(*body)), tsize(tv(*body)) < 0x7fffffff decreases verif_i { verif_i = verif_i - 1; let f = &lst[verif_i]; let ghost verif_end0 = tvr(&*end);>@
//@ sigfile r contracts/brief_path_selection.sig
    decreases tsize(tv(*body))
//@ before stmt @<let (changed, new_body) = brief_path_selection_single(body.clone());>@
    proof { lemma_cexpr_shape(&*body); }
//@ before stmt @<let mut end = Rc::new(SExp::Nil(body.loc()));>@
        let ghost verif_x = lst@;
        proof { lemma_sproper_tree(&*body); }
//@ after stmt @<let mut end = Rc::new(SExp::Nil(body.loc()));>@
        proof { assert(list_tree(verif_x, verif_x.len() as int) == tnil()); }
//@ after stmt @<end = Rc::new(SExp::Cons(body.loc(), a, end));>@
            proof { lemma_rebuild_step(verif_end0, tvr(&*a), verif_x, verif_i as int, tvr(&*end)); }
//@ before stmt @<return (updated, end);>@
        proof { lemma_rebuilt_value(tvr(&*end), verif_x, tvr(&*body)); }
//@ end
pub proof fn lemma_rebuild_step(end0: Tree, a: Tree, x: Seq<SExp>, i: int, end1: Tree)
    requires 0 <= i < x.len(), rebuilt_ok(end0, x, i + 1), end1 == Tree::Pair(Box::new(a), Box::new(end0)), same_value(a, tv(x[i])), i == 0 ==> a == tv(x[0])
    ensures rebuilt_ok(end1, x, i)
{
    assert forall|env: Tree| #[trigger] eval_list(end1, env) == eval_list(list_tree(x, i), env) by {
        assert(eval_list(end0, env) == eval_list(list_tree(x, i + 1), env));
        assert(eval(a, env) == eval(tv(x[i]), env));
    }
}
pub proof fn lemma_rebuilt_value(e: Tree, x: Seq<SExp>, body: Tree)
    requires x.len() >= 1, rebuilt_ok(e, x, 0), body == list_tree(x, 0), !is_op(tv(x[0]), 1)
    ensures same_value(e, body)
{
    match e {
        Tree::Pair(h, t) => {
            assert forall|env: Tree| #[trigger] eval(e, env) == eval(body, env) by {
                assert(eval_list(*t, env) == eval_list(list_tree(x, 1), env));
            }
        }
        _ => {}
    }
}
}
fn main() {}
