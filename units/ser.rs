#![feature(allocator_api)]
#![allow(unused_imports, dead_code, unused_variables, unused_mut, unused_parens)]
use vstd::prelude::*;
use vstd::arithmetic::power2::*;

verus! {
//@ include spec/bytes.rs
//@ include spec/ser.rs
//@ include prelude/misc.rs
//@ include prelude/clvmr.rs
//@ include prelude/allocator.rs
//@ include prelude/std.rs
//@ include units/inc/bytes.rs
//@ include units/inc/int_from_bytes.rs

//@ extract const MAX_SINGLE_BYTE from src/classic/clvm/serialize.rs
//@ end

//@ note atom_size_blob: postcondition is the clvmr write_atom prefix table (size_prefix); flag tells the caller to append the atom bytes
//@ extract fn atom_size_blob from src/classic/clvm/serialize.rs
//@ canary wrong_shift @<((size >> 16) & 0xFF) as u8,>@ => @<((size >> 8) & 0xFF) as u8,>@
//@ replace R1 @<format!("oversize bytes is unrepresentable {size:?}")>@ => @<verif_opaque_string()>@
//@ sigfile r contracts/atom_size_blob.sig
//@ before stmt @<if size < 0x40>@
    let ghost n = size as u64;
    proof {
        assert(0 <= size < 0x40 ==> (0x80u8 | (size as u8)) == (0x80u64 | (size as u64)) as u8) by(bit_vector);
        assert(0x40 <= size < 0x2000 ==> (0xC0u8 | ((size >> 8) as u8)) == (0xC0u64 | ((size as u64) >> 8)) as u8 && ((size & 0xFF) as u8) == ((size as u64) & 0xff) as u8) by(bit_vector);
        assert(0x2000 <= size < 0x100000 ==> (0xE0u8 | ((size >> 16) as u8)) == (0xE0u64 | ((size as u64) >> 16)) as u8 && (((size >> 8) & 0xFF) as u8) == (((size as u64) >> 8) & 0xff) as u8 && ((size & 0xFF) as u8) == ((size as u64) & 0xff) as u8) by(bit_vector);
        assert(0x100000 <= size < 0x8000000 ==> (0xF0u8 | ((size >> 24) as u8)) == (0xF0u64 | ((size as u64) >> 24)) as u8 && (((size >> 16) & 0xFF) as u8) == (((size as u64) >> 16) & 0xff) as u8 && (((size >> 8) & 0xFF) as u8) == (((size as u64) >> 8) & 0xff) as u8 && ((size & 0xFF) as u8) == ((size as u64) & 0xff) as u8) by(bit_vector);
        assert(0x8000000 <= size < 0x400000000 ==> (0xF8u8 | ((size / 0x100000000i64) as u8)) == (0xF8u64 | ((size as u64) >> 32)) as u8 && (((size >> 24) & 0xFF) as u8) == (((size as u64) >> 24) & 0xff) as u8 && (((size >> 16) & 0xFF) as u8) == (((size as u64) >> 16) & 0xff) as u8 && (((size >> 8) & 0xFF) as u8) == (((size as u64) >> 8) & 0xff) as u8 && ((size & 0xFF) as u8) == ((size as u64) & 0xff) as u8) by(bit_vector);
    }
//@ end

//@ include units/inc/stream.rs
impl Stream {
//@ note Stream::read: returns min(size, remaining) bytes from the cursor and advances by that many; nothing else changes
//@ extract fn read from src/classic/clvm/__type_compatibility__.rs in impl Stream
//@ canary off_by_one @<self.buffer[self.seek + i]>@ => @<self.buffer[self.seek + i - (if i > 0 { 1 } else { 0 })]>@
//@ sigfile r contracts/stream_read.sig
//@ after stmt @<let mut u8>@
        let ghost s0 = *self;
//@ loop 0
            invariant
                *self == s0, stream_wf(s0), s0.seek + size <= s0.length,
                u8@ == s0.buffer@.subrange(s0.seek as int, s0.seek + i),
//@ end
}

//@ note atom_from_stream: postcondition is dec_atom (transcribed from clvmr parse_atom.rs): Ok only with the atom the consensus decoder returns; every input the consensus decoder rejects is rejected
//@ extract fn atom_from_stream from src/classic/clvm/serialize.rs
//@ canary skip_length_check @<if blob.length() != size as usize {>@ => @<if blob.length() > size as usize {>@
//@ replace all R1 @<"bad encoding".to_string()>@ => @<verif_opaque_string()>@
//@ replace R1 @<"blob too large".to_string()>@ => @<verif_opaque_string()>@
//@ replace R10 @<<'a>(>@ => @<(>@
//@ replace R10 @<allocator: &'a mut Allocator,>@ => @<allocator: &mut Allocator,>@
//@ replace R10 @<_to_sexp_f: Box<dyn TToSexpF<'a>>,>@ => @<_to_sexp_f: u8,>@
//@ replace R4 @<int_from_bytes(size_blob, None).and_then(|size| {>@ => @<match int_from_bytes(size_blob, None) { Err(e) => Err(e), Ok(size) => {>@
//@ replace-block R4
        allocator.new_atom(blob.data())
    })
//@ with
        allocator.new_atom(blob.data())
    }}
//@ sigfile r contracts/atom_from_stream.sig
//@ before stmt @<if b == 0x80>@
    proof { broadcast use axiom_nil_is_empty_atom; }
    let ghost rest0 = stream_rest(*f);
//@ loop 0
        invariant
            bit_count <= 8, bit_count <= lead_ones(b_),
            bit_mask == top_bit(bit_count as int),
            b == b_ & low_mask(bit_count as int),
            b_ > 0x7f,
        decreases 8 - bit_count
//@ before stmt @<bit_count += 1>@
        proof { lemma_lead_step(b_, b, bit_mask, bit_count as u8); }
//@ before stmt @<while (b & bit_mask)>@
    proof { assert(b_ & 0xff == b_) by(bit_vector); }
//@ before stmt @<let mut size_blob>@
    proof { lemma_lead_step(b_, b, bit_mask, bit_count as u8); assert(bit_count == lead_ones(b_)); }
//@ before tail
    proof {
        assert(bv(size_blob) =~= seq![b] + rest0.subrange(0, bit_count - 1));
        lemma_be_bounds(bv(size_blob));
    }
//@ end
}
fn main() {}
