// Shared (units serloop, irwrite): Stream with its write-side view
//@ extract const BUF_ALLOC_MULTIPLIER from src/classic/clvm/__type_compatibility__.rs
//@ end
//@ extract struct Stream from src/classic/clvm/__type_compatibility__.rs
//@ end
// the stream holds exactly its buffer; the write cursor of a stream that is only written to is at its end
pub closed spec fn stream_data(s: Stream) -> Seq<u8> { s.buffer@ }
pub closed spec fn stream_wf(s: Stream) -> bool { s.length == s.buffer@.len() && s.seek <= s.length }
pub closed spec fn stream_seek(s: Stream) -> int { s.seek as int }
pub closed spec fn stream_at_end(s: Stream) -> bool { s.seek == s.length }

