// Shared: Srcloc / Until / SExp / RunFailure extracted from the repository, with
// trusted structural Clone (R3) and the tree_of view.
//@ extract struct Until from src/compiler/srcloc.rs
//@ derives
//@ end
//@ extract struct Srcloc from src/compiler/srcloc.rs
//@ derives
//@ end
//@ extract enum SExp from src/compiler/sexp.rs
//@ derives
//@ end
//@ extract enum RunFailure from src/compiler/runtypes.rs
//@ end
//@ include spec/tree.rs

impl SExp {
//@ extract fn loc from src/compiler/sexp.rs in impl SExp
//@ sig r
    ensures r == (match *self { SExp::Nil(l) => l, SExp::Cons(l, _, _) => l, SExp::Integer(l, _) => l, SExp::QuotedString(l, _, _) => l, SExp::Atom(l, _) => l })
//@ end
}

// NewStyleIntConversion::setting(): thread-local read, constant during a call (assumed)
#[verifier::external_body]
pub fn verif_int_mode() -> (r: bool) ensures r == int_mode() { unimplemented!() }

//@ extract fn number_from_u8 from src/util/mod.rs
//@ sig r
    ensures bi(r) == be_signed(v@)
//@ end
//@ extract fn u8_from_number from src/util/mod.rs
//@ sig r
    ensures r@ == u8n(bi(v))
//@ before tail
    proof { broadcast use axiom_signed_unique; }
//@ end
