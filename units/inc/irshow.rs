// Shared (units irparse, irwrite): spec view of IR terms and the text the classic writer prints for them
// SPEC view of an IR term (byte strings instead of the Bytes container)
pub enum IRS { Cons(Box<IRS>, Box<IRS>), Null, Quotes(Seq<u8>), Int(Seq<u8>, bool), Hex(Seq<u8>), Symbol(Seq<char>) }
pub open spec fn irv(ir: IRRepr) -> IRS
    decreases ir
{
    match ir {
        IRRepr::Cons(l, r) => IRS::Cons(Box::new(irv(*l)), Box::new(irv(*r))),
        IRRepr::Null => IRS::Null,
        IRRepr::Quotes(b) => IRS::Quotes(bv(b)),
        IRRepr::Int(b, sg) => IRS::Int(bv(b), sg),
        IRRepr::Hex(b) => IRS::Hex(bv(b)),
        IRRepr::Symbol(st) => IRS::Symbol(st@),
    }
}
pub open spec fn irvs(v: Seq<IRRepr>) -> Seq<IRS> { Seq::new(v.len(), |i: int| irv(v[i])) }
// (a b c . tail) from its elements
pub open spec fn enlist_v(items: Seq<IRS>, tail: IRS) -> IRS
    decreases items.len()
{
    if items.len() == 0 { tail } else { enlist_v(items.drop_last(), IRS::Cons(Box::new(items.last()), Box::new(tail))) }
}
pub uninterp spec fn tok(v: IRS) -> Seq<u8>;
pub open spec fn show(v: IRS) -> Seq<u8>
    decreases v, 2int
{
    match v { IRS::Cons(l, r) => seq![0x28u8] + show_list(v), IRS::Null => seq![0x28u8, 0x29u8], _ => tok(v) }
}
pub open spec fn show_list(v: IRS) -> Seq<u8>
    decreases v, 0int
{
    match v { IRS::Cons(l, r) => show(*l) + sep(*r), IRS::Null => seq![0x29u8], _ => seq![0x2eu8, 0x20u8] + tok(v) + seq![0x29u8] }
}
pub open spec fn sep(sub: IRS) -> Seq<u8>
    decreases sub, 1int
{
    match sub { IRS::Null => seq![0x29u8], _ => seq![0x20u8] + show_list(sub) }
}
