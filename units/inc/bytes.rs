// Bytes (classic/clvm/__type_compatibility__.rs): extracted type and accessors, view bv()
//@ extract enum BytesFromType from src/classic/clvm/__type_compatibility__.rs
//@ end
//@ extract struct Bytes from src/classic/clvm/__type_compatibility__.rs
//@ derives
//@ end
pub closed spec fn bv(b: Bytes) -> Seq<u8> { b._b@ }

impl Bytes {
//@ extract fn new from src/classic/clvm/__type_compatibility__.rs in impl Bytes
//@ replace R33 @<for b in bytes {>@ => @<for b in verif_it: bytes invariant bvec@ == verif_it.history@.map_values(|x: &u8| *x) {>@
//@ sig r
    ensures
        value is None ==> bv(r) == Seq::<u8>::empty(),
        value matches Some(BytesFromType::Raw(v)) ==> bv(r) == v@,
        value matches Some(BytesFromType::String(s)) ==> bv(r) == string_bytes(s@),
    decreases (if value matches Some(BytesFromType::String(_)) { 1int } else { 0int })
//@ end
//@ extract fn length from src/classic/clvm/__type_compatibility__.rs in impl Bytes
//@ sig r
    ensures r == bv(*self).len()
//@ end
//@ extract fn at from src/classic/clvm/__type_compatibility__.rs in impl Bytes
//@ sig r
    requires i < bv(*self).len()
    ensures r == bv(*self)[i as int]
//@ end
//@ extract fn raw from src/classic/clvm/__type_compatibility__.rs in impl Bytes
//@ sig r
    ensures r@ == bv(*self)
//@ end
//@ extract fn data from src/classic/clvm/__type_compatibility__.rs in impl Bytes
//@ sig r
    ensures r@ == bv(*self)
//@ end
}
impl Bytes {
//@ extract fn concat from src/classic/clvm/__type_compatibility__.rs in impl Bytes
//@ sig r
    requires bv(*self).len() + bv(*b).len() <= usize::MAX
    ensures bv(r) == bv(*self) + bv(*b)
//@ end
}

