// the reader's scan of the bytes after the opening quote: (string, number of bytes consumed including the closing quote)
pub open spec fn scan(rest: Seq<u8>, q: u8, bs: bool) -> Option<(Seq<u8>, int)>
    decreases rest.len()
{
    if rest.len() == 0 { None } else {
        let c = rest[0];
        let r = rest.subrange(1, rest.len() as int);
        if bs { match scan(r, q, false) { Some((s, n)) => Some((seq![c] + s, n + 1)), None => None } }
        else if c == 0x5cu8 { match scan(r, q, true) { Some((s, n)) => Some((s, n + 1)), None => None } }
        else if c == q { Some((Seq::<u8>::empty(), 1int)) }
        else { match scan(r, q, false) { Some((s, n)) => Some((seq![c] + s, n + 1)), None => None } }
    }
}
