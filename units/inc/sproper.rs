// the elements of a nil-terminated list (nil = the CLVM value nil, in the current integer mode), None for anything else
pub open spec fn sproper(s: SExp) -> Option<Seq<SExp>>
    decreases s
{
    if tree_of(true, s) == tnil() { Some(Seq::<SExp>::empty()) } else {
        match s { SExp::Cons(_, h, r) => match sproper(*r) { Some(x) => Some(seq![*h] + x), None => None }, _ => None }
    }
}
pub open spec fn sproper_r(s: &SExp) -> Option<Seq<SExp>> { sproper(*s) }
