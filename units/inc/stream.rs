// Shared: Stream (classic/clvm/__type_compatibility__.rs) with its read-side view
//@ extract struct Stream from src/classic/clvm/__type_compatibility__.rs
//@ end
// remaining bytes of the stream
pub closed spec fn stream_wf(s: Stream) -> bool { s.length <= s.buffer@.len() }
pub closed spec fn stream_rest(s: Stream) -> Seq<u8> {
    if s.seek > s.length { Seq::<u8>::empty() } else { s.buffer@.subrange(s.seek as int, s.length as int) }
}
pub closed spec fn stream_seek(s: Stream) -> int { s.seek as int }
pub closed spec fn stream_same_data(a: Stream, b: Stream) -> bool { a.length == b.length && a.buffer@ == b.buffer@ }

