// Shared: pattern height, the (@ name sub) recogniser (assumed contract) and the destructuring spec `binds`
pub open spec fn sheight(s: SExp) -> nat
    decreases s
{
    match s {
        SExp::Cons(_, a, b) => 1 + (if sheight(*a) >= sheight(*b) { sheight(*a) } else { sheight(*b) }),
        _ => 0,
    }
}

pub open spec fn sheight_r(s: &SExp) -> nat { sheight(*s) }

// (@ name sub) recogniser: compiler.rs::is_at_capture (assumed contract: what it
// recognises is abstract, and the substructure it returns is part of `rest`)
pub uninterp spec fn at_capture(head: SExp, rest: SExp) -> Option<(Seq<u8>, SExp)>;
pub broadcast axiom fn axiom_at_capture_smaller(head: SExp, rest: SExp)
    ensures (#[trigger] at_capture(head, rest)) matches Some((c, sub)) ==> sheight(sub) <= sheight(rest);
//@ extract fn is_at_capture from src/compiler/compiler.rs
//@ stub
//@ sig r
    ensures match at_capture(*head, *rest) { Some((c, sub)) => r matches Some((rc, rsub)) && rc@ == c && *rsub == sub, None => r is None }
//@ end
// SPEC (shared by code generator and evaluator): the value a parameter pattern binds
// `name` to when the argument tree `args` is destructured the way the consensus
// evaluator destructures it: first match, left before right; (@ n sub) binds n to the
// whole position and destructures the same position with sub.
pub open spec fn mentions(find: SExp, name: Seq<u8>) -> bool
    decreases sheight(find)
{
    match find {
        SExp::Atom(_, a) => a@ == name,
        SExp::Integer(_, i) => u8n(bi(i)) == name,
        SExp::Cons(_, h, r) => match at_capture(*h, *r) {
            Some((c, sub)) => c == name || (sheight(sub) < sheight(find) && mentions(sub, name)),
            None => mentions(*h, name) || mentions(*r, name),
        },
        _ => false,
    }
}
pub open spec fn binds(find: SExp, name: Seq<u8>, args: Tree) -> Option<Tree>
    decreases sheight(find)
{
    match find {
        SExp::Atom(_, a) => if a@ == name { Some(args) } else { None },
        SExp::Integer(_, i) => if u8n(bi(i)) == name { Some(args) } else { None },
        SExp::Cons(_, h, r) => match at_capture(*h, *r) {
            Some((c, sub)) => if c == name { Some(args) } else if sheight(sub) < sheight(find) { binds(sub, name, args) } else { None },
            None => match args {
                Tree::Pair(fa, ra) => if mentions(*h, name) { binds(*h, name, *fa) } else { binds(*r, name, *ra) },
                Tree::Atom(_) => None,
            },
        },
        _ => None,
    }
}

