// get_u32 + int_from_bytes with full proofs (shared by units casts and ser)
//@ note get_u32 must be big-endian: its callers (int_from_bytes, bigint_from_bytes) assemble words most-significant first and set_u32 writes big-endian (finding F1)
//@ extract fn get_u32 from src/classic/clvm/__type_compatibility__.rs
//@ sig r
    requires n + 3 < v@.len()
    ensures r as int == be_unsigned(v@.subrange(n as int, n + 4))
//@ before tail
    proof {
        lemma_be_four(v@.subrange(n as int, n + 4));
        assert(p1 < 256 && p2 < 256 && p3 < 256 && p4 < 256);
        assert(((p1 << 24) | (p2 << 16) | (p3 << 8) | p4) == p1 * 16777216 + p2 * 65536 + p3 * 256 + p4) by(bit_vector)
            requires p1 < 256 && p2 < 256 && p3 < 256 && p4 < 256;
    }
//@ end

//@ extract struct TConvertOption from src/classic/clvm/casts.rs
//@ end

//@ extract fn int_from_bytes from src/classic/clvm/casts.rs
//@ canary drop_remain_offset @<i * 4 + bytes4_remain>@ => @<i * 4>@
//@ replace R4 @<option.map(|cvt| cvt.signed).unwrap_or_else(|| false)>@ => @<(match option { Some(cvt) => cvt.signed, None => false })>@
//@ sig r
    requires
        bv(b).len() * 8 <= usize::MAX,
        (option is Some && option->Some_0.signed) ==> (bv(b).len() == 0 || bv(b).len() > 8 || bv(b)[0] < 0x80),
    ensures
        bv(b).len() <= 8 ==> (r matches Ok(v) && v as int == be_unsigned(bv(b))),
        bv(b).len() > 8 ==> r is Err,
//@ after stmt @<let mut order>@
    let ghost len = dv@.len() as int;
    proof {
        lemma2_to64();
        lemma2_to64_rest();
        assert(dv@.subrange(len, len) =~= Seq::<u8>::empty());
    }
//@ loop 0
            invariant
                dv@ == bv(b), len == dv@.len(), bytes4_remain < 4, len <= 8,
                bytes4_remain + 4 * bytes4_length == len,
                unsigned64 as int == be_unsigned(dv@.subrange(len - 4 * i_reverse, len)),
                order == (if i_reverse == 0 { 1u64 } else if i_reverse == 1 { 0x1_0000_0000u64 } else { 0u64 }),
//@ before stmt @<unsigned64 += byte32>@
            proof {
                lemma2_to64();
                let off = len - 4 * (i_reverse + 1);
                let w = dv@.subrange(off, off + 4);
                let rest = dv@.subrange(off + 4, len);
                assert(dv@.subrange(off, len) =~= w + rest);
                lemma_be_concat(w, rest);
                lemma_be_bounds(w);
                lemma_be_bounds(rest);
                assert(byte32 * order <= 0xffff_ffff * 0x1_0000_0000) by(nonlinear_arith)
                    requires byte32 <= 0xffff_ffff, order <= 0x1_0000_0000;
                if i_reverse == 1 {
                    assert(byte32 * order + unsigned64 <= 0xffff_ffff * 0x1_0000_0000 + 0xffff_ffff) by(nonlinear_arith)
                        requires byte32 <= 0xffff_ffff, order == 0x1_0000_0000, unsigned64 <= 0xffff_ffff;
                }
            }
//@ after stmt @<order <<= 32>@
            proof {
                assert(1u64 << 32 == 0x1_0000_0000u64) by(bit_vector);
                assert(0x1_0000_0000u64 << 32 == 0u64) by(bit_vector);
            }
//@ before stmt @<if bytes4_remain > 0>@
    assert(unsigned64 as int == be_unsigned(dv@.subrange(bytes4_remain as int, len)));
//@ loop 1
            invariant
                dv@ == bv(b), len == dv@.len(), bytes4_remain < 4, len <= 7, bytes4_length <= 1,
                bytes4_remain + 4 * bytes4_length == len,
                unsigned64 as int == be_unsigned(dv@.subrange(bytes4_remain - i_reverse, len)),
                order as int == pow2((32 * bytes4_length + 8 * i_reverse) as nat) as int,
//@ before stmt @<unsigned64 += byte * order>@
            proof {
                lemma2_to64();
                lemma2_to64_rest();
                let e = (32 * bytes4_length + 8 * i_reverse) as nat;
                let off = bytes4_remain - (i_reverse + 1);
                let w = dv@.subrange(off, off + 1);
                let rest = dv@.subrange(off + 1, len);
                assert(dv@.subrange(off, len) =~= w + rest);
                lemma_be_concat(w, rest);
                assert(w =~= seq![dv@[off]]);
                lemma_be_single(dv@[off]);
                lemma_be_bounds(rest);
                assert((8 * rest.len()) as nat == e);
                lemma_pow2_adds(e, 8);
                assert(e <= 48);
                lemma_pow2_strictly_increases(e, 56);
                lemma_pow2_strictly_increases(e + 8, 64);
                assert(byte * order + unsigned64 < pow2(e + 8)) by(nonlinear_arith)
                    requires byte <= 255, unsigned64 < order, order == pow2(e), pow2(e + 8) == pow2(e) * 256;
                assert(byte * order <= byte * order + unsigned64);
                assert(order << 8 == order * 256) by(bit_vector)
                    requires order < 0x100_0000_0000_0000u64;
            }
//@ after stmt @<order <<= 8>@
            proof {
                assert((32 * bytes4_length + 8 * i_reverse) as nat + 8 == (32 * bytes4_length + 8 * (i_reverse + 1)) as nat);
            }
//@ before stmt @<if signed &&>@
    proof {
        assert(dv@.subrange(0, len) =~= dv@);
        let d0 = dv@[0];
        assert(((d0 & 0x80) != 0) == (d0 >= 0x80)) by(bit_vector);
    }
//@ end
