// Shared: size of a CLVM tree, operator test, and the shape generated code is assumed to have (SExp level)
pub open spec fn tsize(t: Tree) -> nat
    decreases t
{
    match t { Tree::Atom(_) => 1, Tree::Pair(a, b) => 1 + tsize(*a) + tsize(*b) }
}
pub open spec fn is_op(t: Tree, k: u8) -> bool { t == Tree::Atom(seq![k]) }
// evaluated positions only refer to environment paths >= 1 (generated code writes nil as () / (q)); operators are not paths
pub open spec fn cexpr(s: SExp) -> bool
    decreases s, 1int
{
    match s {
        SExp::Integer(_, i) => bi(i) >= 1,
        SExp::Cons(_, h, r) => is_op(tv(*h), 1) || (!(*h is Cons) && clist(*r)),
        _ => true,
    }
}
pub open spec fn clist(s: SExp) -> bool
    decreases s, 0int
{
    match s { SExp::Cons(_, h, r) => cexpr(*h) && clist(*r), _ => true }
}
pub open spec fn cexpr_r(s: &SExp) -> bool { cexpr(*s) }

// the same shape without the demand that numbers are paths: what brief_path_selection_single needs of the chain it is given
// (it checks itself that the number below the chain is >= 1 before composing paths; finding F43)
pub open spec fn cshape(s: SExp) -> bool
    decreases s, 1int
{
    match s {
        SExp::Cons(_, h, r) => is_op(tv(*h), 1) || (!(*h is Cons) && clshape(*r)),
        _ => true,
    }
}
pub open spec fn clshape(s: SExp) -> bool
    decreases s, 0int
{
    match s { SExp::Cons(_, h, r) => cshape(*h) && clshape(*r), _ => true }
}
pub open spec fn cshape_r(s: &SExp) -> bool { cshape(*s) }
pub proof fn lemma_cexpr_shape(s: &SExp)
    ensures cexpr(*s) ==> cshape(*s), clist(*s) ==> clshape(*s)
    decreases *s
{
    match s { SExp::Cons(_, h, r) => { lemma_cexpr_shape(&**h); lemma_cexpr_shape(&**r); } _ => {} }
}
