#![feature(allocator_api)]
#![allow(unused_imports, dead_code, unused_variables, unused_mut, unused_parens)]
use vstd::prelude::*;
use vstd::arithmetic::power2::*;

verus! {
//@ include prelude/bigint.rs
//@ include spec/paths.rs
//@ include spec/bytes.rs
//@ include prelude/misc.rs
//@ include prelude/clvmr.rs
//@ include prelude/bigint_bytes.rs
//@ include prelude/std.rs
//@ include units/inc/bytes.rs
//@ include spec/treedef.rs
//@ include spec/treepath.rs
//@ include prelude/allocator_tree.rs
use allocator::SExp;
broadcast use {num_bigint::of_int_bi, num_bigint::bi_of_int};

//@ extract struct NodePath from src/classic/clvm_tools/node_path.rs
//@ end
pub closed spec fn np(n: NodePath) -> int { bi(n.index) }
impl NodePath {
// all five proved in unit `paths` (same contract text)
//@ extract fn new from src/classic/clvm_tools/node_path.rs in impl NodePath
//@ stub
//@ sigfile r contracts/nodepath_new.sig
//@ end
//@ extract fn as_path from src/classic/clvm_tools/node_path.rs in impl NodePath
//@ stub
//@ sigfile r contracts/nodepath_as_path.sig
//@ end
//@ extract fn add from src/classic/clvm_tools/node_path.rs in impl NodePath
//@ stub
//@ sigfile r contracts/nodepath_add.sig
//@ end
//@ extract fn first from src/classic/clvm_tools/node_path.rs in impl NodePath
//@ stub
//@ sigfile r contracts/nodepath_first.sig
//@ end
//@ extract fn rest from src/classic/clvm_tools/node_path.rs in impl NodePath
//@ stub
//@ sigfile r contracts/nodepath_rest.sig
//@ end
}

// (@ name sub) in a classic parameter list: the atom "@" followed by a proper list of exactly two elements
pub open spec fn at_cap(f: Tree, r: Tree) -> Option<(Tree, Tree)> {
    if f == Tree::Atom(seq![0x40u8]) {
        match r {
            Tree::Pair(c, r2) => match *r2 { Tree::Pair(d, r3) => if *r3 == tnil() { Some((*c, *d)) } else { None }, _ => None },
            _ => None,
        }
    } else { None }
}
//@ note non_nil (classic): true exactly when the node's value is not the empty atom
//@ extract fn non_nil from src/classic/clvm/sexp.rs
//@ sig r
    requires node_tree(*allocator, sexp) is Some
    ensures r == (node_tree(*allocator, sexp)->Some_0 != tnil())
//@ before stmt @<match allocator.sexp(sexp) {>@
    proof {
        match node_tree(*allocator, sexp)->Some_0 { Tree::Atom(v) => { if v.len() == 0 { assert(v =~= Seq::<u8>::empty()); } } Tree::Pair(_, _) => {} }
    }
//@ end
pub open spec fn tsz(t: Tree) -> nat
    decreases t
{
    match t { Tree::Atom(_) => 1, Tree::Pair(a, b) => 1 + tsz(*a) + tsz(*b) }
}
// the elements of a nil-terminated list
pub open spec fn plist(t: Tree) -> Option<Seq<Tree>>
    decreases t
{
    match t {
        Tree::Atom(v) => if v.len() == 0 { Some(Seq::<Tree>::empty()) } else { None },
        Tree::Pair(a, b) => match plist(*b) { Some(x) => Some(seq![*a] + x), None => None },
    }
}
pub open spec fn nodes_are(a: Allocator, v: Seq<NodePtr>, x: Seq<Tree>) -> bool {
    v.len() == x.len() && forall|i: int| 0 <= i < v.len() ==> node_tree(a, #[trigger] v[i]) == Some(x[i])
}
//@ note proper_list (classic): Some(the element nodes) exactly when the value is a nil-terminated list
//@ extract fn proper_list from src/classic/clvm/sexp.rs
//@ sig r
    requires node_tree(*allocator, sexp) is Some
    ensures match plist(node_tree(*allocator, sexp)->Some_0) {
        Some(x) => r matches Some(v) && (store ==> nodes_are(*allocator, v@, x)),
        None => r is None,
    }
//@ before stmt @<let mut args_sexp = sexp;>@
    let ghost t0 = node_tree(*allocator, sexp)->Some_0;
    let ghost mut verif_pre: Seq<Tree> = Seq::<Tree>::empty();
    proof { match plist(t0) { Some(y) => { assert(verif_pre + y =~= y); } None => {} } }
//@ loop 0
        invariant
            node_tree(*allocator, args_sexp) is Some,
            t0 == node_tree(*allocator, sexp)->Some_0,
            plist(t0) == (match plist(node_tree(*allocator, args_sexp)->Some_0) { Some(y) => Some(verif_pre + y), None => None }),
            store ==> nodes_are(*allocator, args@, verif_pre),
        decreases tsz(node_tree(*allocator, args_sexp)->Some_0)
//@ before stmt @<return Some(args);>@
                    proof { assert(verif_pre + Seq::<Tree>::empty() =~= verif_pre); }
//@ before stmt @<return None;>@
                    proof { match node_tree(*allocator, args_sexp)->Some_0 { Tree::Atom(v) => { if v.len() == 0 { assert(v =~= Seq::<u8>::empty()); } } Tree::Pair(_, _) => {} } }
//@ before stmt @<if store {>@
                proof {
                    let a = node_tree(*allocator, f)->Some_0;
                    match plist(node_tree(*allocator, r)->Some_0) { Some(y) => { assert(verif_pre.push(a) + y =~= verif_pre + (seq![a] + y)); } None => {} }
                    verif_pre = verif_pre.push(a);
                }
//@ end
pub proof fn lemma_plist_two(r: Tree)
    ensures
        (plist(r) matches Some(x) && x.len() == 2) <==> (r matches Tree::Pair(c, r2) && (*r2 matches Tree::Pair(d, r3) && *r3 == tnil())),
        (plist(r) is Some && plist(r)->Some_0.len() == 2) ==> (r matches Tree::Pair(c, r2) && (*r2 matches Tree::Pair(d, r3) && plist(r)->Some_0[0] == *c && plist(r)->Some_0[1] == *d)),
{
    reveal_with_fuel(plist, 4);
    match r {
        Tree::Pair(c, r2) => match *r2 {
            Tree::Pair(d, r3) => {
                match *r3 { Tree::Atom(v) => { if v.len() == 0 { assert(v =~= Seq::<u8>::empty()); assert(plist(r) == Some(seq![*c] + (seq![*d] + Seq::<Tree>::empty()))); } }
                            Tree::Pair(e, r4) => { match plist(*r4) { Some(z) => { assert(plist(r)->Some_0.len() == 3 + z.len()); } None => {} } } }
            }
            Tree::Atom(v) => { if v.len() == 0 { assert(plist(r) == Some(seq![*c] + Seq::<Tree>::empty())); } }
        },
        Tree::Atom(v) => {}
    }
}
//@ note is_at_capture (classic parameter lists): Some(name, pattern) exactly for the form (@ name pattern)
//@ extract fn is_at_capture from src/classic/clvm_tools/stages/stage_2/inline.rs
//@ canary any_length @<&& spec.len() == 2 {>@ => @<&& spec.len() >= 2 {>@
//@ replace R7 @<first_atom.as_ref() == b"@" &&>@ => @<verif_slice_is(first_atom.as_ref(), [0x40u8]) &&>@
//@ sig r
    requires node_tree(*allocator, tree_first) is Some, node_tree(*allocator, tree_rest) is Some
    ensures match at_cap(node_tree(*allocator, tree_first)->Some_0, node_tree(*allocator, tree_rest)->Some_0) {
        Some((c, d)) => r matches Some((rc, rd)) && node_tree(*allocator, rc) == Some(c) && node_tree(*allocator, rd) == Some(d),
        None => r is None,
    }
//@ before stmt @<if let (SExp::Atom, Some(spec)) = (>@
    proof {
        lemma_plist_two(node_tree(*allocator, tree_rest)->Some_0);
        match node_tree(*allocator, tree_first)->Some_0 { Tree::Atom(v) => { if v.len() == 1 && v[0] == 0x40u8 { assert(v =~= seq![0x40u8]); } } Tree::Pair(_, _) => {} }
    }
//@ end
// R46: NodeSel::Cons(ThisNode::Here, ThisNode::Here).select_nodes(allocator, n) (generic selector traits) -> first and rest of a pair
#[verifier::external_body]
pub fn verif_select_cons(allocator: &mut Allocator, n: NodePtr) -> (r: Result<(NodePtr, NodePtr), EvalErr>)
    requires node_tree(*old(allocator), n) is Some
    ensures *final(allocator) == *old(allocator),
        node_tree(*old(allocator), n)->Some_0 is Pair ==> (r matches Ok((f, rr)) && node_tree(*old(allocator), f) is Some && node_tree(*old(allocator), rr) is Some
            && node_tree(*old(allocator), n) == Some(Tree::Pair(Box::new(node_tree(*old(allocator), f)->Some_0), Box::new(node_tree(*old(allocator), rr)->Some_0)))),
{ unimplemented!() }

// SPEC: the entries the classic compiler records for a parameter tree rooted at path p, in order
pub open spec fn sym_spec(t: Tree, p: int) -> Seq<(Tree, int)>
    decreases t
{
    if t == tnil() { Seq::<(Tree, int)>::empty() } else {
        match t {
            Tree::Atom(_) => seq![(t, p)],
            Tree::Pair(f, r) => match at_cap(*f, *r) {
                Some((c, d)) => seq![(c, p)] + sym_spec(d, p),
                None => sym_spec(*f, compose(p, 2)) + sym_spec(*r, compose(p, 3)),
            },
        }
    }
}
pub open spec fn entry_view(a: Allocator, e: (NodePtr, Vec<u8>)) -> (Tree, int) { (node_tree(a, e.0)->Some_0, be_unsigned(e.1@)) }
pub open spec fn table_view(a: Allocator, v: Seq<(NodePtr, Vec<u8>)>) -> Seq<(Tree, int)> { v.map_values(|e: (NodePtr, Vec<u8>)| entry_view(a, e)) }
pub open spec fn table_wf(a: Allocator, v: Seq<(NodePtr, Vec<u8>)>) -> bool { forall|i: int| 0 <= i < v.len() ==> node_tree(a, (#[trigger] v[i]).0) is Some }

//@ note symbol_table_for_tree (classic compiler: parameter name -> environment path): the recorded entries are exactly sym_spec of the parameter tree: a name at a leaf gets the path composed of the first / rest steps leading to it, an (@ name sub) capture gets the path of the position it stands at; lemma_sym_paths_select: every recorded path selects, from any argument value, the sub-value at that structural position
//@ extract fn symbol_table_for_tree from src/classic/clvm_tools/stages/stage_2/module.rs
//@ canary left_right_swapped @<let left_bytes = NodePath::new(None).first();>@ => @<let left_bytes = NodePath::new(None).rest();>@
//@ replace-block R46
            let NodeSel::Cons(tree_first, tree_rest) =
                NodeSel::Cons(ThisNode::Here, ThisNode::Here).select_nodes(allocator, tree)?;
//@ with
            let (tree_first, tree_rest) = verif_select_cons(allocator, tree)?;
//@ sig r
    requires node_tree(*old(allocator), tree) is Some, np(*root_node) >= 1
    ensures
        *final(allocator) == *old(allocator),
        r matches Ok(v) && table_wf(*old(allocator), v@) && table_view(*old(allocator), v@) == sym_spec(node_tree(*old(allocator), tree)->Some_0, np(*root_node)),
    decreases node_tree(*old(allocator), tree)->Some_0
//@ end

pub open spec fn sub_first(v: Option<Tree>) -> Option<Tree> { match v { Some(Tree::Pair(a, _)) => Some(*a), _ => None } }
pub open spec fn sub_rest(v: Option<Tree>) -> Option<Tree> { match v { Some(Tree::Pair(_, b)) => Some(*b), _ => None } }
// following p and then one more step is following compose(p, 2) / compose(p, 3)
pub proof fn lemma_compose_step(p: int, t: Tree)
    requires p >= 1
    ensures tree_path(compose(p, 2), t) == sub_first(tree_path(p, t)), tree_path(compose(p, 3), t) == sub_rest(tree_path(p, t)),
    decreases p
{
    lemma2_to64();
    reveal_with_fuel(tree_path, 3);
    if p == 1 {
        assert(plen(1) == 0);
        assert(compose(1, 2) == 2 && compose(1, 3) == 3);
    } else {
        lemma_plen_bounds(p); lemma_plen_bounds(p / 2);
        lemma_pow2_unfold(plen(p));
        let h = pow2(plen(p / 2)) as int;
        assert(plen(p) == 1 + plen(p / 2));
        assert(pow2(plen(p)) as int == 2 * h);
        assert(compose(p, 2) == 2 * (2 * h) + (p - 2 * h));
        assert(compose(p, 3) == 3 * (2 * h) + (p - 2 * h));
        assert(compose(p / 2, 2) == 2 * h + (p / 2 - h));
        assert(compose(p / 2, 3) == 3 * h + (p / 2 - h));
        assert(compose(p, 2) % 2 == p % 2 && compose(p, 2) / 2 == compose(p / 2, 2));
        assert(compose(p, 3) % 2 == p % 2 && compose(p, 3) / 2 == compose(p / 2, 3));
        assert(compose(p, 2) >= 2 && compose(p, 3) >= 2);
        match t {
            Tree::Pair(a, b) => { if p % 2 == 0 { lemma_compose_step(p / 2, *a); } else { lemma_compose_step(p / 2, *b); } }
            Tree::Atom(_) => {}
        }
    }
}
// the sub-value at the structural position of entry number i when the parameter tree t is matched against the value v
pub open spec fn leaf_value(t: Tree, i: int, v: Option<Tree>) -> Option<Tree>
    decreases t
{
    if t == tnil() { None } else {
        match t {
            Tree::Atom(_) => v,
            Tree::Pair(f, r) => match at_cap(*f, *r) {
                Some((c, d)) => if i == 0 { v } else { leaf_value(d, i - 1, v) },
                None => { let n1 = sym_spec(*f, 1).len() as int; if i < n1 { leaf_value(*f, i, sub_first(v)) } else { leaf_value(*r, i - n1, sub_rest(v)) } },
            },
        }
    }
}
pub proof fn lemma_sym_len(t: Tree, p: int, q: int)
    ensures sym_spec(t, p).len() == sym_spec(t, q).len()
    decreases t
{
    if t != tnil() { match t { Tree::Pair(f, r) => match at_cap(*f, *r) { Some((c, d)) => { lemma_sym_len(d, p, q); } None => { lemma_sym_len(*f, compose(p, 2), compose(q, 2)); lemma_sym_len(*r, compose(p, 3), compose(q, 3)); } }, _ => {} } }
}
pub proof fn lemma_compose_ge1(p: int, q: int)
    requires p >= 1, q >= 1
    ensures compose(p, q) >= 1
{
    lemma_plen_bounds(p); lemma_pow2_pos(plen(p));
    assert(compose(p, q) >= 1) by(nonlinear_arith) requires q >= 1, pow2(plen(p)) > 0, p >= pow2(plen(p)), compose(p, q) == q * (pow2(plen(p)) as int) + (p - (pow2(plen(p)) as int));
}
// C03: every recorded path selects, from ANY argument value, the sub-value at the structural position of its name
pub proof fn lemma_sym_paths_select(t: Tree, p: int, val: Tree, i: int)
    requires p >= 1, 0 <= i < sym_spec(t, p).len()
    ensures tree_path(sym_spec(t, p)[i].1, val) == leaf_value(t, i, tree_path(p, val))
    decreases t
{
    if t != tnil() {
        match t {
            Tree::Pair(f, r) => match at_cap(*f, *r) {
                Some((c, d)) => { if i > 0 { lemma_sym_paths_select(d, p, val, i - 1); } }
                None => {
                    lemma_compose_step(p, val); lemma_compose_ge1(p, 2); lemma_compose_ge1(p, 3);
                    lemma_sym_len(*f, compose(p, 2), 1);
                    let n1 = sym_spec(*f, compose(p, 2)).len() as int;
                    if i < n1 { lemma_sym_paths_select(*f, compose(p, 2), val, i); } else { lemma_sym_paths_select(*r, compose(p, 3), val, i - n1); }
                }
            },
            _ => {}
        }
    }
}
}
fn main() {}
