#![feature(allocator_api)]
#![allow(unused_imports, dead_code, unused_variables, unused_mut, unused_parens)]
use vstd::prelude::*;
use vstd::arithmetic::power2::*;
use std::rc::Rc;

verus! {
//@ include spec/bytes.rs
//@ include prelude/misc.rs
//@ include prelude/std.rs
//@ include units/inc/bytes.rs

//@ note has_oversized_sign_extension: true exactly when the atom is NOT the canonical (minimal two's complement) encoding of its signed value -- the disassembler prints an atom of <= 2 bytes as a decimal integer only when this is false, because the assembler re-encodes decimals canonically
//@ extract fn has_oversized_sign_extension from src/classic/clvm_tools/binutils.rs
//@ canary wrong_sign_test @<return data[1] & 0x80 != 0;>@ => @<return data[1] & 0x80 == 0;>@
//@ sig r
    ensures r == !is_min_signed(bv(*atom))
//@ before stmt @<if atom.length() < 2>@
    proof {
        if data@.len() >= 2 {
            let d1 = data@[1];
            assert((d1 & 0x80 == 0) == (d1 < 0x80)) by(bit_vector);
            assert((d1 & 0x80 != 0) == (d1 >= 0x80)) by(bit_vector);
        }
    }
//@ end

//@ extract enum IRRepr from src/classic/clvm_tools/ir/type.rs
//@ end
// keyword table lookups are abstract here (the tables themselves are C20's subject)
#[verifier::external_body]
pub struct Record { x: u8 }
pub uninterp spec fn rec_get(r: Record, k: Seq<u8>) -> Option<Seq<char>>;
impl Record {
    #[verifier::external_body]
    pub fn get(&self, k: &Vec<u8>) -> (r: Option<&String>)
        ensures match rec_get(*self, k@) { Some(n) => r matches Some(x) && x@ == n, None => r is None }
    { unimplemented!() }
}
#[verifier::external_body]
pub fn is_printable_string(s: &String) -> bool { unimplemented!() }
// R25: `kw.to_string()` on a &String is a copy of it
#[verifier::external_body]
pub fn verif_string_copy(s: &String) -> (r: String) ensures r@ == s@ { unimplemented!() }

//@ note ir_for_atom: with keywords off, an atom of 1 or 2 bytes is printed as a decimal integer exactly when it is canonical and as hex otherwise; every form carries the atom's bytes unchanged
//@ extract fn ir_for_atom from src/classic/clvm_tools/binutils.rs
//@ canary allow_zero_int @<if !verif_vec_is_single(atom.data(), 0) && !has_oversized_sign_extension(atom) {>@ => @<if !has_oversized_sign_extension(atom) || verif_vec_is_single(atom.data(), 0) {>@
//@ replace R25 @<keyword_from_atom: &Record<Vec<u8>, String>,>@ => @<keyword_from_atom: &Record,>@
//@ replace R25 @<kw.to_string()>@ => @<verif_string_copy(kw)>@
//@ replace R25 @<String::from_utf8(atom.data().to_vec())>@ => @<verif_string_from_utf8(atom.data().to_vec())>@
//@ replace R7 @<if atom.data() != &[0] && !has_oversized_sign_extension(atom) {>@ => @<if !verif_vec_is_single(atom.data(), 0) && !has_oversized_sign_extension(atom) {>@
//@ sigfile r contracts/ir_for_atom.sig
//@ end

// C09 / integer route: an atom printed as the decimal of its signed value and re-encoded
// canonically (bigint_to_bytes_clvm: is_min_signed && be_signed == n, unit casts) is the same
// atom exactly when it was canonical -- decimal print/parse assumed inverse
pub proof fn lemma_int_route_roundtrip(s: Seq<u8>, t: Seq<u8>)
    requires is_min_signed(s), is_min_signed(t), be_signed(t) == be_signed(s)
    ensures t == s
{
    axiom_signed_unique(s);
    axiom_signed_unique(t);
}
}
fn main() {}
