#![feature(allocator_api)]
#![allow(unused_imports, dead_code, unused_variables, unused_mut, unused_parens)]
use vstd::prelude::*;
use vstd::arithmetic::power2::*;
use std::rc::Rc;
use std::borrow::Borrow;

verus! {
global size_of usize == 8;
//@ include spec/bytes.rs
//@ include spec/ser.rs
//@ include prelude/misc.rs
//@ include prelude/clvmr.rs
//@ include prelude/rc.rs
//@ include prelude/std.rs
//@ include units/inc/bytes.rs
//@ include spec/sertree.rs
//@ include prelude/allocator_tree.rs
//@ include units/inc/stream.rs

// the two trusted allocator views are linked by definition: the atom view (prelude/allocator.rs, in which atom_from_stream's contract
// is written and proved, unit `ser`) is the Atom case of the tree view used here
pub open spec fn atom_view(a: Allocator, n: NodePtr) -> Option<Seq<u8>> { match node_tree(a, n) { Some(Tree::Atom(x)) => Some(x), _ => None } }
pub open spec fn alloc_extends(o: Allocator, n: Allocator) -> bool { alloc_ext(o, n) }
pub open spec fn alloc_limit_hit(a: Allocator, len: int) -> bool { alloc_full(a) }

pub struct VerifUnused { pub x: u8 }
// clvmr Reduction / Response (cost, node)
pub struct Reduction(pub u64, pub NodePtr);
pub type Response = Result<Reduction, EvalErr>;
//@ extract enum CastableType from src/classic/clvm/sexp.rs
//@ replace R44 @<Number(Number),>@ => @<Number(VerifUnused),>@
//@ replace R44 @<G1Affine(PublicKey),>@ => @<G1Affine(VerifUnused),>@
//@ end
//@ extract type TValStack from src/classic/clvm/as_rust.rs
//@ end
//@ extract const CONS_BOX_MARKER from src/classic/clvm/serialize.rs
//@ end

// R53: the operator stack Vec<Option<Box<dyn OpStackEntry>>> -> a vector over the closed set of its two implementors (OpCons, OpReadSexp:
// the only `impl OpStackEntry for` in the crate); `func.invoke(..)` -> a match that calls the extracted body of the implementor
pub enum VerifOp { Cons, Read }
// R42: Box<dyn TToSexpF> -> stand-in for its only implementor SimpleCreateCLVMObject (what every caller in the crate passes)
pub struct VerifToSexp { pub x: u8 }
impl VerifToSexp {
    pub fn simple() -> VerifToSexp { VerifToSexp { x: 0 } }
    // proved in unit `tosexp` (SimpleCreateCLVMObject::invoke over to_sexp_type, for every value made of nodes, tuples, byte strings,
    // strings and numbers: the returned node denotes ct_tree(value)); restated here for the two shapes the deserialiser hands over
    // -- a node, and a tuple of two nodes -- because this unit's CastableType carries stand-in payloads (R44)
    #[verifier::external_body]
    pub fn invoke(&self, allocator: &mut Allocator, v: CastableType) -> (r: Response)
        requires
            v matches CastableType::CLVMObject(n) ==> node_tree(*old(allocator), n) is Some,
            v matches CastableType::TupleOf(l, rr) ==> (*l matches CastableType::CLVMObject(a) && (*rr matches CastableType::CLVMObject(b)
                && node_tree(*old(allocator), a) is Some && node_tree(*old(allocator), b) is Some)),
        ensures
            alloc_ext(*old(allocator), *final(allocator)),
            v matches CastableType::CLVMObject(n) ==> (r matches Ok(red) ==> node_tree(*final(allocator), red.1) == node_tree(*old(allocator), n)),
            v matches CastableType::TupleOf(l, rr) ==> (*l matches CastableType::CLVMObject(a) && (*rr matches CastableType::CLVMObject(b)
                && (r matches Ok(red) ==> node_tree(*final(allocator), red.1) == Some(Tree::Pair(Box::new(node_tree(*old(allocator), a)->Some_0), Box::new(node_tree(*old(allocator), b)->Some_0)))))),
    { unimplemented!() }
}

// ---- the value stack as trees
pub open spec fn val_ok(a: Allocator, v: CastableType) -> bool { v matches CastableType::CLVMObject(n) && node_tree(a, n) is Some }
pub open spec fn vals_ok(a: Allocator, vs: Seq<CastableType>) -> bool { forall|i: int| 0 <= i < vs.len() ==> val_ok(a, #[trigger] vs[i]) }
pub open spec fn val_tree(a: Allocator, v: CastableType) -> Tree { match v { CastableType::CLVMObject(n) => node_tree(a, n)->Some_0, _ => tnil() } }
pub open spec fn vtrees(a: Allocator, vs: Seq<CastableType>) -> Seq<Tree> { Seq::new(vs.len(), |i: int| val_tree(a, vs[i])) }
pub proof fn lemma_vals_ext(o: Allocator, n: Allocator, vs: Seq<CastableType>)
    requires alloc_ext(o, n), vals_ok(o, vs)
    ensures vals_ok(n, vs), vtrees(n, vs) == vtrees(o, vs)
{
    assert forall|i: int| 0 <= i < vs.len() implies val_ok(n, #[trigger] vs[i]) && val_tree(n, vs[i]) == val_tree(o, vs[i]) by {
        assert(val_ok(o, vs[i]));
    }
    assert(vtrees(n, vs) =~= vtrees(o, vs));
}

// SPEC: the consensus deserialiser (clvmr node_from_stream, transcribed: a stack of pending operations, an error ends the run):
// the value it returns for the operations still to do, the values made so far and the bytes not yet read
pub open spec fn finish(ops: Seq<Option<VerifOp>>, vals: Seq<Tree>, bytes: Seq<u8>) -> Option<Tree>
    decreases 3 * bytes.len() + ops.len()
{
    if ops.len() == 0 { if vals.len() >= 1 { Some(vals.last()) } else { None } } else {
        match ops.last() {
            None => if vals.len() >= 1 { Some(vals.last()) } else { None },
            Some(VerifOp::Read) =>
                if bytes.len() == 0 { None }
                else if bytes[0] == 0xff { finish(ops.drop_last().push(Some(VerifOp::Cons)).push(Some(VerifOp::Read)).push(Some(VerifOp::Read)), vals, bytes.subrange(1, bytes.len() as int)) }
                else { match dec_atom(bytes[0], bytes.subrange(1, bytes.len() as int)) {
                    None => None,
                    Some((atom, used)) => if 0 <= used <= bytes.len() - 1 { finish(ops.drop_last(), vals.push(Tree::Atom(atom)), bytes.subrange(1 + used, bytes.len() as int)) } else { None },
                } },
            Some(VerifOp::Cons) =>
                if vals.len() < 2 { None }
                else { finish(ops.drop_last(), vals.subrange(0, vals.len() - 2).push(Tree::Pair(Box::new(vals[vals.len() - 2]), Box::new(vals[vals.len() - 1]))), bytes) },
        }
    }
}

// proved in unit `ser` (same contract text, read through the bridge above)
//@ extract fn atom_from_stream from src/classic/clvm/serialize.rs
//@ stub
//@ replace R10 @<<'a>(>@ => @<(>@
//@ replace R10 @<allocator: &'a mut Allocator,>@ => @<allocator: &mut Allocator,>@
//@ replace R42 @<_to_sexp_f: Box<dyn TToSexpF<'a>>,>@ => @<_to_sexp_f: VerifToSexp,>@
//@ sigfile r contracts/atom_from_stream.sig
//@ end
impl Stream {
// proved in unit `ser` (same contract text)
//@ extract fn read from src/classic/clvm/__type_compatibility__.rs in impl Stream
//@ stub
//@ sigfile r contracts/stream_read.sig
//@ end
}

//@ extract struct OpCons from src/classic/clvm/serialize.rs
//@ replace R28 @<struct OpCons {}>@ => @<pub struct OpCons {}>@
//@ end
//@ extract struct OpReadSexp from src/classic/clvm/serialize.rs
//@ replace R28 @<struct OpReadSexp {}>@ => @<pub struct OpReadSexp {}>@
//@ end
impl OpCons {
//@ note OpCons::invoke: with two values on the stack it replaces them by their pair; with fewer it DROPS what is there and reports nothing
//@ extract fn invoke from src/classic/clvm/serialize.rs in impl OpStackEntry for OpCons
//@ canary swapped_pair @<match to_sexp_f.invoke(allocator, CastableType::TupleOf(Rc::new(l), Rc::new(r))) {>@ => @<match to_sexp_f.invoke(allocator, CastableType::TupleOf(Rc::new(r), Rc::new(l))) {>@
//@ replace R53 @<fn invoke<'a>(>@ => @<pub fn invoke(>@
//@ replace R10 @<allocator: &'a mut Allocator,>@ => @<allocator: &mut Allocator,>@
//@ replace R53 @<_op_stack: &mut TOpStack<'a>,>@ => @<_op_stack: &mut Vec<Option<VerifOp>>,>@
//@ replace R42 @<to_sexp_f: Box<dyn TToSexpF<'a>>,>@ => @<to_sexp_f: VerifToSexp,>@
//@ replace-span R4 @<match val_stack>@ @<.and_then(|r| val_stack.pop().map(|l| (l, r)))>@ => @<match (match val_stack.pop() { Some(r) => match val_stack.pop() { Some(l) => Some((l, r)), None => None }, None => None })>@
//@ sig res
    requires vals_ok(*old(allocator), old(val_stack)@)
    ensures
        alloc_ext(*old(allocator), *final(allocator)), vals_ok(*final(allocator), final(val_stack)@),
        final(_op_stack)@ == old(_op_stack)@, *final(_f) == *old(_f),
        ({ let vs = old(val_stack)@; let n = vs.len() as int;
           if n >= 2 {
               (res is None ==> final(val_stack)@.len() == n - 1 && final(val_stack)@.subrange(0, n - 2) == vs.subrange(0, n - 2)
                    && val_tree(*final(allocator), final(val_stack)@[n - 2]) == Tree::Pair(Box::new(val_tree(*old(allocator), vs[n - 2])), Box::new(val_tree(*old(allocator), vs[n - 1]))))
               && (res is Some ==> final(val_stack)@ == vs.subrange(0, n - 2))
           } else { res is None && final(val_stack)@.len() == 0 } }),
//@ end
}
impl OpReadSexp {
//@ note OpReadSexp::invoke: end of input and a malformed atom are reported; 0xff schedules cons, read, read; anything else is one atom read by atom_from_stream
//@ extract fn invoke from src/classic/clvm/serialize.rs in impl OpStackEntry for OpReadSexp
//@ canary other_marker @<if b == CONS_BOX_MARKER as u8 {>@ => @<if b == 0xfe {>@
//@ replace R53 @<fn invoke<'a>(>@ => @<pub fn invoke(>@
//@ replace R10 @<allocator: &'a mut Allocator,>@ => @<allocator: &mut Allocator,>@
//@ replace R53 @<op_stack: &mut TOpStack<'a>,>@ => @<op_stack: &mut Vec<Option<VerifOp>>,>@
//@ replace R42 @<to_sexp_f: Box<dyn TToSexpF<'a>>,>@ => @<to_sexp_f: VerifToSexp,>@
//@ replace R53 @<op_stack.push(Some(Box::new(OpCons {})));>@ => @<op_stack.push(Some(VerifOp::Cons));>@
//@ replace all R53 @<op_stack.push(Some(Box::new(OpReadSexp {})));>@ => @<op_stack.push(Some(VerifOp::Read));>@
//@ replace R1 @<"bad encoding".to_string(),>@ => @<verif_opaque_string(),>@
//@ sig res
    requires vals_ok(*old(allocator), old(val_stack)@), stream_wf(*old(f)), stream_seek(*old(f)) + 0x400000009 <= usize::MAX
    ensures
        alloc_ext(*old(allocator), *final(allocator)), vals_ok(*final(allocator), final(val_stack)@),
        stream_wf(*final(f)), stream_same_data(*old(f), *final(f)), stream_seek(*final(f)) >= stream_seek(*old(f)),
        stream_seek(*final(f)) + stream_rest(*final(f)).len() == stream_seek(*old(f)) + stream_rest(*old(f)).len(),
        ({ let bytes = stream_rest(*old(f)); let vs = old(val_stack)@; let ops = old(op_stack)@;
           if bytes.len() == 0 { res is Some && final(val_stack)@ == vs && final(op_stack)@ == ops }
           else if bytes[0] == 0xff {
               res is None && final(val_stack)@ == vs && final(op_stack)@ == ops.push(Some(VerifOp::Cons)).push(Some(VerifOp::Read)).push(Some(VerifOp::Read))
               && stream_rest(*final(f)) == bytes.subrange(1, bytes.len() as int)
           } else {
               final(op_stack)@ == ops
               && (match dec_atom(bytes[0], bytes.subrange(1, bytes.len() as int)) {
                   None => res is Some && final(val_stack)@ == vs,
                   Some((atom, used)) =>
                       (res is None ==> 0 <= used <= bytes.len() - 1 && final(val_stack)@.len() == vs.len() + 1 && final(val_stack)@.subrange(0, vs.len() as int) == vs
                            && val_tree(*final(allocator), final(val_stack)@[vs.len() as int]) == Tree::Atom(atom)
                            && stream_rest(*final(f)) == bytes.subrange(1 + used, bytes.len() as int))
                       && (res is Some ==> alloc_full(*old(allocator)) && final(val_stack)@ == vs),
               })
           } }),
//@ end
}

// ---- shape of the operation stack.  dcount = #Cons - #Read among the bottom k entries.  Every prefix ending in a Cons has
// dcount >= 1, every prefix ending in a Read has dcount >= -1: so whenever a Cons is on top, Cons entries outnumber Read entries.
pub open spec fn dcount(ops: Seq<Option<VerifOp>>, k: int) -> int
    decreases k
{
    if k <= 0 { 0 } else { dcount(ops, k - 1) + (if ops[k - 1] == Some(VerifOp::Cons) { 1int } else { -1int }) }
}
pub open spec fn shape_ok(ops: Seq<Option<VerifOp>>) -> bool {
    forall|i: int| 0 <= i < ops.len() ==> (#[trigger] ops[i]) is Some
        && (ops[i] == Some(VerifOp::Cons) ==> dcount(ops, i + 1) >= 1) && (ops[i] == Some(VerifOp::Read) ==> dcount(ops, i + 1) >= -1)
}
pub proof fn lemma_dcount_agree(a: Seq<Option<VerifOp>>, b: Seq<Option<VerifOp>>, k: int)
    requires 0 <= k <= a.len(), k <= b.len(), forall|i: int| 0 <= i < k ==> a[i] == b[i]
    ensures dcount(a, k) == dcount(b, k)
    decreases k
{
    if k > 0 { lemma_dcount_agree(a, b, k - 1); }
}
pub proof fn lemma_shape_pop(ops: Seq<Option<VerifOp>>)
    requires shape_ok(ops), ops.len() > 0
    ensures shape_ok(ops.drop_last()), dcount(ops.drop_last(), ops.len() - 1) == dcount(ops, ops.len() - 1)
{
    let d = ops.drop_last();
    assert forall|i: int| 0 <= i < d.len() implies (#[trigger] d[i]) is Some
        && (d[i] == Some(VerifOp::Cons) ==> dcount(d, i + 1) >= 1) && (d[i] == Some(VerifOp::Read) ==> dcount(d, i + 1) >= -1) by {
        assert(d[i] == ops[i]);
        lemma_dcount_agree(d, ops, i + 1);
    }
    lemma_dcount_agree(d, ops, ops.len() - 1);
}
pub proof fn lemma_shape_push3(d: Seq<Option<VerifOp>>)
    requires shape_ok(d), dcount(d, d.len() as int) >= 0
    ensures shape_ok(d.push(Some(VerifOp::Cons)).push(Some(VerifOp::Read)).push(Some(VerifOp::Read))),
        dcount(d.push(Some(VerifOp::Cons)).push(Some(VerifOp::Read)).push(Some(VerifOp::Read)), d.len() as int + 3) == dcount(d, d.len() as int) - 1
{
    let n = d.len() as int;
    let e = d.push(Some(VerifOp::Cons)).push(Some(VerifOp::Read)).push(Some(VerifOp::Read));
    lemma_dcount_agree(e, d, n);
    assert(dcount(e, n + 1) == dcount(d, n) + 1);
    assert(dcount(e, n + 2) == dcount(d, n));
    assert(dcount(e, n + 3) == dcount(d, n) - 1);
    assert forall|i: int| 0 <= i < e.len() implies (#[trigger] e[i]) is Some
        && (e[i] == Some(VerifOp::Cons) ==> dcount(e, i + 1) >= 1) && (e[i] == Some(VerifOp::Read) ==> dcount(e, i + 1) >= -1) by {
        if i < n { assert(e[i] == d[i]); lemma_dcount_agree(e, d, i + 1); }
    }
}
// the state of the run: while nothing failed the real run IS the consensus run and holds exactly one more value-to-come than it owes;
// after a failure it can never again end with a value on the stack
pub open spec fn balance(ops: Seq<Option<VerifOp>>, nvals: int) -> int { nvals - dcount(ops, ops.len() as int) }

// what one turn of the loop does to the three pieces of state, as the two contracts above give it
pub open spec fn cons_step(ops0: Seq<Option<VerifOp>>, vt0: Seq<Tree>, failed_now: bool, ops1: Seq<Option<VerifOp>>, vt1: Seq<Tree>) -> bool {
    let n = vt0.len() as int;
    ops1 == ops0.drop_last() && (
        if n >= 2 {
            if failed_now { vt1.len() == n - 2 }
            else { vt1 == vt0.subrange(0, n - 2).push(Tree::Pair(Box::new(vt0[n - 2]), Box::new(vt0[n - 1]))) }
        } else { !failed_now && vt1.len() == 0 })
}
pub open spec fn read_step(ops0: Seq<Option<VerifOp>>, vt0: Seq<Tree>, b0: Seq<u8>, failed_now: bool, ops1: Seq<Option<VerifOp>>, vt1: Seq<Tree>, b1: Seq<u8>) -> bool {
    let d = ops0.drop_last();
    b1.len() <= b0.len() && (
    if b0.len() == 0 { failed_now && ops1 == d && vt1 == vt0 }
    else if b0[0] == 0xff { !failed_now && vt1 == vt0 && ops1 == d.push(Some(VerifOp::Cons)).push(Some(VerifOp::Read)).push(Some(VerifOp::Read)) && b1 == b0.subrange(1, b0.len() as int) }
    else {
        ops1 == d && (match dec_atom(b0[0], b0.subrange(1, b0.len() as int)) {
            None => failed_now && vt1 == vt0,
            Some((atom, used)) => if failed_now { vt1 == vt0 } else { 0 <= used <= b0.len() - 1 && vt1 == vt0.push(Tree::Atom(atom)) && b1 == b0.subrange(1 + used, b0.len() as int) },
        })
    })
}
// the invariant of the loop
pub open spec fn run_inv(ops: Seq<Option<VerifOp>>, vt: Seq<Tree>, bytes: Seq<u8>, failed: bool, target: Option<Tree>) -> bool {
    shape_ok(ops)
    && (!failed ==> finish(ops, vt, bytes) == target && balance(ops, vt.len() as int) == 1)
    && (failed ==> balance(ops, vt.len() as int) <= 0)
}
pub proof fn lemma_cons_turn(ops0: Seq<Option<VerifOp>>, vt0: Seq<Tree>, bytes: Seq<u8>, failed: bool, target: Option<Tree>, failed_now: bool, ops1: Seq<Option<VerifOp>>, vt1: Seq<Tree>)
    requires run_inv(ops0, vt0, bytes, failed, target), ops0.len() > 0, ops0.last() == Some(VerifOp::Cons), cons_step(ops0, vt0, failed_now, ops1, vt1)
    ensures run_inv(ops1, vt1, bytes, failed || failed_now, target), 3 * bytes.len() + ops1.len() < 3 * bytes.len() + ops0.len()
{
    lemma_shape_pop(ops0);
    let k = ops0.len() as int;
    assert(ops0[k - 1] == Some(VerifOp::Cons));
    assert(dcount(ops0, k) >= 1);
    assert(dcount(ops0, k) == dcount(ops0, k - 1) + 1);
}
pub proof fn lemma_read_turn(ops0: Seq<Option<VerifOp>>, vt0: Seq<Tree>, b0: Seq<u8>, failed: bool, target: Option<Tree>, failed_now: bool, ops1: Seq<Option<VerifOp>>, vt1: Seq<Tree>, b1: Seq<u8>)
    requires run_inv(ops0, vt0, b0, failed, target), ops0.len() > 0, ops0.last() == Some(VerifOp::Read), read_step(ops0, vt0, b0, failed_now, ops1, vt1, b1)
    ensures run_inv(ops1, vt1, b1, failed || failed_now, target), 3 * b1.len() + ops1.len() < 3 * b0.len() + ops0.len()
{
    lemma_shape_pop(ops0);
    let k = ops0.len() as int;
    let d = ops0.drop_last();
    assert(ops0[k - 1] == Some(VerifOp::Read));
    assert(dcount(ops0, k) >= -1);
    assert(dcount(ops0, k) == dcount(ops0, k - 1) - 1);
    if b0.len() > 0 && b0[0] == 0xff { lemma_shape_push3(d); }
}

//@ note sexp_from_stream (C08): Ok(n) only with the tree the consensus deserialiser (finish, transcribed from clvmr) returns for these bytes, and Err whenever that fails -- although the operation loop DROPS the errors its operations report: after a dropped error the value stack can never again hold a value at the end (balance <= 0, by the shape of the operation stack)
//@ extract fn sexp_from_stream from src/classic/clvm/serialize.rs
//@ replace R10 @<pub fn sexp_from_stream<'a>(>@ => @<pub fn sexp_from_stream(>@
//@ replace R10 @<allocator: &'a mut Allocator,>@ => @<allocator: &mut Allocator,>@
//@ replace R42 @<to_sexp_f: Box<dyn TToSexpF<'a>>,>@ => @<to_sexp_f: VerifToSexp,>@
//@ replace R53 @<let mut op_stack: TOpStack = vec![Some(Box::new(OpReadSexp {}))];>@ => @<let mut op_stack: Vec<Option<VerifOp>> = vec![Some(VerifOp::Read)];>@
//@ replace R1 @<"No value left after conversion".to_string(),>@ => @<verif_opaque_string(),>@
//@ replace-span R48 @<while let Some(Some(func)) = op_stack.pop() {>@ @<);>@
    loop
        invariant
            alloc_ext(*old(allocator), *allocator), vals_ok(*allocator, val_stack@),
            stream_wf(*f), stream_same_data(*old(f), *f),
            stream_seek(*old(f)) + stream_rest(*old(f)).len() + 0x400000009 <= usize::MAX,
            stream_seek(*f) + stream_rest(*f).len() == stream_seek(*old(f)) + stream_rest(*old(f)).len(),
            verif_target == finish(seq![Some(VerifOp::Read)], Seq::<Tree>::empty(), stream_rest(*old(f))),
            run_inv(op_stack@, vtrees(*allocator, val_stack@), stream_rest(*f), verif_failed, verif_target),
        ensures op_stack@.len() == 0
        decreases 3 * stream_rest(*f).len() + op_stack@.len()
    {
        let ghost verif_ops0 = op_stack@;
        let ghost verif_vals0 = val_stack@;
        let ghost verif_a0 = *allocator;
        let ghost verif_b0 = stream_rest(*f);
        let verif_top = op_stack.pop();
        let func = match verif_top { Some(Some(func)) => func, _ => { proof { if verif_ops0.len() > 0 { assert(verif_ops0[verif_ops0.len() - 1] is Some); } } break; } };
        match func {
            VerifOp::Cons => {
                let verif_res = (OpCons {}).invoke(allocator, &mut op_stack, &mut val_stack, f, VerifToSexp::simple());
                proof {
                    let vt0 = vtrees(verif_a0, verif_vals0);
                    let vt1 = vtrees(*allocator, val_stack@);
                    let n = verif_vals0.len() as int;
                    if n >= 2 {
                        lemma_vals_ext(verif_a0, *allocator, verif_vals0.subrange(0, n - 2));
                        if verif_res is None {
                            assert(vt1 =~= vt0.subrange(0, n - 2).push(Tree::Pair(Box::new(vt0[n - 2]), Box::new(vt0[n - 1])))) by {
                                assert forall|i: int| 0 <= i < n - 2 implies vt1[i] == vt0[i] by {
                                    assert(val_stack@[i] == val_stack@.subrange(0, n - 2)[i]);
                                    assert(verif_vals0[i] == verif_vals0.subrange(0, n - 2)[i]);
                                    assert(vtrees(*allocator, verif_vals0.subrange(0, n - 2))[i] == vtrees(verif_a0, verif_vals0.subrange(0, n - 2))[i]);
                                }
                            }
                        }
                    }
                    lemma_cons_turn(verif_ops0, vt0, verif_b0, verif_failed, verif_target, verif_res is Some, op_stack@, vt1);
                    if verif_res is Some { verif_failed = true; }
                }
            }
            VerifOp::Read => {
                let verif_res = (OpReadSexp {}).invoke(allocator, &mut op_stack, &mut val_stack, f, VerifToSexp::simple());
                proof {
                    let vt0 = vtrees(verif_a0, verif_vals0);
                    let vt1 = vtrees(*allocator, val_stack@);
                    lemma_vals_ext(verif_a0, *allocator, verif_vals0);
                    if val_stack@ == verif_vals0 { assert(vt1 == vt0); }
                    else {
                        let m = verif_vals0.len() as int;
                        assert(val_stack@.subrange(0, m) == verif_vals0);
                        assert(vt1 =~= vt0.push(val_tree(*allocator, val_stack@[m]))) by {
                            assert forall|i: int| 0 <= i < m implies vt1[i] == vt0[i] by { assert(val_stack@[i] == val_stack@.subrange(0, m)[i]); }
                        }
                    }
                    lemma_read_turn(verif_ops0, vt0, verif_b0, verif_failed, verif_target, verif_res is Some, op_stack@, vt1, stream_rest(*f));
                    if verif_res is Some { verif_failed = true; }
                }
            }
        }
//@ sig r
    requires stream_wf(*old(f)), stream_seek(*old(f)) + stream_rest(*old(f)).len() + 0x400000009 <= usize::MAX
    ensures
        alloc_ext(*old(allocator), *final(allocator)),
        match finish(seq![Some(VerifOp::Read)], Seq::<Tree>::empty(), stream_rest(*old(f))) {
            Some(t) => (r matches Ok(red) ==> node_tree(*final(allocator), red.1) == Some(t)),
            None => r is Err,
        },
//@ before stmt @<let mut op_stack>@
    let ghost verif_target = finish(seq![Some(VerifOp::Read)], Seq::<Tree>::empty(), stream_rest(*f));
    let ghost mut verif_failed = false;
//@ after stmt @<let mut val_stack: TValStack = vec![];>@
    proof {
        assert(op_stack@ =~= seq![Some(VerifOp::Read)]);
        assert(vtrees(*allocator, val_stack@) =~= Seq::<Tree>::empty());
        reveal_with_fuel(dcount, 3);
        assert(dcount(op_stack@, 1) == -1);
    }
//@ end

// ---- C08 round trip: the consensus deserialiser reads back what the serialiser wrote (ser, the postcondition of sexp_to_stream,
// unit serloop), whatever follows it in the stream -- and by the contract above sexp_from_stream is that deserialiser
pub open spec fn atoms_fit(t: Tree) -> bool
    decreases t
{
    match t { Tree::Atom(a) => a.len() < 0x400000000, Tree::Pair(l, r) => atoms_fit(*l) && atoms_fit(*r) }
}
pub proof fn lemma_enc_first_byte(a: Seq<u8>)
    requires a.len() < 0x400000000
    ensures enc_atom(a).len() >= 1, enc_atom(a)[0] != 0xff
{
    if a.len() == 0 {} else if a.len() == 1 && a[0] <= 0x7f {} else {
        let n = a.len() as u64;
        lemma_prefix_decodes(n);
        assert(lead_ones(0xffu8) == 8);
    }
}
pub proof fn lemma_finish_ser(t: Tree, ops: Seq<Option<VerifOp>>, vals: Seq<Tree>, rest: Seq<u8>)
    requires atoms_fit(t)
    ensures finish(ops.push(Some(VerifOp::Read)), vals, ser(t) + rest) == finish(ops, vals.push(t), rest)
    decreases t
{
    let o1 = ops.push(Some(VerifOp::Read));
    assert(o1.drop_last() =~= ops);
    match t {
        Tree::Atom(a) => {
            let bytes = enc_atom(a) + rest;
            lemma_enc_first_byte(a);
            lemma_dec_enc_atom(a, rest);
            let used = enc_atom(a).len() - 1;
            assert(bytes.subrange(1 + used, bytes.len() as int) =~= rest);
            assert(ser(t) + rest == bytes);
        }
        Tree::Pair(l, r) => {
            let bytes = ser(t) + rest;
            assert(bytes =~= seq![0xffu8] + (ser(*l) + (ser(*r) + rest)));
            assert(bytes[0] == 0xff);
            assert(bytes.subrange(1, bytes.len() as int) =~= ser(*l) + (ser(*r) + rest));
            let o3 = ops.push(Some(VerifOp::Cons)).push(Some(VerifOp::Read)).push(Some(VerifOp::Read));
            let o2 = ops.push(Some(VerifOp::Cons)).push(Some(VerifOp::Read));
            let oc = ops.push(Some(VerifOp::Cons));
            assert(finish(o1, vals, bytes) == finish(o3, vals, ser(*l) + (ser(*r) + rest)));
            lemma_finish_ser(*l, o2, vals, ser(*r) + rest);
            lemma_finish_ser(*r, oc, vals.push(*l), rest);
            let v2 = vals.push(*l).push(*r);
            assert(oc.drop_last() =~= ops);
            assert(v2.subrange(0, v2.len() - 2) =~= vals);
            assert(finish(oc, v2, rest) == finish(ops, vals.push(Tree::Pair(Box::new(*l), Box::new(*r))), rest));
        }
    }
}
pub proof fn lemma_round_trip(t: Tree, rest: Seq<u8>)
    requires atoms_fit(t)
    ensures finish(seq![Some(VerifOp::Read)], Seq::<Tree>::empty(), ser(t) + rest) == Some(t)
{
    let e = Seq::<Option<VerifOp>>::empty();
    lemma_finish_ser(t, e, Seq::<Tree>::empty(), rest);
    assert(e.push(Some(VerifOp::Read)) =~= seq![Some(VerifOp::Read)]);
    assert(Seq::<Tree>::empty().push(t).last() == t);
}

}
fn main() {}
