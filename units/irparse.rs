#![feature(allocator_api)]
#![allow(unused_imports, dead_code, unused_variables, unused_mut, unused_parens)]
use vstd::prelude::*;
use std::rc::Rc;
use std::mem::swap;

verus! {
global size_of usize == 8;
//@ include prelude/misc.rs
//@ include prelude/std.rs
//@ include units/inc/bytes.rs
//@ include units/inc/stream.rs
//@ include units/inc/scan.rs
//@ extract struct SyntaxErr from src/classic/clvm/syntax_error.rs
//@ end
impl SyntaxErr {
//@ extract fn new from src/classic/clvm/syntax_error.rs in impl SyntaxErr
//@ end
}
//@ extract enum IRRepr from src/classic/clvm_tools/ir/type.rs
//@ end
//@ include units/inc/irshow.rs
//@ extract struct IRReader from src/classic/clvm_tools/ir/reader.rs
//@ end
pub closed spec fn rd_stream(r: IRReader) -> Stream { r.stream }
pub open spec fn rd_rest(r: IRReader) -> Seq<u8> { stream_rest(rd_stream(r)) }
pub closed spec fn stream_len(s: Stream) -> int { s.length as int }
// reader state the classic reader keeps between its functions: a well-formed stream whose cursor is inside the text
pub open spec fn rd_ok(r: IRReader) -> bool {
    stream_wf(rd_stream(r)) && 0 <= stream_seek(rd_stream(r)) <= stream_len(rd_stream(r)) && stream_len(rd_stream(r)) < 0x7fff_ffff_ffff_ffff
}
pub proof fn lemma_rest_len(r: IRReader)
    requires rd_ok(r)
    ensures rd_rest(r).len() == stream_len(rd_stream(r)) - stream_seek(rd_stream(r))
{}
pub proof fn lemma_rest_by_seek(a: IRReader, b: IRReader)
    requires stream_same_data(rd_stream(a), rd_stream(b)), stream_seek(rd_stream(a)) == stream_seek(rd_stream(b))
    ensures rd_rest(a) == rd_rest(b), stream_len(rd_stream(a)) == stream_len(rd_stream(b))
{}
pub proof fn lemma_same_len(a: IRReader, b: IRReader)
    requires stream_same_data(rd_stream(a), rd_stream(b))
    ensures stream_len(rd_stream(a)) == stream_len(rd_stream(b))
{}
// the text from position k on
pub closed spec fn rest_at(r: IRReader, k: int) -> Seq<u8> {
    if 0 <= k <= r.stream.length { r.stream.buffer@.subrange(k, r.stream.length as int) } else { Seq::<u8>::empty() }
}
pub proof fn lemma_rest_at(r: IRReader)
    requires rd_ok(r)
    ensures rd_rest(r) == rest_at(r, stream_seek(rd_stream(r)))
{}
pub proof fn lemma_rest_at_same(a: IRReader, b: IRReader, k: int)
    requires stream_same_data(rd_stream(a), rd_stream(b))
    ensures rest_at(a, k) == rest_at(b, k)
{}
pub proof fn lemma_rest_at_step(r: IRReader, k: int)
    requires stream_wf(rd_stream(r)), 0 <= k < stream_len(rd_stream(r))
    ensures rest_at(r, k).len() == stream_len(rd_stream(r)) - k, rest_at(r, k + 1) == rest_at(r, k).subrange(1, rest_at(r, k).len() as int)
{
    assert(rest_at(r, k + 1) =~= rest_at(r, k).subrange(1, rest_at(r, k).len() as int));
}

impl Stream {
// proved in unit `ser` (same contract text)
//@ extract fn read from src/classic/clvm/__type_compatibility__.rs in impl Stream
//@ stub
//@ sigfile r contracts/stream_read.sig
//@ end
//@ extract fn new from src/classic/clvm/__type_compatibility__.rs in impl Stream
//@ sig r
    ensures stream_wf(r), stream_seek(r) == 0,
        b matches Some(x) ==> stream_len(r) == bv(x).len() && stream_rest(r) == bv(x),
        b is None ==> stream_len(r) == 0,
//@ before #1 stmt @<Stream {>@
                proof { assert(data@.subrange(0, data@.len() as int) =~= data@); }
//@ end
//@ extract fn get_seek from src/classic/clvm/__type_compatibility__.rs in impl Stream
//@ sig r
    ensures r == stream_seek(*self)
//@ end
//@ extract fn set_seek from src/classic/clvm/__type_compatibility__.rs in impl Stream
//@ sig
    requires stream_len(*old(self)) >= 1
    ensures stream_same_data(*old(self), *final(self)), stream_wf(*old(self)) ==> stream_wf(*final(self)),
        stream_seek(*final(self)) == (if value < 0 { stream_len(*old(self)) - 1 } else if value > stream_len(*old(self)) - 1 { stream_len(*old(self)) } else { value as int }),
//@ end
}
impl IRReader {
// proved in unit `quoted` (same contract text)
//@ extract fn read from src/classic/clvm_tools/ir/reader.rs in impl IRReader
//@ stub
//@ sigfile r contracts/irreader_read.sig
//@ end
//@ extract fn backup from src/classic/clvm_tools/ir/reader.rs in impl IRReader
//@ sig
    requires rd_ok(*old(self)), stream_len(rd_stream(*old(self))) >= 1
    ensures rd_ok(*final(self)), stream_same_data(rd_stream(*old(self)), rd_stream(*final(self))),
        stream_seek(rd_stream(*final(self))) == (if n > stream_seek(rd_stream(*old(self))) { 0 } else { stream_seek(rd_stream(*old(self))) - n }),
//@ end
}

//@ extract fn is_eol from src/classic/clvm_tools/ir/reader.rs
//@ sig r
    ensures r == (chval == 13 || chval == 10)
//@ end
//@ extract fn is_space from src/classic/clvm_tools/ir/reader.rs
//@ sig r
    ensures r == sp(chval)
//@ end
pub open spec fn sp(c: u8) -> bool { c == 32 || c == 9 || c == 13 || c == 10 }
// SPEC: the text left after blanks and ; comments (a comment runs to the end of its line)
pub open spec fn skip_ws(t: Seq<u8>, in_comment: bool) -> Seq<u8>
    decreases t.len()
{
    if t.len() == 0 { t } else {
        let c = t[0];
        let r = t.subrange(1, t.len() as int);
        if in_comment { if c == 13 || c == 10 { skip_ws(r, false) } else { skip_ws(r, true) } }
        else if c == 0x3b { skip_ws(r, true) }
        else if sp(c) { skip_ws(r, false) }
        else { t }
    }
}
pub proof fn lemma_skip_ws_suffix(t: Seq<u8>, c: bool)
    ensures skip_ws(t, c).len() <= t.len(), skip_ws(t, c) == t.subrange(t.len() - skip_ws(t, c).len(), t.len() as int),
        skip_ws(t, c).len() > 0 ==> !sp(skip_ws(t, c)[0]) && skip_ws(t, c)[0] != 0x3b,
    decreases t.len()
{
    if t.len() > 0 {
        let r = t.subrange(1, t.len() as int);
        lemma_skip_ws_suffix(r, true);
        lemma_skip_ws_suffix(r, false);
        let k = skip_ws(t, c);
        assert(k =~= t.subrange(t.len() - k.len(), t.len() as int));
    } else {
        assert(t =~= t.subrange(0, 0));
    }
}

//@ note consume_whitespace: leaves the stream at the first byte that is neither blank nor inside a ; comment (skip_ws), or at the end of the text
//@ extract fn consume_whitespace from src/classic/clvm_tools/ir/reader.rs
//@ canary comment_never_ends @<in_comment = false;>@ => @<in_comment = true;>@
//@ sig
    requires rd_ok(*old(s))
    ensures rd_ok(*final(s)), stream_same_data(rd_stream(*old(s)), rd_stream(*final(s))),
        rd_rest(*final(s)) == skip_ws(rd_rest(*old(s)), false),
//@ before stmt @<let mut in_comment = false;>@
    let ghost rest0 = rd_rest(*s);
    let ghost s0 = *s;
    let ghost mut verif_k: int = stream_seek(rd_stream(*s));
    proof { lemma_rest_at(*s); }
//@ loop 0
        invariant_except_break
            verif_k == stream_seek(rd_stream(*s)),
            skip_ws(rest0, false) == skip_ws(rd_rest(*s), in_comment),
        invariant
            rd_ok(*s), stream_same_data(rd_stream(s0), rd_stream(*s)), rest0 == rd_rest(s0), s0 == *old(s),
        ensures
            rd_ok(*s), stream_same_data(rd_stream(s0), rd_stream(*s)),
            stream_seek(rd_stream(*s)) == verif_k + 1, 0 <= verif_k < stream_len(rd_stream(*s)),
            skip_ws(rest0, false) == rest_at(*s, verif_k),
        decreases rd_rest(*s).len()
//@ before stmt @<let b = s.read(1);>@
        let ghost verif_before = *s;
        proof { lemma_rest_at(*s); lemma_rest_len(*s); }
//@ after stmt @<let b = s.read(1);>@
        proof {
            lemma_same_len(verif_before, *s);
            lemma_rest_at_same(verif_before, *s, verif_k);
            if bv(b).len() > 0 {
                lemma_rest_at_step(*s, verif_k);
                lemma_rest_at(*s);
                assert(bv(b)[0] == rd_rest(verif_before)[0]);
            }
        }
//@ after stmt @<let ch = b.at(0);>@
        proof { verif_k = verif_k + 1; }
//@ before stmt @<break;>@
        proof { verif_k = verif_k - 1; }
//@ before stmt @<s.backup(1);>@
    let ghost verif_mid = *s;
//@ after stmt @<s.backup(1);>@
    proof {
        lemma_same_len(verif_mid, *s);
        lemma_rest_at_same(verif_mid, *s, verif_k);
        lemma_rest_at(*s);
    }
//@ end

// bytes that end a bare atom
pub open spec fn delim(c: u8) -> bool { c == 0x28 || c == 0x29 || sp(c) }
pub open spec fn atom_len(t: Seq<u8>) -> int
    decreases t.len()
{
    if t.len() == 0 || delim(t[0]) { 0 } else { 1 + atom_len(t.subrange(1, t.len() as int)) }
}
pub proof fn lemma_atom_len(t: Seq<u8>)
    ensures 0 <= atom_len(t) <= t.len()
    decreases t.len()
{
    if t.len() > 0 && !delim(t[0]) { lemma_atom_len(t.subrange(1, t.len() as int)); }
}
// what the atom text denotes (numbers, hex, symbols): string parsing, outside this unit
pub uninterp spec fn interp_v(chars: Seq<u8>) -> Option<IRS>;
//@ extract fn interpret_atom_value from src/classic/clvm_tools/ir/reader.rs
//@ stub
//@ sig r
    ensures match interp_v(chars@) { Some(v) => r matches Ok(x) && irv(x) == v, None => r is Err }
//@ end
pub open spec fn is_suffix(a: Seq<u8>, b: Seq<u8>) -> bool { a.len() <= b.len() && a == b.subrange(b.len() - a.len(), b.len() as int) }

//@ note consume_atom: the atom is the given first byte(s) followed by the bytes up to the next parenthesis, blank or the end of the text; the stream is left at that delimiter
//@ extract fn consume_atom from src/classic/clvm_tools/ir/reader.rs
//@ canary eats_delimiter @<s.backup(1);>@ => @<s.backup(0);>@
//@ replace all R4 @<interpret_atom_value(&result_vec).map(Some)>@ => @<(match interpret_atom_value(&result_vec) { Ok(verif_v) => Ok(Some(verif_v)), Err(verif_e) => Err(verif_e) })>@
//@ sig r
    requires rd_ok(*old(s))
    ensures rd_ok(*final(s)), stream_same_data(rd_stream(*old(s)), rd_stream(*final(s))),
        ({ let rest0 = rd_rest(*old(s));
           let n = atom_len(rest0);
           let text = bv(*b) + rest0.subrange(0, n);
           rd_rest(*final(s)) == rest0.subrange(n, rest0.len() as int)
           && stream_seek(rd_stream(*final(s))) == stream_seek(rd_stream(*old(s))) + n
           && (if text.len() == 0 && n == rest0.len() { r matches Ok(None) } else {
                   match interp_v(text) { Some(v) => r matches Ok(Some(x)) && irv(x) == v, None => r is Err } }) }),
//@ before stmt @<let mut result_vec>@
    let ghost rest0 = rd_rest(*s);
    let ghost s0 = *s;
    let ghost mut verif_n: int = 0;
    let ghost verif_b0 = bv(*b);
    proof { lemma_atom_len(rest0); lemma_rest_at(*s); lemma_rest_len(*s); assert(rest0.subrange(0, 0) =~= Seq::<u8>::empty()); assert(verif_b0 + Seq::<u8>::empty() =~= verif_b0); assert(rest0.subrange(0, rest0.len() as int) =~= rest0); }
//@ loop 0
        invariant
            rd_ok(*s), stream_same_data(rd_stream(s0), rd_stream(*s)), rest0 == rd_rest(s0), s0 == *old(s),
            0 <= verif_n <= rest0.len(),
            stream_seek(rd_stream(*s)) == stream_seek(rd_stream(s0)) + verif_n,
            rd_rest(*s) == rest0.subrange(verif_n, rest0.len() as int),
            result_vec@ == verif_b0 + rest0.subrange(0, verif_n), verif_b0 == bv(*b),
            atom_len(rest0) == verif_n + atom_len(rd_rest(*s)),
        decreases rest0.len() - verif_n
//@ before stmt @<let b = s.read(1);>@
        let ghost verif_before = *s;
        proof { lemma_rest_len(*s); lemma_same_len(s0, *s); }
//@ after stmt @<let b = s.read(1);>@
        proof {
            lemma_same_len(verif_before, *s);
            if bv(b).len() > 0 { assert(bv(b)[0] == rd_rest(verif_before)[0]); }
            else { assert(rd_rest(verif_before).len() == 0); assert(rest0.subrange(0, verif_n) =~= rest0.subrange(0, rest0.len() as int)); }
        }
//@ before stmt @<s.backup(1);>@
            let ghost verif_mid = *s;
            proof { lemma_rest_at(verif_before); }
//@ after stmt @<s.backup(1);>@
            proof {
                lemma_same_len(verif_mid, *s);
                lemma_rest_at_same(verif_before, *s, stream_seek(rd_stream(verif_before)));
                lemma_rest_at(*s);
            }
//@ after stmt @<result_vec.push(b.at(0));>@
        proof {
            assert(rest0.subrange(0, verif_n + 1) =~= rest0.subrange(0, verif_n).push(rest0[verif_n]));
            assert(verif_b0 + rest0.subrange(0, verif_n + 1) =~= (verif_b0 + rest0.subrange(0, verif_n)).push(rest0[verif_n]));
            assert(rd_rest(*s) =~= rest0.subrange(verif_n + 1, rest0.len() as int));
            verif_n = verif_n + 1;
        }
//@ end

//@ note enlist_ir: indexes only elements that are there (it empties the vector's slots back to front)
//@ extract fn enlist_ir from src/classic/clvm_tools/ir/reader.rs
//@ replace R49 @<fn enlist_ir(vec: &mut [IRRepr], tail: IRRepr) -> IRRepr {>@ => @<fn enlist_ir(vec: &mut Vec<IRRepr>, tail: IRRepr) -> IRRepr {>@
//@ replace R4 @<swap(&mut vec[i], &mut next_head);>@ => @<verif_swap_at(vec, i, &mut next_head);>@
//@ sig r
    ensures irv(r) == enlist_v(irvs(old(vec)@), irv(tail))
//@ before stmt @<let mut result = tail;>@
    let ghost verif_v0 = irvs(vec@);
    let ghost verif_t0 = irv(tail);
    proof { assert(verif_v0.subrange(0, vec@.len() as int) =~= verif_v0); }
//@ loop 0
        invariant
            vec@.len() == old(vec)@.len(), verif_v0 == irvs(old(vec)@), verif_v0.len() == vec@.len(),
            forall|j: int| 0 <= j < vec@.len() - i_reverse ==> irv(#[trigger] vec@[j]) == verif_v0[j],
            enlist_v(verif_v0, verif_t0) == enlist_v(verif_v0.subrange(0, vec@.len() - i_reverse), irv(result)),
//@ after stmt @<result = IRRepr::Cons(Rc::new(next_head), Rc::new(result));>@
        proof {
            let k = vec@.len() - i_reverse;
            let pre = verif_v0.subrange(0, k);
            assert(pre.drop_last() =~= verif_v0.subrange(0, k - 1));
            assert(pre.last() == verif_v0[k - 1]);
        }
//@ before tail
    proof { assert(verif_v0.subrange(0, 0) =~= Seq::<IRS>::empty()); }
//@ end
// R4: std::mem::swap(&mut vec[i], &mut x) -> exchange of element i with x (trusted)
#[verifier::external_body]
pub fn verif_swap_at(vec: &mut Vec<IRRepr>, i: usize, x: &mut IRRepr)
    requires i < old(vec)@.len()
    ensures final(vec)@ == old(vec)@.update(i as int, *old(x)), *final(x) == old(vec)@[i as int]
{ unimplemented!() }

// proved in unit `quoted` (same contract text)
//@ extract fn consume_quoted from src/classic/clvm_tools/ir/reader.rs
//@ stub
//@ sigfile r contracts/consume_quoted.sig
//@ end

// what every reader function keeps: the text is unchanged and the cursor stays inside it; when it returns a value the cursor has only moved forward
pub open spec fn kept(a: IRReader, b: IRReader) -> bool { rd_ok(b) && stream_same_data(rd_stream(a), rd_stream(b)) }
pub open spec fn fwd(a: IRReader, b: IRReader) -> bool { stream_seek(rd_stream(b)) >= stream_seek(rd_stream(a)) }
pub proof fn lemma_kept_trans(a: IRReader, b: IRReader, c: IRReader)
    requires kept(a, b), kept(b, c)
    ensures kept(a, c)
{}
pub proof fn lemma_fwd_trans(a: IRReader, b: IRReader, c: IRReader)
    requires fwd(a, b), fwd(b, c)
    ensures fwd(a, c)
{}
pub proof fn lemma_fwd_by(a: IRReader, b: IRReader, k: int)
    requires rd_ok(a), kept(a, b), 0 <= k <= rd_rest(a).len(), rd_rest(b) == rd_rest(a).subrange(k, rd_rest(a).len() as int)
    ensures fwd(a, b), rd_rest(b).len() == rd_rest(a).len() - k, stream_seek(rd_stream(b)) == stream_seek(rd_stream(a)) + k
{
    lemma_rest_len(a); lemma_rest_len(b); lemma_same_len(a, b);
}
// with the text unchanged, the remaining text is a suffix of what it was
pub proof fn lemma_fwd_suffix(a: IRReader, b: IRReader)
    requires rd_ok(a), kept(a, b), fwd(a, b)
    ensures is_suffix(rd_rest(b), rd_rest(a))
{
    let x = rd_rest(a); let y = rd_rest(b);
    assert(y =~= x.subrange(x.len() - y.len(), x.len() as int));
}
pub proof fn lemma_rdok_from_sum(a: IRReader, b: IRReader)
    requires rd_ok(a), stream_wf(rd_stream(b)), stream_same_data(rd_stream(a), rd_stream(b)),
        stream_seek(rd_stream(b)) + rd_rest(b).len() == stream_seek(rd_stream(a)) + rd_rest(a).len()
    ensures rd_ok(b)
{}
pub proof fn lemma_scan_bound(rest: Seq<u8>, q: u8, bs: bool)
    ensures scan(rest, q, bs) matches Some((t, n)) ==> 1 <= n <= rest.len()
    decreases rest.len()
{
    if rest.len() > 0 {
        let r = rest.subrange(1, rest.len() as int);
        lemma_scan_bound(r, q, true);
        lemma_scan_bound(r, q, false);
    }
}

// SPEC: the grammar the classic reader accepts, as a function of the remaining text: the term read and the text left, or None for an error
pub open spec fn p_obj(t: Seq<u8>) -> Option<(IRS, Seq<u8>)>
    decreases t.len(), 1int
{
    let t1 = skip_ws(t, false);
    if t1.len() > t.len() { None }
    else if t1.len() == 0 { Some((IRS::Null, t1)) }
    else {
        let c = t1[0];
        let r = t1.subrange(1, t1.len() as int);
        if c == 0x28 { p_body(r, Seq::<IRS>::empty()) }
        else if c == 0x22 || c == 0x27 { match scan(r, c, false) { Some((text, n)) => if 1 <= n <= r.len() { Some((IRS::Quotes(text), r.subrange(n, r.len() as int))) } else { None }, None => None } }
        else {
            let n = atom_len(r);
            if !(0 <= n <= r.len()) { None } else { match interp_v(seq![c] + r.subrange(0, n)) { Some(v) => Some((v, r.subrange(n, r.len() as int))), None => None } }
        }
    }
}
pub open spec fn p_body(t: Seq<u8>, acc: Seq<IRS>) -> Option<(IRS, Seq<u8>)>
    decreases t.len(), 0int
{
    let t1 = skip_ws(t, false);
    if t1.len() == 0 || t1.len() > t.len() { None } else {
        let c = t1[0];
        let r = t1.subrange(1, t1.len() as int);
        if c == 0x29 { Some((enlist_v(acc, IRS::Null), r)) }
        else if c == 0x28 { match p_body(r, Seq::<IRS>::empty()) { Some((v, r2)) => if r2.len() <= r.len() { p_body(r2, acc.push(v)) } else { None }, None => None } }
        else if c == 0x2e {
            let t2 = skip_ws(r, false);
            if t2.len() > r.len() { None } else { match p_obj(t2) {
                Some((v, r3)) => { let t3 = skip_ws(r3, false); if t3.len() > 0 && t3[0] == 0x29 { Some((enlist_v(acc, v), t3.subrange(1, t3.len() as int))) } else { None } },
                None => None,
            } }
        }
        else if c == 0x22 || c == 0x27 { match scan(r, c, false) { Some((text, n)) => if 1 <= n <= r.len() { p_body(r.subrange(n, r.len() as int), acc.push(IRS::Quotes(text))) } else { None }, None => None } }
        else {
            let n = atom_len(r);
            if !(0 <= n <= r.len()) { None } else { match interp_v(seq![c] + r.subrange(0, n)) { Some(v) => p_body(r.subrange(n, r.len() as int), acc.push(v)), None => None } }
        }
    }
}
pub open spec fn parsed(res: Result<IRRepr, SyntaxErr>, fin: Seq<u8>, want: Option<(IRS, Seq<u8>)>) -> bool {
    match want { Some((v, rem)) => res matches Ok(x) && irv(x) == v && fin == rem, None => res is Err }
}
pub proof fn lemma_irvs_push(v: Seq<IRRepr>, x: IRRepr)
    ensures irvs(v.push(x)) == irvs(v).push(irv(x))
{
    assert(irvs(v.push(x)) =~= irvs(v).push(irv(x)));
}

//@ note consume_cons_body / consume_object (the classic reader as a whole, C14): for every text, every index is in range, every read is inside the text, the cursor only moves forward and both functions terminate (each list element consumes at least one byte)
//@ extract fn consume_cons_body from src/classic/clvm_tools/ir/reader.rs
//@ canary dot_needs_no_paren @<if b.length() == 0 || b.at(0) != b')' {>@ => @<if b.length() == 0 {>@
//@ replace all R1 @<"missing )".to_string()>@ => @<verif_opaque_string()>@
//@ sig r
    requires rd_ok(*old(s)), stream_seek(rd_stream(*old(s))) >= 1
    ensures kept(*old(s), *final(s)), r is Ok ==> fwd(*old(s), *final(s)),
        parsed(r, rd_rest(*final(s)), p_body(rd_rest(*old(s)), Seq::<IRS>::empty())),
    decreases rd_rest(*old(s)).len(), 1int
//@ before stmt @<let mut result = vec![];>@
    let ghost s0 = *s;
    let ghost verif_target = p_body(rd_rest(*s), Seq::<IRS>::empty());
    proof { assert(rd_rest(s0).subrange(0, rd_rest(s0).len() as int) =~= rd_rest(s0)); lemma_fwd_by(s0, *s, 0); }
//@ after stmt @<let mut result = vec![];>@
    proof { assert(irvs(result@) =~= Seq::<IRS>::empty()); }
//@ loop 0
        invariant
            s0 == *old(s), kept(s0, *s), fwd(s0, *s), stream_seek(rd_stream(*s)) >= 1,
            verif_target == p_body(rd_rest(s0), Seq::<IRS>::empty()),
            verif_target == p_body(rd_rest(*s), irvs(result@)),
        decreases rd_rest(*s).len()
//@ before #0 stmt @<consume_whitespace(s);>@
        let ghost verif_top = *s;
        let ghost verif_acc = irvs(result@);
        proof { lemma_skip_ws_suffix(rd_rest(*s), false); lemma_rest_len(*s); }
//@ after #0 stmt @<consume_whitespace(s);>@
        let ghost verif_ws = *s;
        proof {
            lemma_same_len(verif_top, *s); lemma_rest_len(*s);
            lemma_fwd_by(verif_top, *s, rd_rest(verif_top).len() - rd_rest(*s).len());
            lemma_fwd_trans(s0, verif_top, *s);
        }
//@ after #0 stmt @<let b = s.read(1);>@
        let ghost verif_rd = *s;
        let ghost verif_t1 = rd_rest(verif_ws);
        let ghost verif_r = rd_rest(*s);
        proof {
            lemma_same_len(verif_ws, *s); lemma_rest_len(*s);
            if bv(b).len() > 0 {
                lemma_fwd_by(verif_ws, *s, 1);
                lemma_fwd_trans(s0, verif_ws, *s);
                assert(bv(b) =~= seq![verif_t1[0]]);
                assert(verif_r == verif_t1.subrange(1, verif_t1.len() as int));
                lemma_scan_bound(verif_r, verif_t1[0], false);
                lemma_atom_len(verif_r);
                lemma_skip_ws_suffix(verif_r, false);
            }
        }
//@ after stmt @<let v = consume_cons_body(s)?;>@
            proof { lemma_fwd_trans(s0, verif_rd, *s); lemma_rest_len(*s); lemma_same_len(verif_rd, *s); lemma_rest_len(verif_rd); }
//@ before #0 stmt @<result.push(v);>@
            let ghost verif_res0 = result@;
            let ghost verif_v = v;
//@ after #0 stmt @<result.push(v);>@
            proof { lemma_irvs_push(verif_res0, verif_v); }
//@ before #1 stmt @<result.push(v);>@
            let ghost verif_res0 = result@;
            let ghost verif_v = v;
//@ after #1 stmt @<result.push(v);>@
            proof { lemma_irvs_push(verif_res0, verif_v); }
//@ after stmt @<let v = consume_quoted(s, b.at(0))?;>@
            proof {
                lemma_rdok_from_sum(verif_rd, *s);
                match scan(rd_rest(verif_rd), bv(b)[0], false) { Some((t, n)) => { lemma_fwd_by(verif_rd, *s, n); } None => {} }
                lemma_fwd_trans(s0, verif_rd, *s);
            }
//@ before #1 stmt @<consume_whitespace(s);>@
            proof { lemma_skip_ws_suffix(rd_rest(*s), false); lemma_rest_len(*s); }
//@ after #1 stmt @<consume_whitespace(s);>@
            let ghost verif_ws2 = *s;
            proof {
                lemma_same_len(verif_rd, *s); lemma_rest_len(*s);
                lemma_fwd_by(verif_rd, *s, rd_rest(verif_rd).len() - rd_rest(*s).len());
                lemma_fwd_trans(s0, verif_rd, *s);
            }
//@ after stmt @<let v = consume_object(s)?;>@
            let ghost verif_obj = *s;
            proof { lemma_fwd_trans(s0, verif_ws2, *s); lemma_skip_ws_suffix(rd_rest(*s), false); lemma_rest_len(*s); }
//@ after #2 stmt @<consume_whitespace(s);>@
            let ghost verif_ws3 = *s;
            proof {
                lemma_same_len(verif_obj, *s); lemma_rest_len(*s);
                lemma_fwd_by(verif_obj, *s, rd_rest(verif_obj).len() - rd_rest(*s).len());
                lemma_fwd_trans(s0, verif_obj, *s);
            }
//@ after #1 stmt @<let b = s.read(1);>@
            proof {
                lemma_same_len(verif_ws3, *s); lemma_rest_len(*s);
                if bv(b).len() > 0 { lemma_fwd_by(verif_ws3, *s, 1); lemma_fwd_trans(s0, verif_ws3, *s); assert(bv(b)[0] == rd_rest(verif_ws3)[0]); }
            }
//@ before stmt @<result.push(f);>@
            let ghost verif_res0 = result@;
            let ghost verif_v = f;
            proof {
                lemma_same_len(verif_rd, *s); lemma_rest_len(*s); lemma_rest_len(verif_rd);
                lemma_fwd_by(verif_rd, *s, atom_len(rd_rest(verif_rd)));
                lemma_fwd_trans(s0, verif_rd, *s);
            }
//@ after stmt @<result.push(f);>@
            proof { lemma_irvs_push(verif_res0, verif_v); }
//@ end
//@ extract fn consume_object from src/classic/clvm_tools/ir/reader.rs
//@ replace all R1 @<"empty stream".to_string()>@ => @<verif_opaque_string()>@
//@ sig r
    requires rd_ok(*old(s))
    ensures kept(*old(s), *final(s)), r is Ok ==> fwd(*old(s), *final(s)),
        parsed(r, rd_rest(*final(s)), p_obj(rd_rest(*old(s)))),
    decreases rd_rest(*old(s)).len(), 2int
//@ before stmt @<consume_whitespace(s);>@
    let ghost s0 = *s;
    proof { lemma_skip_ws_suffix(rd_rest(*s), false); lemma_rest_len(*s); }
//@ after stmt @<consume_whitespace(s);>@
    let ghost verif_ws = *s;
    proof {
        lemma_same_len(s0, *s); lemma_rest_len(*s);
        lemma_fwd_by(s0, *s, rd_rest(s0).len() - rd_rest(*s).len());
    }
//@ after stmt @<let b = s.read(1);>@
    let ghost verif_rd = *s;
    let ghost verif_t1 = rd_rest(verif_ws);
    let ghost verif_r = rd_rest(*s);
    proof {
        lemma_same_len(verif_ws, *s); lemma_rest_len(*s);
        if bv(b).len() > 0 {
            lemma_fwd_by(verif_ws, *s, 1); lemma_fwd_trans(s0, verif_ws, *s);
            lemma_scan_bound(rd_rest(verif_rd), bv(b)[0], false);
            lemma_atom_len(rd_rest(verif_rd));
            assert(bv(b) =~= seq![verif_t1[0]]);
            assert(verif_r == verif_t1.subrange(1, verif_t1.len() as int));
        } else {
            lemma_fwd_by(verif_ws, *s, 0); lemma_fwd_trans(s0, verif_ws, *s);
        }
    }
//@ end

// ---- C09, text level: what the classic writer prints (show: transcribed from IROutputIterator, proved to be what it emits in unit
// irwrite) is read back by the reader above as the same term.  Leaf tokens are abstract: tok(v) is the text of an atom-like term; what is
// ASSUMED of it (leaf_ok) is what the string conversions and the keyword table owe: a number / hex / symbol token has no blank or
// parenthesis inside, does not begin like a dot, string or comment, and interpret_atom_value reads it back as the term; a quoted string
// begins with its quote and scans back to its bytes (lemma scan_reads_back, unit quoted, given that the writer escapes quote and backslash)
pub open spec fn quote_byte(c: u8) -> bool { c == 0x22 || c == 0x27 }
pub open spec fn leaf_ok(v: IRS) -> bool {
    let t = tok(v);
    !(v is Cons) && !(v is Null) && t.len() > 0 && (
        if v is Quotes {
            quote_byte(t[0]) && forall|rest: Seq<u8>| #[trigger] scan(t.subrange(1, t.len() as int) + rest, t[0], false) == Some((v->Quotes_0, t.len() - 1))
        } else {
            !quote_byte(t[0]) && t[0] != 0x2e && t[0] != 0x3b
            && (forall|i: int| 0 <= i < t.len() ==> !delim(#[trigger] t[i]))
            && interp_v(t) == Some(v)
        })
}
pub open spec fn wf_ir(v: IRS) -> bool
    decreases v
{
    match v { IRS::Cons(l, r) => wf_ir(*l) && wf_ir(*r), IRS::Null => true, _ => leaf_ok(v) }
}
// the list the reader has collected so far, continued by the remaining structure v
pub open spec fn build(acc: Seq<IRS>, v: IRS) -> IRS
    decreases v
{
    match v { IRS::Cons(l, r) => build(acc.push(*l), *r), _ => enlist_v(acc, v) }
}
pub proof fn lemma_enlist_push(acc: Seq<IRS>, x: IRS, tail: IRS)
    ensures enlist_v(acc.push(x), tail) == enlist_v(acc, IRS::Cons(Box::new(x), Box::new(tail)))
{
    assert(acc.push(x).drop_last() =~= acc);
}
pub proof fn lemma_build(acc: Seq<IRS>, v: IRS)
    ensures build(acc, v) == enlist_v(acc, v)
    decreases v
{
    match v {
        IRS::Cons(l, r) => { lemma_build(acc.push(*l), *r); lemma_enlist_push(acc, *l, *r); }
        _ => {}
    }
}
pub proof fn lemma_skip_none(t: Seq<u8>)
    requires t.len() > 0, !sp(t[0]), t[0] != 0x3b
    ensures skip_ws(t, false) == t
{}
pub proof fn lemma_skip_blank(t: Seq<u8>)
    ensures skip_ws(seq![0x20u8] + t, false) == skip_ws(t, false)
{
    let x = seq![0x20u8] + t;
    assert(x.subrange(1, x.len() as int) =~= t);
}
pub proof fn lemma_atom_len_tok(t: Seq<u8>, rest: Seq<u8>)
    requires forall|i: int| 0 <= i < t.len() ==> !delim(#[trigger] t[i]), rest.len() == 0 || delim(rest[0])
    ensures atom_len(t + rest) == t.len()
    decreases t.len()
{
    let x = t + rest;
    if t.len() == 0 { assert(x =~= rest); }
    else {
        assert(x[0] == t[0]);
        assert(x.subrange(1, x.len() as int) =~= t.subrange(1, t.len() as int) + rest);
        lemma_atom_len_tok(t.subrange(1, t.len() as int), rest);
    }
}
// first byte of what show / show_list print: never a blank or a comment sign
pub proof fn lemma_show_head(v: IRS)
    requires wf_ir(v)
    ensures show(v).len() > 0, !sp(show(v)[0]), show(v)[0] != 0x3b, show_list(v).len() > 0, !sp(show_list(v)[0]), show_list(v)[0] != 0x3b
    decreases v
{
    match v {
        IRS::Cons(l, r) => { lemma_show_head(*l); assert(show_list(v)[0] == show(*l)[0]); }
        IRS::Null => {}
        _ => { assert(!delim(tok(v)[0])); }
    }
}
// reading one leaf token followed by a delimiter (or the end)
pub proof fn lemma_leaf(v: IRS, rest: Seq<u8>)
    requires leaf_ok(v), rest.len() == 0 || delim(rest[0])
    ensures p_obj(tok(v) + rest) == Some((v, rest))
{
    let t = tok(v);
    let x = t + rest;
    assert(!delim(t[0])) by { if !(v is Quotes) { } };
    if v is Quotes {
        // a quote byte is not a blank
    }
    assert(x[0] == t[0]);
    lemma_skip_none(x);
    let r = x.subrange(1, x.len() as int);
    assert(r =~= t.subrange(1, t.len() as int) + rest);
    if v is Quotes {
        assert(scan(t.subrange(1, t.len() as int) + rest, t[0], false) == Some((v->Quotes_0, t.len() - 1)));
        lemma_scan_bound(r, t[0], false);
        assert(r.subrange(t.len() - 1, r.len() as int) =~= rest);
        assert(skip_ws(x, false) == x);
        assert(p_obj(x) == Some((IRS::Quotes(v->Quotes_0), rest)));
    } else {
        let t1 = t.subrange(1, t.len() as int);
        assert forall|i: int| 0 <= i < t1.len() implies !delim(#[trigger] t1[i]) by { assert(t1[i] == t[i + 1]); }
        lemma_atom_len_tok(t1, rest);
        assert(r.subrange(0, t.len() - 1) =~= t1);
        assert(seq![t[0]] + t1 =~= t);
        assert(r.subrange(t.len() - 1, r.len() as int) =~= rest);
        assert(skip_ws(x, false) == x);
        assert(atom_len(r) == t.len() - 1);
        assert(seq![x[0]] + r.subrange(0, t.len() - 1) == t);
        assert(p_obj(x) == Some((v, rest)));
    }
}

pub proof fn lemma_body_blank(y: Seq<u8>, acc: Seq<IRS>)
    ensures p_body(seq![0x20u8] + y, acc) == p_body(y, acc)
{
    lemma_skip_blank(y);
    lemma_skip_ws_suffix(y, false);
    lemma_skip_ws_suffix(seq![0x20u8] + y, false);
}
// one element of a list followed by a delimiter: the reader appends it to what it has collected
pub proof fn lemma_parse_elem(l: IRS, acc: Seq<IRS>, s_after: Seq<u8>)
    requires wf_ir(l), s_after.len() > 0, delim(s_after[0])
    ensures p_body(show(l) + s_after, acc) == p_body(s_after, acc.push(l))
    decreases l, 1int
{
    let big_t = show(l) + s_after;
    lemma_show_head(l);
    assert(big_t[0] == show(l)[0]);
    lemma_skip_none(big_t);
    let acc1 = acc.push(l);
    let rr = big_t.subrange(1, big_t.len() as int);
    match l {
        IRS::Cons(ll, lr) => {
            let inner = show_list(l) + s_after;
            assert(show(l) =~= seq![0x28u8] + show_list(l));
            assert(rr =~= inner);
            lemma_parse_list(l, Seq::<IRS>::empty(), s_after);
            lemma_build(Seq::<IRS>::empty(), l);
            assert(enlist_v(Seq::<IRS>::empty(), l) == l);
        }
        IRS::Null => {
            assert(show(l) =~= seq![0x28u8, 0x29u8]);
            let inner = seq![0x29u8] + s_after;
            assert(rr =~= inner);
            assert(inner[0] == 0x29u8);
            lemma_skip_none(inner);
            assert(inner.subrange(1, inner.len() as int) =~= s_after);
            assert(p_body(inner, Seq::<IRS>::empty()) == Some((IRS::Null, s_after)));
        }
        _ => {
            assert(leaf_ok(l));
            let t = tok(l);
            assert(show(l) == t);
            let t1 = t.subrange(1, t.len() as int);
            assert(rr =~= t1 + s_after);
            if l is Quotes {
                assert(scan(t1 + s_after, t[0], false) == Some((l->Quotes_0, t.len() - 1)));
                lemma_scan_bound(rr, t[0], false);
                assert(rr.subrange(t.len() - 1, rr.len() as int) =~= s_after);
                assert(l == IRS::Quotes(l->Quotes_0));
            } else {
                assert forall|i: int| 0 <= i < t1.len() implies !delim(#[trigger] t1[i]) by { assert(t1[i] == t[i + 1]); }
                lemma_atom_len_tok(t1, s_after);
                assert(rr.subrange(0, t.len() - 1) =~= t1);
                assert(seq![big_t[0]] + rr.subrange(0, t.len() - 1) =~= t);
                assert(rr.subrange(t.len() - 1, rr.len() as int) =~= s_after);
                assert(!delim(t[0]));
            }
        }
    }
}
// what follows an element: the closing parenthesis, or a blank and the rest of the list
pub proof fn lemma_parse_sep(r: IRS, acc1: Seq<IRS>, rest: Seq<u8>)
    requires wf_ir(r)
    ensures p_body(sep(r) + rest, acc1) == Some((build(acc1, r), rest)), sep(r).len() > 0, delim(sep(r)[0])
    decreases r, 1int
{
    let s_after = sep(r) + rest;
    match r {
        IRS::Null => {
            assert(s_after =~= seq![0x29u8] + rest);
            assert(s_after[0] == 0x29u8);
            lemma_skip_none(s_after);
            assert(s_after.subrange(1, s_after.len() as int) =~= rest);
        }
        _ => {
            assert(sep(r) =~= seq![0x20u8] + show_list(r));
            assert(s_after =~= seq![0x20u8] + (show_list(r) + rest));
            lemma_body_blank(show_list(r) + rest, acc1);
            lemma_parse_list(r, acc1, rest);
        }
    }
}
// the rest of a list: what show_list prints is read as the remaining elements and the tail
pub proof fn lemma_parse_list(v: IRS, acc: Seq<IRS>, rest: Seq<u8>)
    requires wf_ir(v)
    ensures p_body(show_list(v) + rest, acc) == Some((build(acc, v), rest))
    decreases v, 0int
{
    let big_t = show_list(v) + rest;
    match v {
        IRS::Null => {
            assert(big_t =~= seq![0x29u8] + rest);
            assert(big_t[0] == 0x29u8);
            lemma_skip_none(big_t);
            assert(big_t.subrange(1, big_t.len() as int) =~= rest);
        }
        IRS::Cons(l, r) => {
            let s_after = sep(*r) + rest;
            assert(big_t =~= show(*l) + s_after);
            lemma_parse_sep(*r, acc.push(*l), rest);
            assert(s_after[0] == sep(*r)[0]);
            lemma_parse_elem(*l, acc, s_after);
        }
        _ => {
            assert(leaf_ok(v));
            let t = tok(v);
            let after_dot = seq![0x20u8] + (t + (seq![0x29u8] + rest));
            assert(big_t =~= seq![0x2eu8] + after_dot);
            assert(big_t[0] == 0x2eu8);
            lemma_skip_none(big_t);
            assert(big_t.subrange(1, big_t.len() as int) =~= after_dot);
            let close = seq![0x29u8] + rest;
            lemma_skip_blank(t + close);
            assert((t + close)[0] == t[0]);
            assert(!delim(t[0]));
            lemma_skip_none(t + close);
            assert(close[0] == 0x29u8);
            lemma_leaf(v, close);
            lemma_skip_none(close);
            assert(close.subrange(1, close.len() as int) =~= rest);
            lemma_skip_ws_suffix(after_dot, false);
        }
    }
}
// C09 (classic, text level): the reader reads what the writer prints for a term back as that term, whatever delimiter follows
pub proof fn lemma_parse_show(v: IRS, rest: Seq<u8>)
    requires wf_ir(v), rest.len() == 0 || delim(rest[0])
    ensures p_obj(show(v) + rest) == Some((v, rest))
{
    match v {
        IRS::Cons(l, r) => {
            let x = show(v) + rest;
            assert(x =~= seq![0x28u8] + (show_list(v) + rest));
            assert(x[0] == 0x28u8);
            lemma_skip_none(x);
            assert(x.subrange(1, x.len() as int) =~= show_list(v) + rest);
            lemma_parse_list(v, Seq::<IRS>::empty(), rest);
            lemma_build(Seq::<IRS>::empty(), v);
        }
        IRS::Null => {
            let x = show(v) + rest;
            assert(x =~= seq![0x28u8] + (seq![0x29u8] + rest));
            assert(x[0] == 0x28u8);
            lemma_skip_none(x);
            let inner = seq![0x29u8] + rest;
            assert(x.subrange(1, x.len() as int) =~= inner);
            assert(inner[0] == 0x29u8);
            lemma_skip_none(inner);
            assert(inner.subrange(1, inner.len() as int) =~= rest);
        }
        _ => { lemma_leaf(v, rest); }
    }
}

impl IRReader {
//@ extract fn new from src/classic/clvm_tools/ir/reader.rs in impl IRReader
//@ sig r
    ensures rd_stream(r) == s
//@ end
//@ extract fn read_expr from src/classic/clvm_tools/ir/reader.rs in impl IRReader
//@ sig r
    requires rd_ok(*old(self))
    ensures kept(*old(self), *final(self))
//@ end
}
// R4: s.as_bytes().to_vec() on a &str -> the bytes of the text (opaque)
#[verifier::external_body]
pub fn verif_str_bytes(s: &str) -> (r: Vec<u8>) ensures r@ == string_bytes(s@) { unimplemented!() }
//@ note read_ir (the classic assembler's entry point): for every text shorter than 2^63 bytes the reader is started in a state that satisfies its precondition, so reading any text neither indexes outside it nor loops
//@ extract fn read_ir from src/classic/clvm_tools/ir/reader.rs
//@ replace R4 @<s.as_bytes().to_vec()>@ => @<verif_str_bytes(s)>@
//@ sig r
    requires string_bytes(s@).len() < 0x7fff_ffff_ffff_ffff
//@ end

}
fn main() {}
