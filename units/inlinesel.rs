#![feature(allocator_api)]
#![allow(unused_imports, dead_code, unused_variables, unused_mut, unused_parens)]
use vstd::prelude::*;
use vstd::arithmetic::power2::*;

verus! {
//@ include prelude/bigint.rs
//@ include spec/paths.rs
//@ include spec/bytes.rs
//@ include prelude/misc.rs
//@ include prelude/clvmr.rs
//@ include prelude/bigint_bytes.rs
//@ include prelude/std.rs
//@ include spec/treedef.rs
//@ include spec/treepath.rs
//@ include prelude/allocator_tree.rs
//@ include spec/eval.rs
use allocator::SExp;
broadcast use {num_bigint::of_int_bi, num_bigint::bi_of_int};

//@ extract fn bi_one from src/classic/clvm/__type_compatibility__.rs
//@ stub
//@ sig r
    ensures bi(r) == 1
//@ end

// SPEC: the moves a path spells, least significant bit first, down to the leading 1 (false = first, true = rest)
pub open spec fn plan(p: int) -> Seq<bool>
    decreases p
{
    if p <= 1 { Seq::<bool>::empty() } else { seq![p % 2 == 1] + plan(p / 2) }
}
//@ note create_path_selection_plan (classic inliner): appends the moves of the path, least significant bit first
//@ extract fn create_path_selection_plan from src/classic/clvm_tools/stages/stage_2/inline.rs
//@ canary most_significant_first @<operators.push(path.clone() % 2_u32.to_bigint().unwrap() == bi_one());>@ => @<operators.insert(0, path.clone() % 2_u32.to_bigint().unwrap() == bi_one());>@
//@ sig r
    requires bi(path) >= 0
    ensures r is Ok, final(operators)@ == old(operators)@ + plan(bi(path))
    decreases bi(path)
//@ before stmt @<operators.push(>@
        let ghost verif_o0 = operators@;
        let ghost verif_p = bi(path);
        proof {
            assert(verif_o0.push(verif_p % 2 == 1) + plan(verif_p / 2) =~= verif_o0 + (seq![verif_p % 2 == 1] + plan(verif_p / 2)));
        }
//@ end

// (op x) as a tree, and the chain of first / rest applications the moves build around an expression (first move innermost)
pub open spec fn app1(op: u8, x: Tree) -> Tree { Tree::Pair(Box::new(Tree::Atom(seq![op])), Box::new(Tree::Pair(Box::new(x), Box::new(tnil())))) }
pub open spec fn chain(moves: Seq<bool>, x: Tree) -> Tree
    decreases moves.len()
{
    if moves.len() == 0 { x } else { chain(moves.subrange(1, moves.len() as int), app1(if moves[0] { 6u8 } else { 5u8 }, x)) }
}
// its value: the sub-value the moves lead to (None when a move meets an atom)
pub open spec fn follow(moves: Seq<bool>, v: Option<Tree>) -> Option<Tree>
    decreases moves.len()
{
    if moves.len() == 0 { v } else { follow(moves.subrange(1, moves.len() as int), if moves[0] { sub_rest(v) } else { sub_first(v) }) }
}
pub proof fn lemma_app1_value(op: u8, x: Tree, env: Tree)
    requires op == 5 || op == 6
    ensures eval(app1(op, x), env) == (if op == 5 { sub_first(eval(x, env)) } else { sub_rest(eval(x, env)) })
{
    broadcast use axiom_proper_list_end;
    reveal_with_fuel(eval_list, 3);
    axiom_first_rest(eval(x, env));
    assert(eval_list(tnil(), env) == list_end(Seq::<u8>::empty()));
    let t = app1(op, x);
    assert(Tree::Atom(seq![op]) != quote_atom()) by { assert(seq![op][0] != seq![1u8][0]); }
    assert(eval_list(Tree::Pair(Box::new(x), Box::new(tnil())), env) =~= seq![eval(x, env)]);
}
// C03: the expression built by the moves of path p around x evaluates to the sub-value of x's value that the moves lead to
pub proof fn lemma_wrapped_value(moves: Seq<bool>, x: Tree, env: Tree)
    ensures eval(chain(moves, x), env) == follow(moves, eval(x, env))
    decreases moves.len()
{
    if moves.len() > 0 {
        let op = if moves[0] { 6u8 } else { 5u8 };
        lemma_app1_value(op, x, env);
        lemma_wrapped_value(moves.subrange(1, moves.len() as int), app1(op, x), env);
    }
}
// and those moves are the consensus path: following plan(p) is looking up path p
pub proof fn lemma_follow_is_path(p: int, t: Tree)
    requires p >= 1
    ensures follow(plan(p), Some(t)) == tree_path(p, t)
    decreases p
{
    if p > 1 {
        let m = plan(p);
        assert(m.subrange(1, m.len() as int) =~= plan(p / 2));
        match t {
            Tree::Pair(a, b) => { if p % 2 == 1 { lemma_follow_is_path(p / 2, *b); } else { lemma_follow_is_path(p / 2, *a); } }
            Tree::Atom(_) => { lemma_follow_none(plan(p / 2)); }
        }
    }
}
pub proof fn lemma_follow_none(moves: Seq<bool>)
    ensures follow(moves, None) is None
    decreases moves.len()
{
    if moves.len() > 0 { lemma_follow_none(moves.subrange(1, moves.len() as int)); }
}

// classic enlist, for the two-element lists built here (the general function is a loop over new_pair)
//@ extract fn enlist from src/classic/clvm/sexp.rs
//@ sig r
    requires forall|i: int| 0 <= i < vec@.len() ==> node_tree(*old(allocator), #[trigger] vec@[i]) is Some
    ensures r is Ok ==> alloc_ext(*old(allocator), *final(allocator)),
        r matches Ok(n) ==> (node_tree(*final(allocator), n) is Some
            && (vec@.len() == 2 ==> node_tree(*final(allocator), n) == Some(Tree::Pair(Box::new(node_tree(*old(allocator), vec@[0])->Some_0), Box::new(Tree::Pair(Box::new(node_tree(*old(allocator), vec@[1])->Some_0), Box::new(tnil()))))))),
//@ before stmt @<let mut built = NodePtr::NIL;>@
    proof { axiom_nil_node(*allocator); }
    let ghost verif_a0 = *allocator;
//@ before stmt @<match allocator.new_pair(vec[i], built) {>@
        let ghost verif_mid = *allocator;
//@ after stmt @<match allocator.new_pair(vec[i], built) {>@
        proof { lemma_alloc_ext_trans(verif_a0, verif_mid, *allocator); }
//@ loop 0
        invariant
            alloc_ext(verif_a0, *allocator), node_tree(*allocator, built) is Some,
            forall|i: int| 0 <= i < vec@.len() ==> node_tree(verif_a0, #[trigger] vec@[i]) is Some,
            i_reverse == 0 ==> node_tree(*allocator, built) == Some(tnil()),
            (vec@.len() == 2 && i_reverse == 1) ==> node_tree(*allocator, built) == Some(Tree::Pair(Box::new(node_tree(verif_a0, vec@[1])->Some_0), Box::new(tnil()))),
            (vec@.len() == 2 && i_reverse == 2) ==> node_tree(*allocator, built) == Some(Tree::Pair(Box::new(node_tree(verif_a0, vec@[0])->Some_0), Box::new(Tree::Pair(Box::new(node_tree(verif_a0, vec@[1])->Some_0), Box::new(tnil()))))),
//@ end

//@ note wrap_path_selection (classic inliner: how a name inside a destructured inline parameter reaches its value): the code it builds around an expression evaluates, in every environment, to the sub-value that consensus path lookup of `path` selects from the expression's value (lemmas wrapped_value, follow_is_path)
//@ extract fn wrap_path_selection from src/classic/clvm_tools/stages/stage_2/inline.rs
//@ canary first_for_rest @<let head_op = if *o { vec![6] } else { vec![5] };>@ => @<let head_op = if *o { vec![5] } else { vec![6] };>@
//@ replace R33 @<for o in operator_stack.iter() {>@ => @<for o in verif_it: operator_stack.iter() invariant alloc_ext(verif_a0, *allocator), node_tree(*allocator, tail) is Some, operator_stack@ == plan(bi(path)), chain(operator_stack@, verif_x) == chain(operator_stack@.subrange(verif_it.index@ as int, operator_stack@.len() as int), node_tree(*allocator, tail)->Some_0) {>@
//@ before stmt @<let head_op = >@
        let ghost verif_m0 = *allocator;
        let ghost verif_t0 = node_tree(*allocator, tail)->Some_0;
        let ghost verif_i0 = verif_it.index@ as int;
//@ after stmt @<let head_atom = allocator.new_atom(&head_op)?;>@
        let ghost verif_m1 = *allocator;
        proof { lemma_alloc_ext_trans(verif_a0, verif_m0, verif_m1); }
//@ after stmt @<tail = enlist(allocator, &[head_atom, tail])?;>@
        proof {
            lemma_alloc_ext_trans(verif_a0, verif_m1, *allocator);
            let ops = operator_stack@;
            let rest = ops.subrange(verif_i0, ops.len() as int);
            assert(rest.subrange(1, rest.len() as int) =~= ops.subrange(verif_i0 + 1, ops.len() as int));
            assert(rest[0] == ops[verif_i0]);
            assert(*o == ops[verif_i0]);
            let op = if *o { 6u8 } else { 5u8 };
            assert(head_op@ =~= seq![op]);
            assert(node_tree(verif_m1, head_atom) == Some(Tree::Atom(seq![op])));
            assert(node_tree(*allocator, tail) == Some(app1(op, verif_t0)));
            assert(chain(rest, verif_t0) == chain(rest.subrange(1, rest.len() as int), app1(op, verif_t0)));
        }
//@ before stmt @<let mut operator_stack = Vec::new();>@
    let ghost verif_a0 = *allocator;
    let ghost verif_x = node_tree(*allocator, wrapped)->Some_0;
//@ after stmt @<create_path_selection_plan(path, &mut operator_stack)?;>@
    proof {
        assert(operator_stack@ =~= plan(bi(path)));
        assert(operator_stack@.subrange(0, operator_stack@.len() as int) =~= operator_stack@);
    }
//@ sig r
    requires bi(path) >= 1, node_tree(*old(allocator), wrapped) is Some
    ensures r is Ok ==> alloc_ext(*old(allocator), *final(allocator)),
        r matches Ok(n) ==> node_tree(*final(allocator), n) == Some(chain(plan(bi(path)), node_tree(*old(allocator), wrapped)->Some_0)),
//@ end

}
fn main() {}
