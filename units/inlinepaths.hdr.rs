#![feature(allocator_api)]
#![allow(unused_imports, dead_code, unused_variables, unused_mut, unused_parens)]
use vstd::prelude::*;
use vstd::arithmetic::power2::*;
use std::rc::Rc;
use std::borrow::Borrow;

verus! {
//@ include prelude/bigint.rs
//@ include spec/bytes.rs
//@ include prelude/misc.rs
//@ include prelude/bigint_bytes.rs
//@ include prelude/rc.rs
//@ include prelude/std.rs
//@ include units/inc/sexp_types.rs
use num_bigint::BigInt;
broadcast use {num_bigint::of_int_bi, num_bigint::bi_of_int};

//@ extract fn bi_one from src/classic/clvm/__type_compatibility__.rs
//@ sig r
    ensures bi(r) == 1
//@ end

pub open spec fn rest_n(t: Tree, k: nat) -> Option<Tree>
    decreases k
{
    if k == 0 { Some(t) } else { match t { Tree::Pair(_, b) => rest_n(*b, (k - 1) as nat), Tree::Atom(_) => None } }
}
// consensus path of "rest s times, then first" and of "rest k times"
pub open spec fn elem_path(s: nat) -> int { 3 * (pow2(s) as int) - 1 }
pub open spec fn tail_path_of(k: nat) -> int { (pow2(k + 1) as int) - 1 }

pub proof fn lemma_elem_path_selects(t: Tree, s: nat)
    ensures tree_path(elem_path(s), t) == (match rest_n(t, s) { Some(Tree::Pair(a, _)) => Some(*a), _ => None })
    decreases s
{
    lemma2_to64();
    lemma_pow2_pos(s);
    reveal_with_fuel(tree_path, 3);
    reveal_with_fuel(rest_n, 2);
    if s == 0 {
        assert(elem_path(0) == 2);
        match t { Tree::Pair(a, _) => { assert(tree_path(2, t) == tree_path(1, *a)); } Tree::Atom(_) => {} }
    } else {
        lemma_pow2_unfold(s);
        let p = elem_path(s);
        assert(p == 2 * elem_path((s - 1) as nat) + 1);
        assert(p >= 2 && p % 2 == 1 && p / 2 == elem_path((s - 1) as nat));
        match t { Tree::Pair(_, b) => { lemma_elem_path_selects(*b, (s - 1) as nat); } Tree::Atom(_) => {} }
    }
}
pub proof fn lemma_tail_path_selects(t: Tree, k: nat)
    ensures tree_path(tail_path_of(k), t) == rest_n(t, k)
    decreases k
{
    lemma2_to64();
    lemma_pow2_pos(k + 1);
    reveal_with_fuel(tree_path, 3);
    reveal_with_fuel(rest_n, 2);
    if k == 0 {
        assert(tail_path_of(0) == 1);
    } else {
        lemma_pow2_unfold(k + 1);
        let p = tail_path_of(k);
        assert(p == 2 * tail_path_of((k - 1) as nat) + 1);
        lemma_pow2_pos(k); lemma_pow2_unfold(k); lemma_pow2_pos((k - 1) as nat);
        assert(pow2(k) >= 2);
        assert(p >= 2 && p % 2 == 1 && p / 2 == tail_path_of((k - 1) as nat));
        match t { Tree::Pair(_, b) => { lemma_tail_path_selects(*b, (k - 1) as nat); } Tree::Atom(_) => {} }
    }
}

// choose_arg_from_list_or_tail: parameter number index >= args.len() is element target_shift = index - args.len() of the tail
pub fn verif_target_path(two: BigInt, target_shift: usize) -> (target_path: BigInt)
    requires bi(two) == 2
    ensures bi(target_path) == elem_path(target_shift as nat)
{
    proof {
        lemma_pow2_unfold(target_shift as nat + 1); lemma_pow2_pos(target_shift as nat); lemma2_to64();
        let s = pow2(target_shift as nat) as int;
        assert((2 * s - 1) / 2 == s - 1);
        num_bigint::or_disjoint(2 * s, s - 1, target_shift as nat + 1);
    }
    /*TARGET_PATH_STMT*/
    target_path
}
// arg_lookup: after `underflow` parameters were filled from the tail, the rest parameter is bound to the tail without them
pub fn verif_tail_path(two: BigInt, underflow: usize) -> (tail_path: BigInt)
    requires bi(two) == 2
    ensures bi(tail_path) == tail_path_of(underflow as nat)
{
    proof { lemma_pow2_unfold(underflow as nat + 1); lemma_pow2_pos(underflow as nat); }
    /*TAIL_PATH_STMT*/
    tail_path
}
}
fn main() {}
