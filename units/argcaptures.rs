#![feature(allocator_api)]
#![allow(unused_imports, dead_code, unused_variables, unused_mut, unused_parens)]
use vstd::prelude::*;
use vstd::arithmetic::power2::*;
use vstd::string::*;
use std::rc::Rc;
use std::borrow::Borrow;

verus! {
//@ include prelude/bigint.rs
//@ include spec/bytes.rs
//@ include prelude/misc.rs
//@ include prelude/bigint_bytes.rs
//@ include prelude/rc.rs
//@ include prelude/std.rs
//@ include units/inc/sexp_types.rs
broadcast use {num_bigint::of_int_bi, num_bigint::bi_of_int};
//@ include units/inc/binds.rs
//@ extract struct CompileErr from src/compiler/comptypes.rs
//@ end

// R44: payload types of BodyForm variants these functions never construct or inspect -> opaque stand-ins
#[verifier::external_body] pub struct LetFormKind { x: u8 }
#[verifier::external_body] pub struct LetData { x: u8 }
#[verifier::external_body] pub struct CompileForm { x: u8 }
#[verifier::external_body] pub struct LambdaData { x: u8 }
//@ extract enum BodyForm from src/compiler/comptypes.rs
//@ derives
//@ end
//@ extract enum ArgInputs from src/compiler/evaluate.rs
//@ end

// R47: HashMap<Vec<u8>, Rc<BodyForm>> (the capture table) -> stand-in map keyed by the byte string (assumes Vec<u8> hashes and compares by content)
#[verifier::external_body]
pub struct VerifCaptures { x: u8 }
pub uninterp spec fn caps(c: VerifCaptures) -> Map<Seq<u8>, BodyForm>;
impl VerifCaptures {
    #[verifier::external_body]
    pub fn insert(&mut self, k: Vec<u8>, v: Rc<BodyForm>) -> (r: Option<Rc<BodyForm>>)
        ensures caps(*final(self)) == caps(*old(self)).insert(k@, *v)
    { unimplemented!() }
}

// SPEC: the value of an argument expression when every variable evaluates to what rho says: quoted data and self-quoting
// constants denote themselves; the three projections the evaluator synthesizes are the primitives 5 (first), 6 (rest), 4 (cons)
pub open spec fn sub_first(v: Option<Tree>) -> Option<Tree> { match v { Some(Tree::Pair(a, _)) => Some(*a), _ => None } }
pub open spec fn sub_rest(v: Option<Tree>) -> Option<Tree> { match v { Some(Tree::Pair(_, b)) => Some(*b), _ => None } }
pub open spec fn head_code(b: BodyForm) -> int { match b { BodyForm::Value(SExp::Atom(_, n)) => if n@.len() == 1 { n@[0] as int } else { -1 }, _ => -1 } }
pub open spec fn bf_value(e: BodyForm, rho: spec_fn(Seq<u8>) -> Option<Tree>) -> Option<Tree>
    decreases e
{
    match e {
        BodyForm::Quoted(s) => Some(tree_of(true, s)),
        BodyForm::Value(SExp::Atom(_, n)) => rho(n@),
        BodyForm::Value(s) => Some(tree_of(true, s)),
        BodyForm::Call(_, v, None) =>
            if v@.len() == 2 && head_code(*v@[0]) == 5 { sub_first(bf_value(*v@[1], rho)) }
            else if v@.len() == 2 && head_code(*v@[0]) == 6 { sub_rest(bf_value(*v@[1], rho)) }
            else if v@.len() == 3 && head_code(*v@[0]) == 4 { match (bf_value(*v@[1], rho), bf_value(*v@[2], rho)) { (Some(x), Some(y)) => Some(Tree::Pair(Box::new(x), Box::new(y))), _ => None } }
            else { None },
        _ => None,
    }
}
pub open spec fn arg_value(a: ArgInputs, rho: spec_fn(Seq<u8>) -> Option<Tree>) -> Option<Tree>
    decreases a
{
    match a {
        ArgInputs::Whole(bf) => bf_value(*bf, rho),
        ArgInputs::Pair(x, y) => match (arg_value(*x, rho), arg_value(*y, rho)) { (Some(p), Some(q)) => Some(Tree::Pair(Box::new(p), Box::new(q))), _ => None },
    }
}
// the destructuring spec `binds`, lifted to argument values that may be undefined
pub open spec fn binds_o(find: SExp, name: Seq<u8>, v: Option<Tree>) -> Option<Tree>
    decreases sheight(find)
{
    match find {
        SExp::Atom(_, a) => if a@ == name { v } else { None },
        SExp::Integer(_, i) => if u8n(bi(i)) == name { v } else { None },
        SExp::Cons(_, h, r) => match at_capture(*h, *r) {
            Some((c, sub)) => if c == name { v } else if sheight(sub) < sheight(find) { binds_o(sub, name, v) } else { None },
            None => if mentions(*h, name) { binds_o(*h, name, sub_first(v)) } else { binds_o(*r, name, sub_rest(v)) },
        },
        _ => None,
    }
}
pub open spec fn at_capture_r(a: &SExp, b: &SExp) -> Option<(Seq<u8>, SExp)> { at_capture(*a, *b) }
pub proof fn lemma_binds_o_is_binds(find: &SExp, name: Seq<u8>, v: Tree)
    ensures binds_o(*find, name, Some(v)) == binds(*find, name, v) || !mentions(*find, name)
    decreases sheight(*find)
{
    broadcast use axiom_at_capture_smaller;
    match find {
        SExp::Cons(_, h, r) => match at_capture_r(&**h, &**r) {
            Some((c, sub)) => { if c != name && sheight(sub) < sheight(*find) { lemma_binds_o_is_binds(&sub, name, v); } }
            None => { match v { Tree::Pair(a, b) => { lemma_binds_o_is_binds(&**h, name, *a); lemma_binds_o_is_binds(&**r, name, *b); } Tree::Atom(_) => { lemma_binds_o_none(&**h, name); lemma_binds_o_none(&**r, name); } } }
        },
        _ => {}
    }
}
pub proof fn lemma_binds_o_none(find: &SExp, name: Seq<u8>)
    ensures binds_o(*find, name, None) is None
    decreases sheight(*find)
{
    broadcast use axiom_at_capture_smaller;
    match find {
        SExp::Cons(_, h, r) => match at_capture_r(&**h, &**r) {
            Some((c, sub)) => { if c != name && sheight(sub) < sheight(*find) { lemma_binds_o_none(&sub, name); } }
            None => { lemma_binds_o_none(&**h, name); lemma_binds_o_none(&**r, name); }
        },
        _ => {}
    }
}

// ASSUMED contract of operator_head: the installed Verus does not connect a string-literal match arm ("c" => ...) with equality of the views (tried: postcondition not provable even with reveal_strlit), so the three arms are read off by hand
//@ extract fn operator_head from src/compiler/evaluate.rs
//@ stub
//@ sig r
    ensures op@ == "f"@ ==> head_code(BodyForm::Value(r)) == 5, op@ == "r"@ ==> head_code(BodyForm::Value(r)) == 6, op@ == "c"@ ==> head_code(BodyForm::Value(r)) == 4,
//@ end
//@ extract fn make_operator1 from src/compiler/evaluate.rs
//@ sig r
    ensures r matches BodyForm::Call(_, v, None) && v@.len() == 2 && v@[1] == arg
        && (op@ == "f"@ ==> head_code(*v@[0]) == 5) && (op@ == "r"@ ==> head_code(*v@[0]) == 6)
//@ end
//@ extract fn make_operator2 from src/compiler/evaluate.rs
//@ sig r
    ensures r matches BodyForm::Call(_, v, None) && v@.len() == 3 && v@[1] == arg1 && v@[2] == arg2 && (op@ == "c"@ ==> head_code(*v@[0]) == 4)
//@ end

//@ note get_bodyform_from_arginput: the expression it returns has the value of the argument it was given
//@ extract fn get_bodyform_from_arginput from src/compiler/evaluate.rs
//@ replace R24 @<Rc::new(make_operator2(l, "c".to_string(), bfa, bfb))>@ => @<{ proof { reveal_strlit("c"); } let verif_r = Rc::new(make_operator2(l, "c".to_string(), bfa, bfb)); proof { assert forall|rho: spec_fn(Seq<u8>) -> Option<Tree>| #[trigger] bf_value(*verif_r, rho) == arg_value(*arginput, rho) by { assert(bf_value(*bfa, rho) == arg_value(**a, rho)); assert(bf_value(*bfb, rho) == arg_value(**b, rho)); } } verif_r }>@
//@ sig r
    ensures forall|rho: spec_fn(Seq<u8>) -> Option<Tree>| #[trigger] bf_value(*r, rho) == arg_value(*arginput, rho)
    decreases *arginput
//@ end

// what the spec binds `name` to when the arguments are given as an ArgInputs: a Pair is taken apart structurally (so an
// undefined sibling does not matter: the evaluator may be lazier than compiled code), a Whole expression by value
pub open spec fn binds_a(find: SExp, name: Seq<u8>, formed: ArgInputs, rho: spec_fn(Seq<u8>) -> Option<Tree>) -> Option<Tree>
    decreases sheight(find)
{
    match find {
        SExp::Atom(_, a) => if a@ == name { arg_value(formed, rho) } else { None },
        SExp::Integer(_, i) => if u8n(bi(i)) == name { arg_value(formed, rho) } else { None },
        SExp::Cons(_, h, r) => match at_capture(*h, *r) {
            Some((c, sub)) => if c == name { arg_value(formed, rho) } else if sheight(sub) < sheight(find) { binds_a(sub, name, formed, rho) } else { None },
            None => match formed {
                ArgInputs::Pair(af, ar) => if mentions(*h, name) { binds_a(*h, name, *af, rho) } else { binds_a(*r, name, *ar, rho) },
                ArgInputs::Whole(bf) => binds_o(find, name, bf_value(*bf, rho)),
            },
        },
        _ => None,
    }
}
pub open spec fn binds_a_r(find: &SExp, name: Seq<u8>, formed: &ArgInputs, rho: spec_fn(Seq<u8>) -> Option<Tree>) -> Option<Tree> { binds_a(*find, name, *formed, rho) }
// a Whole argument: structural and by-value destructuring coincide
pub open spec fn whole_value(formed: ArgInputs, rho: spec_fn(Seq<u8>) -> Option<Tree>) -> Option<Tree> { match formed { ArgInputs::Whole(bf) => bf_value(*bf, rho), _ => None } }
pub proof fn lemma_binds_a_whole(find: &SExp, name: Seq<u8>, formed: &ArgInputs, rho: spec_fn(Seq<u8>) -> Option<Tree>)
    requires *formed is Whole
    ensures binds_a(*find, name, *formed, rho) == binds_o(*find, name, whole_value(*formed, rho))
    decreases sheight(*find)
{
    broadcast use axiom_at_capture_smaller;
    match find {
        SExp::Cons(_, h, r) => match at_capture_r(&**h, &**r) {
            Some((c, sub)) => { if c != name && sheight(sub) < sheight(*find) { lemma_binds_a_whole(&sub, name, formed, rho); } }
            None => {}
        },
        _ => {}
    }
}
// a Whole argument split into its first and rest parts (quoted data taken apart, or (f x) / (r x) for an expression x)
pub proof fn lemma_whole_split(find: &SExp, formed: &ArgInputs, af: &ArgInputs, ar: &ArgInputs)
    requires
        *find matches SExp::Cons(_, h, r) && at_capture(*h, *r) is None,
        *formed is Whole, *af is Whole, *ar is Whole,
        forall|rho: spec_fn(Seq<u8>) -> Option<Tree>| #[trigger] whole_value(*af, rho) == sub_first(whole_value(*formed, rho)),
        forall|rho: spec_fn(Seq<u8>) -> Option<Tree>| #[trigger] whole_value(*ar, rho) == sub_rest(whole_value(*formed, rho)),
    ensures
        *find matches SExp::Cons(_, h, r)
            && (forall|n: Seq<u8>, rho: spec_fn(Seq<u8>) -> Option<Tree>| mentions(*h, n) ==> #[trigger] binds_a(*h, n, *af, rho) == binds_a(*find, n, *formed, rho))
            && (forall|n: Seq<u8>, rho: spec_fn(Seq<u8>) -> Option<Tree>| !mentions(*h, n) && mentions(*r, n) ==> #[trigger] binds_a(*r, n, *ar, rho) == binds_a(*find, n, *formed, rho)),
{
    match find {
        SExp::Cons(_, h, r) => {
            assert forall|n: Seq<u8>, rho: spec_fn(Seq<u8>) -> Option<Tree>| mentions(**h, n) implies #[trigger] binds_a(**h, n, *af, rho) == binds_a(*find, n, *formed, rho) by {
                lemma_binds_a_whole(&**h, n, af, rho); lemma_binds_a_whole(find, n, formed, rho);
                assert(whole_value(*af, rho) == sub_first(whole_value(*formed, rho)));
            }
            assert forall|n: Seq<u8>, rho: spec_fn(Seq<u8>) -> Option<Tree>| !mentions(**h, n) && mentions(**r, n) implies #[trigger] binds_a(**r, n, *ar, rho) == binds_a(*find, n, *formed, rho) by {
                lemma_binds_a_whole(&**r, n, ar, rho); lemma_binds_a_whole(find, n, formed, rho);
                assert(whole_value(*ar, rho) == sub_rest(whole_value(*formed, rho)));
            }
        }
        _ => {}
    }
}
// C16 ("lazier, never different"): whenever the arguments as a whole have a value, structural destructuring binds what the
// destructuring spec binds in that value
pub proof fn lemma_binds_a_strict(find: &SExp, name: Seq<u8>, formed: &ArgInputs, rho: spec_fn(Seq<u8>) -> Option<Tree>)
    requires arg_value(*formed, rho) is Some
    ensures binds_a(*find, name, *formed, rho) == binds_o(*find, name, arg_value(*formed, rho))
    decreases sheight(*find)
{
    broadcast use axiom_at_capture_smaller;
    match find {
        SExp::Cons(_, h, r) => match at_capture_r(&**h, &**r) {
            Some((c, sub)) => { if c != name && sheight(sub) < sheight(*find) { lemma_binds_a_strict(&sub, name, formed, rho); } }
            None => match formed {
                ArgInputs::Pair(af, ar) => { lemma_binds_a_strict(&**h, name, &**af, rho); lemma_binds_a_strict(&**r, name, &**ar, rho); }
                ArgInputs::Whole(bf) => {}
            },
        },
        _ => {}
    }
}

// every parameter the spec mentions has a capture whose value is what the spec binds it to in the arguments; other entries are untouched
pub open spec fn captures_ok(c0: Map<Seq<u8>, BodyForm>, c1: Map<Seq<u8>, BodyForm>, spec: SExp, formed: ArgInputs) -> bool {
    &&& forall|n: Seq<u8>| mentions(spec, n) ==> #[trigger] c1.contains_key(n)
    &&& forall|n: Seq<u8>, rho: spec_fn(Seq<u8>) -> Option<Tree>| mentions(spec, n) ==> #[trigger] bf_value(c1[n], rho) == binds_a(spec, n, formed, rho)
    &&& forall|n: Seq<u8>| !mentions(spec, n) ==> (#[trigger] c1.contains_key(n) == c0.contains_key(n)) && (c0.contains_key(n) ==> c1[n] == c0[n])
}
pub open spec fn captures_ok_r(c0: Map<Seq<u8>, BodyForm>, c1: Map<Seq<u8>, BodyForm>, spec: &SExp, formed: &ArgInputs) -> bool { captures_ok(c0, c1, *spec, *formed) }

// an (@ cname sub) capture: sub was processed first, then the capture itself was inserted
pub proof fn lemma_capture_step(c0: Map<Seq<u8>, BodyForm>, c1: Map<Seq<u8>, BodyForm>, find: &SExp, cname: Seq<u8>, sub: &SExp, formed: &ArgInputs, e: &BodyForm)
    requires
        *find matches SExp::Cons(_, h, r) && at_capture(*h, *r) == Some((cname, *sub)),
        captures_ok(c0, c1, *sub, *formed),
        forall|rho: spec_fn(Seq<u8>) -> Option<Tree>| #[trigger] bf_value(*e, rho) == arg_value(*formed, rho),
    ensures captures_ok(c0, c1.insert(cname, *e), *find, *formed)
{
    broadcast use axiom_at_capture_smaller;
    let c2 = c1.insert(cname, *e);
    match find { SExp::Cons(_, h, r) => { assert(sheight(*sub) < sheight(*find)); } _ => {} }
    assert forall|n: Seq<u8>| mentions(*find, n) implies #[trigger] c2.contains_key(n) by { if n != cname { assert(mentions(*sub, n)); assert(c1.contains_key(n)); } }
    assert forall|n: Seq<u8>, rho: spec_fn(Seq<u8>) -> Option<Tree>| mentions(*find, n) implies #[trigger] bf_value(c2[n], rho) == binds_a(*find, n, *formed, rho) by {
        if n != cname { assert(mentions(*sub, n)); assert(c1.contains_key(n)); assert(c2[n] == c1[n]); assert(bf_value(c1[n], rho) == binds_a(*sub, n, *formed, rho)); }
    }
    assert forall|n: Seq<u8>| !mentions(*find, n) implies (#[trigger] c2.contains_key(n) == c0.contains_key(n)) && (c0.contains_key(n) ==> c2[n] == c0[n]) by {
        assert(n != cname); assert(!mentions(*sub, n)); assert(c1.contains_key(n) == c0.contains_key(n));
    }
}
// a pair pattern: the rest part was processed first, then the first part (so a name occurring in both keeps the first part's capture)
pub proof fn lemma_pair_step(c0: Map<Seq<u8>, BodyForm>, c1: Map<Seq<u8>, BodyForm>, c2: Map<Seq<u8>, BodyForm>, find: &SExp, formed: &ArgInputs, af: &ArgInputs, ar: &ArgInputs)
    requires
        *find matches SExp::Cons(_, h, r) && at_capture(*h, *r) is None
            && captures_ok(c0, c1, *r, *ar) && captures_ok(c1, c2, *h, *af)
            && (forall|n: Seq<u8>, rho: spec_fn(Seq<u8>) -> Option<Tree>| mentions(*h, n) ==> #[trigger] binds_a(*h, n, *af, rho) == binds_a(*find, n, *formed, rho))
            && (forall|n: Seq<u8>, rho: spec_fn(Seq<u8>) -> Option<Tree>| !mentions(*h, n) && mentions(*r, n) ==> #[trigger] binds_a(*r, n, *ar, rho) == binds_a(*find, n, *formed, rho)),
    ensures captures_ok(c0, c2, *find, *formed)
{
    match find {
        SExp::Cons(_, h, r) => {
            assert forall|n: Seq<u8>| mentions(*find, n) implies #[trigger] c2.contains_key(n) by {
                if !mentions(**h, n) { assert(mentions(**r, n)); assert(c1.contains_key(n)); assert(c2.contains_key(n) == c1.contains_key(n)); }
            }
            assert forall|n: Seq<u8>, rho: spec_fn(Seq<u8>) -> Option<Tree>| mentions(*find, n) implies #[trigger] bf_value(c2[n], rho) == binds_a(*find, n, *formed, rho) by {
                if mentions(**h, n) { assert(bf_value(c2[n], rho) == binds_a(**h, n, *af, rho)); }
                else { assert(mentions(**r, n)); assert(c1.contains_key(n)); assert(c2.contains_key(n) == c1.contains_key(n)); assert(c2[n] == c1[n]); assert(bf_value(c1[n], rho) == binds_a(**r, n, *ar, rho)); }
            }
            assert forall|n: Seq<u8>| !mentions(*find, n) implies (#[trigger] c2.contains_key(n) == c0.contains_key(n)) && (c0.contains_key(n) ==> c2[n] == c0[n]) by {
                assert(!mentions(**h, n) && !mentions(**r, n));
                assert(c1.contains_key(n) == c0.contains_key(n)); assert(c2.contains_key(n) == c1.contains_key(n));
            }
        }
        _ => {}
    }
}

//@ note create_argument_captures (the evaluator's argument destructuring): afterwards every parameter name the spec mentions has a capture expression whose value is exactly what the spec binds that name to in the arguments (binds_a; by lemma_binds_a_strict that is the destructuring spec binds_o / binds -- first occurrence wins, an (@ name sub) capture is the whole position -- whenever the arguments have a value); other entries are untouched
//@ extract fn create_argument_captures from src/compiler/evaluate.rs
//@ canary left_over_right @<create_argument_captures(argument_captures, ar, r.clone())?;>@ => @<create_argument_captures(argument_captures, ar, f.clone())?;>@
//@ replace R47 @<&mut HashMap<Vec<u8>, Rc<BodyForm>>>@ => @<&mut VerifCaptures>@
//@ replace-block R1
        (_, _) => Err(CompileErr(
            function_arg_spec.loc(),
            format!(
                "not yet supported argument alternative: ArgInput {formed_arguments:?} SExp {function_arg_spec}"
            ),
        )),
//@ with
        (_, _) => Err(CompileErr(
            function_arg_spec.loc(),
            verif_opaque_string(),
        )),
//@ replace-block R24
                    create_argument_captures(
                        argument_captures,
                        &ArgInputs::Whole(Rc::new(BodyForm::Quoted(ra_borrowed.clone()))),
                        r.clone(),
                    )?;
                    create_argument_captures(
                        argument_captures,
                        &ArgInputs::Whole(Rc::new(BodyForm::Quoted(fa_borrowed.clone()))),
                        f.clone(),
                    )
//@ with
                    let verif_ar = ArgInputs::Whole(Rc::new(BodyForm::Quoted(ra_borrowed.clone())));
                    create_argument_captures(argument_captures, &verif_ar, r.clone())?;
                    let ghost verif_c1 = caps(*argument_captures);
                    let verif_af = ArgInputs::Whole(Rc::new(BodyForm::Quoted(fa_borrowed.clone())));
                    let verif_res = create_argument_captures(argument_captures, &verif_af, f.clone());
                    proof { if verif_res is Ok {
                        lemma_whole_split(&*function_arg_spec, formed_arguments, &verif_af, &verif_ar);
                        lemma_pair_step(verif_c0, verif_c1, caps(*argument_captures), &*function_arg_spec, formed_arguments, &verif_af, &verif_ar);
                    } }
                    verif_res
//@ replace-block R24
                    create_argument_captures(
                        argument_captures,
                        &ArgInputs::Whole(Rc::new(make_operator1(
                            l,
                            "r".to_string(),
                            Rc::new(bf.clone()),
                        ))),
                        r.clone(),
                    )?;
                    create_argument_captures(
                        argument_captures,
                        &ArgInputs::Whole(Rc::new(make_operator1(
                            l,
                            "f".to_string(),
                            Rc::new(bf.clone()),
                        ))),
                        f.clone(),
                    )
//@ with
                    proof { reveal_strlit("r"); reveal_strlit("f"); }
                    let verif_ar = ArgInputs::Whole(Rc::new(make_operator1(l, "r".to_string(), Rc::new(bf.clone()))));
                    create_argument_captures(argument_captures, &verif_ar, r.clone())?;
                    let ghost verif_c1 = caps(*argument_captures);
                    let verif_af = ArgInputs::Whole(Rc::new(make_operator1(l, "f".to_string(), Rc::new(bf.clone()))));
                    let verif_res = create_argument_captures(argument_captures, &verif_af, f.clone());
                    proof { if verif_res is Ok {
                        lemma_whole_split(&*function_arg_spec, formed_arguments, &verif_af, &verif_ar);
                        lemma_pair_step(verif_c0, verif_c1, caps(*argument_captures), &*function_arg_spec, formed_arguments, &verif_af, &verif_ar);
                    } }
                    verif_res
//@ replace-block R24
                create_argument_captures(argument_captures, ar, r.clone())?;
                create_argument_captures(argument_captures, af, f.clone())
//@ with
                create_argument_captures(argument_captures, ar, r.clone())?;
                let ghost verif_c1 = caps(*argument_captures);
                let verif_res = create_argument_captures(argument_captures, af, f.clone());
                proof { if verif_res is Ok { lemma_pair_step(verif_c0, verif_c1, caps(*argument_captures), &*function_arg_spec, formed_arguments, &**af, &**ar); } }
                verif_res
//@ sig r
    ensures r is Ok ==> captures_ok(caps(*old(argument_captures)), caps(*final(argument_captures)), *function_arg_spec, *formed_arguments)
    decreases sheight(*function_arg_spec)
//@ before stmt @<match (formed_arguments, function_arg_spec.borrow())>@
    proof { broadcast use axiom_at_capture_smaller; reveal_strlit("c"); }
    let ghost verif_c0 = caps(*argument_captures);
//@ before stmt #0 @<create_argument_captures(argument_captures, formed_arguments, substructure)?;>@
                    let ghost verif_sub = substructure;
//@ before stmt #1 @<create_argument_captures(argument_captures, formed_arguments, substructure)?;>@
                    let ghost verif_sub = substructure;
//@ before stmt #2 @<create_argument_captures(argument_captures, formed_arguments, substructure)?;>@
                let ghost verif_sub = substructure;
//@ after stmt #0 @<create_argument_captures(argument_captures, formed_arguments, substructure)?;>@
                    let ghost verif_c1 = caps(*argument_captures);
                    proof { lemma_capture_step(verif_c0, verif_c1, &*function_arg_spec, capture@, &*verif_sub, formed_arguments, &**bf); }
//@ after stmt #1 @<create_argument_captures(argument_captures, formed_arguments, substructure)?;>@
                    let ghost verif_c1 = caps(*argument_captures);
                    proof { lemma_capture_step(verif_c0, verif_c1, &*function_arg_spec, capture@, &*verif_sub, formed_arguments, bf); }
//@ after stmt #2 @<create_argument_captures(argument_captures, formed_arguments, substructure)?;>@
                let ghost verif_c1 = caps(*argument_captures);
                proof {
                    assert forall|rho: spec_fn(Seq<u8>) -> Option<Tree>| #[trigger] bf_value(*fused_arguments, rho) == arg_value(*formed_arguments, rho) by {
                        assert(bf_value(*verif_bfa, rho) == arg_value(**af, rho)); assert(bf_value(*verif_bfb, rho) == arg_value(**ar, rho));
                    }
                    lemma_capture_step(verif_c0, verif_c1, &*function_arg_spec, capture@, &*verif_sub, formed_arguments, &*fused_arguments);
                }
//@ after stmt @<let bfb = get_bodyform_from_arginput(l, ar);>@
                let ghost verif_bfa = bfa; let ghost verif_bfb = bfb;
//@ end
}
fn main() {}
