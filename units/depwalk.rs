#![feature(allocator_api)]
#![allow(unused_imports, dead_code, unused_variables, unused_mut, unused_parens)]
use vstd::prelude::*;
use vstd::string::*;
use std::rc::Rc;
use std::borrow::Borrow;

verus! {
//@ include prelude/misc.rs
//@ include prelude/rc.rs
//@ include prelude/std.rs
//@ include prelude/bigint.rs
//@ extract struct Until from src/compiler/srcloc.rs
//@ derives
//@ end
//@ extract struct Srcloc from src/compiler/srcloc.rs
//@ derives
//@ end
//@ extract enum SExp from src/compiler/sexp.rs
//@ derives
//@ end
//@ extract struct CompileErr from src/compiler/comptypes.rs
//@ end
//@ extract enum IncludeProcessType from src/compiler/comptypes.rs
//@ derives
//@ end
//@ extract struct IncludeDesc from src/compiler/comptypes.rs
//@ derives
//@ end
//@ extract enum IncludeType from src/compiler/preprocessor/mod.rs
//@ derives
//@ replace R28 @<enum IncludeType {>@ => @<pub enum IncludeType {>@
//@ end
//@ include prelude/opts.rs
//@ extract struct Preprocessor from src/compiler/preprocessor/mod.rs
//@ fields opts strict
//@ replace R34 @<Rc<dyn CompilerOpts>>@ => @<Rc<VerifOpts>>@
//@ replace R28 @<struct Preprocessor {>@ => @<pub struct Preprocessor {>@
//@ end

// bytes -> string as decode_string does it (opaque; only used as a function)
pub uninterp spec fn decoded(b: Seq<u8>) -> Seq<char>;
//@ extract fn decode_string from src/compiler/sexp.rs
//@ stub
//@ sig r
    ensures r@ == decoded(v@)
//@ end
pub uninterp spec fn known_dialect(name: Seq<char>) -> bool;
// R35: lookup in the lazy_static table KNOWN_DIALECTS -> opaque predicate
#[verifier::external_body]
pub fn verif_known_dialect(name: &String) -> (r: bool) ensures r == known_dialect(name@) { unimplemented!() }
// R36: parse_sexp over a byte iterator -> opaque parser of the byte vector (the dependency claim does not depend on what is parsed)
#[verifier::external_body]
pub fn verif_parse_sexp(start: Srcloc, content: &Vec<u8>) -> (r: Result<Vec<Rc<SExp>>, CompileErr>) { unimplemented!() }
// R4: `v.iter().map(|x| Rc::new(x.clone())).collect()` -> opaque helper (the result is not constrained by any contract here)
#[verifier::external_body]
pub fn verif_rc_each(v: &Vec<SExp>) -> Vec<Rc<SExp>> { unimplemented!() }
// R38: what process_embed does with the bytes of a bin / hex embed after reading them -> opaque
#[verifier::external_body]
pub fn verif_embed_bin(loc: &Srcloc, content: Vec<u8>) -> Rc<SExp> { unimplemented!() }
#[verifier::external_body]
pub fn verif_embed_hex(loc: &Srcloc, content: &Vec<u8>) -> Result<Rc<SExp>, CompileErr> { unimplemented!() }
//@ extract fn compose_defconst from src/compiler/preprocessor/mod.rs
//@ stub
//@ end
impl Srcloc {
//@ extract fn start from src/compiler/srcloc.rs in impl Srcloc
//@ stub
//@ end
}
impl SExp {
//@ extract fn proper_list from src/compiler/sexp.rs in impl SExp
//@ stub
//@ end
//@ extract fn loc from src/compiler/sexp.rs in impl SExp
//@ stub
//@ end
}

pub closed spec fn pp_opts(p: Preprocessor) -> VerifOpts { *p.opts }
// SPEC (C18): the listing `incs` names the file that reading `name` from the current file resolves to
pub open spec fn resolved_str(o: VerifOpts, dn: Seq<char>) -> Option<Seq<char>> {
    match opts_read(o, opts_filename(o), dn) { Some((n, _)) => Some(n), None => None }
}
pub open spec fn resolved_name(o: VerifOpts, name: Seq<u8>) -> Option<Seq<char>> { resolved_str(o, decoded(name)) }
// (dialect markers such as *standard-cl-23* are pseudo-files served from memory, not files)
pub open spec fn listed_str(incs: Seq<IncludeDesc>, o: VerifOpts, dn: Seq<char>) -> bool {
    !known_dialect(dn) ==> (resolved_str(o, dn) matches Some(n) ==> exists|i: int| 0 <= i < incs.len() && (#[trigger] incs[i]).name@ == string_bytes(n))
}
pub open spec fn listed(incs: Seq<IncludeDesc>, o: VerifOpts, name: Seq<u8>) -> bool { listed_str(incs, o, decoded(name)) }
pub open spec fn extends(a: Seq<IncludeDesc>, b: Seq<IncludeDesc>) -> bool {
    a.len() <= b.len() && forall|i: int| 0 <= i < a.len() ==> b[i] == a[i]
}

impl Preprocessor {
//@ note recurse_dependencies: unless the name is a dialect marker, the include is recorded under the name read_new_file resolved it to (first match in search-path order, see unit deps), with its kind, before anything else can fail; earlier entries are kept
//@ extract fn recurse_dependencies from src/compiler/preprocessor/mod.rs in impl Preprocessor
//@ attr @<#[verifier::exec_allows_no_decreases_clause]>@
//@ canary record_unresolved_name @<name: full_name.as_bytes().to_vec(),>@ => @<name: desc.name.clone(),>@
//@ replace R35 @<KNOWN_DIALECTS.contains_key(&name_string)>@ => @<verif_known_dialect(&name_string)>@
//@ replace-block R36
        let parsed = parse_sexp(Srcloc::start(&full_name), content.iter().copied())
            .map_err(|e| CompileErr(e.0, e.1))?;
//@ with
        let parsed = verif_parse_sexp(Srcloc::start(&full_name), &content)?;
//@ replace R19 @<for elt in l.iter() {>@ => @<for elt in verif_it: l.iter() invariant extends(verif_inc1, includes@), self.opts == verif_o, verif_o == old(self).opts {>@
//@ sig r
    ensures
        pp_opts(*final(self)) == pp_opts(*old(self)),
        r is Ok ==> extends(old(includes)@, final(includes)@),
        r is Ok ==> listed(final(includes)@, pp_opts(*old(self)), desc.name@),
        r is Ok && !known_dialect(decoded(desc.name@)) ==> {
            &&& final(includes)@.len() > old(includes)@.len()
            &&& resolved_name(pp_opts(*old(self)), desc.name@) matches Some(n)
            &&& final(includes)@[old(includes)@.len() as int].name@ == string_bytes(n)
            &&& final(includes)@[old(includes)@.len() as int].kind == desc.kind
        },
//@ before stmt @<let name_string>@
        let ghost verif_inc0 = includes@;
        let ghost verif_o = self.opts;
//@ after stmt @<includes.push(>@
        let ghost verif_inc1 = includes@;
        proof {
            assert(extends(verif_inc0, verif_inc1));
            assert(verif_inc1[verif_inc0.len() as int].name@ == string_bytes(full_name@));
        }
//@ end
//@ note process_include: the file it reads is already in the listing (C18: reads are a subset of the listing); the listing only grows; no index is out of range whatever the file contains (C14)
//@ extract fn process_include from src/compiler/preprocessor/mod.rs in impl Preprocessor
//@ attr @<#[verifier::exec_allows_no_decreases_clause]>@
//@ replace-block R4+R36
        let parsed: Vec<Rc<SExp>> = parse_sexp(start_of_file.clone(), content.iter().copied())
            .err_into()
            .and_then(|x| match x.first().and_then(|form| form.proper_list()) {
                None => Err(CompileErr(
                    start_of_file,
                    "Includes should contain a list of forms".to_string(),
                )),
                Some(v) => Ok(v.iter().map(|x| Rc::new(x.clone())).collect()),
            })?;
//@ with
        let parsed: Vec<Rc<SExp>> = match verif_parse_sexp(start_of_file.clone(), &content) {
            Err(verif_e) => { return Err(verif_e); }
            Ok(x) => match (match x.first() { Some(form) => form.proper_list(), None => None }) {
                None => { return Err(CompileErr(start_of_file, verif_opaque_string())); }
                Some(v) => verif_rc_each(&v),
            },
        };
//@ replace R37 @<for p in parsed.into_iter() {>@ => @<for p in verif_it: parsed.iter() invariant extends(verif_inc0, includes@), self.opts == verif_o, verif_o == old(self).opts {>@
//@ sig r
    requires listed(old(includes)@, pp_opts(*old(self)), include.name@)
    ensures
        pp_opts(*final(self)) == pp_opts(*old(self)),
        r is Ok ==> extends(old(includes)@, final(includes)@),
//@ before stmt @<let filename_and_content>@
        let ghost verif_inc0 = includes@;
        let ghost verif_o = self.opts;
//@ after stmt @<let filename_and_content>@
        // C18: the file just read is named in the listing
        assert(!known_dialect(decoded(include.name@)) ==> exists|i: int| 0 <= i < includes@.len() && (#[trigger] includes@[i]).name@ == string_bytes(filename_and_content.0@));
//@ end
//@ note process_embed: the one file it reads is the one named by its fname argument, resolved from the current file (the caller has listed it, see process_pp_form); the bin and hex conversions after the read are cut (R38), the sexp arm is kept: it indexes the first parsed form only when there is exactly one (C14)
//@ extract fn process_embed from src/compiler/preprocessor/mod.rs in impl Preprocessor
//@ canary index_without_count_test @<if parsed.len() != 1 {>@ => @<if parsed.len() > 1 {>@
//@ replace-upto R38 @<let mut allocator = Allocator::new();>@ @<let (full_name, content) = self>@ => @<>@
//@ replace-upto R38 @<let content = match kind {>@ @<IncludeProcessType::SExpression => {>@ => @<let content = match kind { IncludeProcessType::Bin => verif_embed_bin(&loc, content), IncludeProcessType::Hex => verif_embed_hex(&loc, &content)?, >@
//@ replace-block R36
                let parsed = parse_sexp(Srcloc::start(&full_name), content.iter().copied())
                    .map_err(|e| CompileErr(e.0, e.1))?;
//@ with
                let parsed = verif_parse_sexp(Srcloc::start(&full_name), &content)?;
//@ replace R1 @<format!("More than one form in {fname}")>@ => @<verif_opaque_string()>@
//@ sig r
    ensures pp_opts(*final(self)) == pp_opts(*old(self)),
//@ after stmt @<let (full_name, content) = self>@
        // the file read is the resolution of (current file, fname)
        assert(resolved_str(pp_opts(*self), fname@) == Some(full_name@));
//@ end

// R39: macro expansion / helper-form bookkeeping of the preprocessor touch neither the options nor the listing
//@ extract fn expand_macros from src/compiler/preprocessor/mod.rs in impl Preprocessor
//@ stub
//@ sig r
    ensures pp_opts(*final(self)) == pp_opts(*old(self))
//@ end
//@ extract fn decode_macro from src/compiler/preprocessor/mod.rs in impl Preprocessor
//@ stub
//@ sig r
    ensures pp_opts(*final(self)) == pp_opts(*old(self))
//@ end
    // R40: the classification of a form as include / embed-file (a 100-line closure chain over slice patterns) is cut and
    // replaced by an unconstrained result: the obligations below hold whatever it answers
    #[verifier::external_body]
    fn verif_classify_include(&mut self, body: &Rc<SExp>) -> (r: Result<Option<IncludeType>, CompileErr>)
        ensures pp_opts(*final(self)) == pp_opts(*old(self))
    { unimplemented!() }

//@ note process_pp_form: before an include file is processed or an embedded file is read, recurse_dependencies has put the name it resolves to into the listing (C18); the listing only grows
//@ extract fn process_pp_form from src/compiler/preprocessor/mod.rs in impl Preprocessor
//@ attr @<#[verifier::exec_allows_no_decreases_clause]>@
//@ canary read_before_listing @<self.recurse_dependencies(includes, f.clone())?;>@ => @<if false { self.recurse_dependencies(includes, f.clone())?; }>@
//@ replace-block R4
        let body = self
            .expand_macros(unexpanded_body.clone(), true)?
            .unwrap_or_else(|| unexpanded_body.clone());
//@ with
        let body = match self.expand_macros(unexpanded_body.clone(), true)? { Some(verif_b) => verif_b, None => unexpanded_body.clone() };
//@ replace-span R40 @<let included: Option<IncludeType> = body>@ @<.unwrap_or_else(|| Ok(None))?;>@ => @<let included: Option<IncludeType> = self.verif_classify_include(&body)?;>@
//@ sig r
    ensures
        pp_opts(*final(self)) == pp_opts(*old(self)),
        r is Ok ==> extends(old(includes)@, final(includes)@),
//@ replace R24 @<self.process_embed(body.loc(), &decode_string(&f.name), kind, name)>@ => @<{ let verif_fname = decode_string(&f.name); assert(listed_str(includes@, pp_opts(*self), verif_fname@)); self.process_embed(body.loc(), &verif_fname, kind, name) }>@
//@ end
}
}
fn main() {}
