#![feature(allocator_api)]
#![allow(unused_imports, dead_code, unused_variables, unused_mut, unused_parens)]
use vstd::prelude::*;
use vstd::string::*;

verus! {
//@ include prelude/misc.rs
//@ include prelude/tempfile.rs

//@ note atomic_write_file: on success the target was replaced in ONE step (persist = rename within the target's own directory) by a file holding exactly target_data; nothing else writes the target. Atomicity of rename(2), crash points and concurrent observers are ASSUMED, not proved.
//@ extract fn atomic_write_file from src/util/mod.rs
//@ canary temp_elsewhere @<NamedTempFile::new_in(output_dir)>@ => @<NamedTempFile::new()>@
//@ replace-block R4
    let output_dir = output_path_obj
        .parent()
        .map(Ok)
        .unwrap_or_else(|| Err("could not get parent of output path"))?;
//@ with
    let output_dir = match output_path_obj.parent() { Some(p) => p, None => { return Err(verif_opaque_string()); } };
//@ replace-block R4
    let mut temp_output_file = NamedTempFile::new_in(output_dir)
        .map_err(|e| format!("error creating temporary compiler output for {input_path}: {e:?}"))?;
//@ with
    let mut temp_output_file = match NamedTempFile::new_in(output_dir) { Ok(t) => t, Err(e) => { return Err(verif_opaque_string()); } };
//@ replace-block R1
    let err_text = format!("failed to write to {:?}", temp_output_file.path());
    let translate_err = |_| err_text.clone();
//@ with
    let err_text = verif_opaque_string();
//@ replace-block R4
    temp_output_file
        .write_all(target_data.as_bytes())
        .map_err(translate_err)?;
//@ with
    match temp_output_file.write_all(target_data.as_bytes()) { Ok(u) => u, Err(e) => { return Err(err_text.clone()); } };
//@ replace-block R4
    temp_output_file
        .persist(output_path)
        .map_err(|e| format!("error persisting temporary compiler output {output_path}: {e:?}"))?;
//@ with
    match temp_output_file.persist(output_path) { Ok(f) => f, Err(e) => { return Err(verif_opaque_string()); } };
//@ sig r
    ensures r is Ok ==> replaced_atomically(output_path@, target_data.spec_bytes())
//@ end

//@ note gentle_overwrite: if the new contents equal the old (up to surrounding whitespace) the call succeeds whatever the rewrite attempt returns; otherwise success means the atomic replacement happened
//@ extract fn gentle_overwrite from src/util/mod.rs
//@ canary propagate_error @<atomic_write_file(input_path, output_path, target_data).ok();>@ => @<atomic_write_file(input_path, output_path, target_data)?;>@
//@ replace R7 @<if prev_trimmed == trimmed {>@ => @<if verif_str_eq(prev_trimmed, trimmed) {>@
//@ sigfile r contracts/gentle_overwrite.sig
//@ end
}
fn main() {}
