#![feature(allocator_api)]
#![allow(unused_imports, dead_code, unused_variables, unused_mut, unused_parens)]
use vstd::prelude::*;
use vstd::arithmetic::power2::*;
use std::rc::Rc;
use std::borrow::Borrow;

verus! {
global size_of usize == 8;
//@ include prelude/bigint.rs
//@ include spec/bytes.rs
//@ include prelude/misc.rs
//@ include prelude/clvmr.rs
//@ include prelude/bigint_bytes.rs
//@ include prelude/rc.rs
//@ include prelude/std.rs
//@ include units/inc/bytes.rs
//@ include spec/treedef.rs
//@ include prelude/allocator_tree.rs
use allocator::SExp;
broadcast use {num_bigint::of_int_bi, num_bigint::bi_of_int};

//@ extract enum CastableType from src/classic/clvm/sexp.rs
//@ replace R41 @<Number(Number),>@ => @<Number(num_bigint::BigInt),>@
//@ end
//@ extract enum SexpStackOp from src/classic/clvm/sexp.rs
//@ end
// proved in units convert / clvmleaves (same contract)
//@ extract fn u8_from_number from src/util/mod.rs
//@ stub
//@ replace R41 @<v: Number>@ => @<v: num_bigint::BigInt>@
//@ sig r
    ensures r@ == u8n(bi(v))
//@ end

// ---- the CLVM value a Rust-side value denotes
// plain: the shapes under contract (what the deserialiser and the readers hand over); ListOf is never constructed in the crate and
// G1Affine goes through chia_bls, both arms are cut from the verified text (R38) and excluded here
pub open spec fn plain(a: Allocator, v: CastableType) -> bool
    decreases v
{
    match v {
        CastableType::CLVMObject(n) => node_tree(a, n) is Some,
        CastableType::TupleOf(l, r) => plain(a, *l) && plain(a, *r),
        CastableType::Bytes(_) => true,
        CastableType::String(_) => true,
        CastableType::Number(_) => true,
        _ => false,
    }
}
pub open spec fn ct_tree(a: Allocator, v: CastableType) -> Tree
    decreases v
{
    match v {
        CastableType::CLVMObject(n) => node_tree(a, n)->Some_0,
        CastableType::TupleOf(l, r) => Tree::Pair(Box::new(ct_tree(a, *l)), Box::new(ct_tree(a, *r))),
        CastableType::Bytes(b) => Tree::Atom(bv(b)),
        CastableType::String(s) => Tree::Atom(string_bytes(s@)),
        CastableType::Number(n) => Tree::Atom(u8n(bi(n))),
        _ => tnil(),
    }
}
pub open spec fn ct_size(v: CastableType) -> nat
    decreases v
{
    match v { CastableType::TupleOf(l, r) => 1 + ct_size(*l) + ct_size(*r), _ => 1 }
}
pub open spec fn plain_r(a: Allocator, v: &CastableType) -> bool { plain(a, *v) }
pub open spec fn ct_tree_r(a: Allocator, v: &CastableType) -> Tree { ct_tree(a, *v) }
pub proof fn lemma_ct_ext(o: Allocator, n: Allocator, v: &CastableType)
    requires alloc_ext(o, n), plain(o, *v)
    ensures plain(n, *v), ct_tree(n, *v) == ct_tree(o, *v)
    decreases *v
{
    match v { CastableType::TupleOf(l, r) => { lemma_ct_ext(o, n, &**l); lemma_ct_ext(o, n, &**r); } _ => {} }
}

// ---- the conversion machine, abstractly: a stack of elements that are either finished nodes or values still to convert
pub enum Elt { Node(Tree), Raw(CastableType) }
pub open spec fn abs1(a: Allocator, v: CastableType) -> Elt { match v { CastableType::CLVMObject(n) => Elt::Node(node_tree(a, n)->Some_0), _ => Elt::Raw(v) } }
pub open spec fn abs1_r(a: Allocator, v: &CastableType) -> Elt { abs1(a, *v) }
pub open spec fn ct_size_r(v: &CastableType) -> nat { ct_size(*v) }
pub open spec fn weight(st: Seq<Elt>) -> nat
    decreases st.len()
{
    if st.len() == 0 { 0 } else { weight(st.drop_last()) + (match st.last() { Elt::Raw(v) => ct_size(v), Elt::Node(_) => 0 }) }
}
pub open spec fn ew(e: Elt) -> nat { match e { Elt::Raw(v) => ct_size(v), Elt::Node(_) => 0 } }
pub proof fn lemma_weight_push(st: Seq<Elt>, e: Elt)
    ensures weight(st.push(e)) == weight(st) + ew(e)
{
    assert(st.push(e).drop_last() =~= st);
}
pub proof fn lemma_weight_update_node(st: Seq<Elt>, t: int, x: Tree)
    requires 0 <= t < st.len()
    ensures weight(st.update(t, Elt::Node(x))) <= weight(st), st[t] is Node ==> weight(st.update(t, Elt::Node(x))) == weight(st)
    decreases st.len()
{
    let u = st.update(t, Elt::Node(x));
    if t == st.len() - 1 {
        assert(u.drop_last() =~= st.drop_last());
    } else {
        assert(u.drop_last() =~= st.drop_last().update(t, Elt::Node(x)));
        lemma_weight_update_node(st.drop_last(), t, x);
    }
}
pub proof fn lemma_ct_size_pos(v: &CastableType)
    ensures ct_size(*v) >= 1
{}
pub enum AOp { Convert, SetPair(bool, int), Prepend(int) }
pub open spec fn nil2() -> Tree { Tree::Pair(Box::new(tnil()), Box::new(tnil())) }
// None = the machine stops with an error (or would index outside its stack)
pub open spec fn run(a: Allocator, ops: Seq<AOp>, st: Seq<Elt>) -> Option<Seq<Elt>>
    decreases 4 * weight(st) + ops.len() via run_decreases
{
    if ops.len() == 0 { Some(st) } else if st.len() == 0 { None } else {
        let ops1 = ops.drop_last();
        let st1 = st.drop_last();
        match ops.last() {
            AOp::Convert => match st.last() {
                Elt::Node(t) => run(a, ops1, st),
                Elt::Raw(CastableType::TupleOf(l, r)) => {
                    let k = st1.len() as int;
                    run(a, ops1.push(AOp::SetPair(true, k)).push(AOp::Convert).push(AOp::SetPair(false, k)).push(AOp::Convert),
                        st1.push(Elt::Node(nil2())).push(abs1(a, *r)).push(abs1(a, *l)))
                },
                Elt::Raw(CastableType::Bytes(b)) => run(a, ops1, st1.push(Elt::Node(Tree::Atom(bv(b))))),
                Elt::Raw(CastableType::String(s)) => run(a, ops1, st1.push(Elt::Node(Tree::Atom(string_bytes(s@))))),
                Elt::Raw(CastableType::Number(n)) => run(a, ops1, st1.push(Elt::Node(Tree::Atom(u8n(bi(n)))))),
                _ => None,
            },
            AOp::SetPair(toset, t) => match st.last() {
                Elt::Node(x) => if 0 <= t < st1.len() { match st1[t] {
                    Elt::Node(Tree::Pair(l, r)) => run(a, ops1, st1.update(t, Elt::Node(if toset { Tree::Pair(l, Box::new(x)) } else { Tree::Pair(Box::new(x), r) }))),
                    _ => None,
                } } else { None },
                _ => None,
            },
            AOp::Prepend(t) => match st.last() {
                Elt::Node(x) => if 0 <= t < st1.len() { match st1[t] {
                    Elt::Node(o) => run(a, ops1, st1.update(t, Elt::Node(Tree::Pair(Box::new(x), Box::new(o))))),
                    _ => None,
                } } else { None },
                _ => None,
            },
        }
    }
}

#[via_fn]
proof fn run_decreases(a: Allocator, ops: Seq<AOp>, st: Seq<Elt>)
{
    if ops.len() > 0 && st.len() > 0 {
        let ops1 = ops.drop_last();
        let st1 = st.drop_last();
        assert(weight(st) == weight(st1) + ew(st.last()));
        match ops.last() {
            AOp::Convert => match st.last() {
                Elt::Raw(CastableType::TupleOf(l, r)) => {
                    let s1 = st1.push(Elt::Node(nil2()));
                    let s2 = s1.push(abs1_r(a, &*r));
                    lemma_weight_push(st1, Elt::Node(nil2()));
                    lemma_weight_push(s1, abs1_r(a, &*r));
                    lemma_weight_push(s2, abs1_r(a, &*l));
                    assert(ew(abs1_r(a, &*r)) <= ct_size_r(&*r));
                    assert(ew(abs1_r(a, &*l)) <= ct_size_r(&*l));
                },
                Elt::Raw(CastableType::Bytes(b)) => { lemma_weight_push(st1, Elt::Node(Tree::Atom(bv(b)))); },
                Elt::Raw(CastableType::String(s)) => { lemma_weight_push(st1, Elt::Node(Tree::Atom(string_bytes(s@)))); },
                Elt::Raw(CastableType::Number(n)) => { lemma_weight_push(st1, Elt::Node(Tree::Atom(u8n(bi(n))))); },
                _ => {}
            },
            AOp::SetPair(toset, t) => match st.last() {
                Elt::Node(x) => if 0 <= t < st1.len() { match st1[t] {
                    Elt::Node(Tree::Pair(l, r)) => { lemma_weight_update_node(st1, t, if toset { Tree::Pair(l, Box::new(x)) } else { Tree::Pair(Box::new(x), r) }); }
                    _ => {}
                } },
                _ => {}
            },
            AOp::Prepend(t) => match st.last() {
                Elt::Node(x) => if 0 <= t < st1.len() { match st1[t] {
                    Elt::Node(o) => { lemma_weight_update_node(st1, t, Tree::Pair(Box::new(x), Box::new(o))); }
                    _ => {}
                } },
                _ => {}
            },
        }
    }
}

// converting a value leaves its tree as a finished node, whatever is pending around it
pub proof fn lemma_convert(a: Allocator, v: &CastableType, ops: Seq<AOp>, st: Seq<Elt>)
    requires plain(a, *v)
    ensures run(a, ops.push(AOp::Convert), st.push(abs1(a, *v))) == run(a, ops, st.push(Elt::Node(ct_tree(a, *v))))
    decreases *v
{
    let o1 = ops.push(AOp::Convert);
    let s1 = st.push(abs1(a, *v));
    assert(o1.drop_last() =~= ops);
    assert(s1.drop_last() =~= st);
    match v {
        CastableType::TupleOf(l, r) => {
            let k = st.len() as int;
            let tl = ct_tree_r(a, &**l);
            let tr = ct_tree_r(a, &**r);
            let o_sp_t = ops.push(AOp::SetPair(true, k));
            let o_c1 = o_sp_t.push(AOp::Convert);
            let o_sp_f = o_c1.push(AOp::SetPair(false, k));
            let o_c2 = o_sp_f.push(AOp::Convert);
            let sa = st.push(Elt::Node(nil2()));
            let sb = sa.push(abs1_r(a, &**r));
            let sc = sb.push(abs1_r(a, &**l));
            // the Convert step itself
            assert(run(a, o1, s1) == run(a, o_c2, sc));
            // left child converted
            lemma_convert(a, &**l, o_sp_f, sb);
            // SetPair(false, k)
            let sb_l = sb.push(Elt::Node(tl));
            assert(o_sp_f.drop_last() =~= o_c1);
            assert(sb_l.drop_last() =~= sb);
            assert(sb[k] == Elt::Node(nil2()));
            let sb2 = sb.update(k, Elt::Node(Tree::Pair(Box::new(tl), Box::new(tnil()))));
            assert(run(a, o_sp_f, sb_l) == run(a, o_c1, sb2));
            let sa2 = st.push(Elt::Node(Tree::Pair(Box::new(tl), Box::new(tnil()))));
            assert(sb2 =~= sa2.push(abs1_r(a, &**r)));
            // right child converted
            lemma_convert(a, &**r, o_sp_t, sa2);
            // SetPair(true, k)
            let sa2_r = sa2.push(Elt::Node(tr));
            assert(o_sp_t.drop_last() =~= ops);
            assert(sa2_r.drop_last() =~= sa2);
            assert(sa2[k] == Elt::Node(Tree::Pair(Box::new(tl), Box::new(tnil()))));
            assert(sa2.update(k, Elt::Node(Tree::Pair(Box::new(tl), Box::new(tr)))) =~= st.push(Elt::Node(Tree::Pair(Box::new(tl), Box::new(tr)))));
            assert(run(a, o_sp_t, sa2_r) == run(a, ops, st.push(Elt::Node(Tree::Pair(Box::new(tl), Box::new(tr))))));
        }
        _ => {}
    }
}

// ---- concrete machine state against the abstract one
pub open spec fn aop(o: SexpStackOp) -> AOp {
    match o { SexpStackOp::OpConvert => AOp::Convert, SexpStackOp::OpSetPair(b, t) => AOp::SetPair(b, t as int), SexpStackOp::OpPrepend(t) => AOp::Prepend(t as int) }
}
pub open spec fn absops(ops: Seq<SexpStackOp>) -> Seq<AOp> { Seq::new(ops.len(), |i: int| aop(ops[i])) }
pub open spec fn absst(a: Allocator, st: Seq<Rc<CastableType>>) -> Seq<Elt> { Seq::new(st.len(), |i: int| abs1(a, *st[i])) }
// every stack element is a valid node of the current allocator or a plain value whose nodes are from the initial one
pub open spec fn st_ok(a0: Allocator, cur: Allocator, st: Seq<Rc<CastableType>>) -> bool {
    forall|i: int| 0 <= i < st.len() ==> (match *(#[trigger] st[i]) { CastableType::CLVMObject(n) => node_tree(cur, n) is Some, _ => plain(a0, *st[i]) })
}
pub proof fn lemma_absst_ext(a0: Allocator, o: Allocator, n: Allocator, st: Seq<Rc<CastableType>>)
    requires alloc_ext(o, n), st_ok(a0, o, st)
    ensures st_ok(a0, n, st), absst(n, st) == absst(o, st)
{
    assert forall|i: int| 0 <= i < st.len() implies abs1(n, *(#[trigger] st[i])) == abs1(o, *st[i]) by { }
    assert(absst(n, st) =~= absst(o, st));
}
pub proof fn lemma_abs_plain(a0: Allocator, cur: Allocator, v: &CastableType)
    requires alloc_ext(a0, cur), plain(a0, *v)
    ensures abs1(cur, *v) == abs1(a0, *v), (*v matches CastableType::CLVMObject(n) ==> node_tree(cur, n) is Some)
{}

//@ note to_sexp_type (behind SimpleCreateCLVMObject, i.e. every pair the deserialiser builds): for values made of nodes, tuples, byte strings, strings and numbers the node it returns denotes ct_tree(value) -- a node is returned as it is, a tuple becomes the pair of its converted halves; no index is out of range and none of its internal errors can happen (only allocation can fail)
//@ extract fn to_sexp_type from src/classic/clvm/sexp.rs
//@ canary halves_swapped @<ops.push(SexpStackOp::OpSetPair(true, target_index)); // set right>@ => @<ops.push(SexpStackOp::OpSetPair(false, target_index)); // set right>@
//@ replace all R1 @<"empty value stack".to_string(),>@ => @<verif_opaque_string(),>@
//@ replace all R1 @<"attempt to set_pair in atom".to_string(),>@ => @<verif_opaque_string(),>@
//@ replace all R1 @<format!("Setting wing of non pair {:?}", stack[target]),>@ => @<verif_opaque_string(),>@
//@ replace all R1 @<format!("op_set_pair on atom item {target:?} in vec {stack:?} ops {ops:?}"),>@ => @<verif_opaque_string(),>@
//@ replace all R1 @<format!("unrealized pair prepended {:?}", stack[target]),>@ => @<verif_opaque_string(),>@
//@ replace all R1 @<format!("unrealized prepend {top:?}"),>@ => @<verif_opaque_string(),>@
//@ replace all R1 @<format!("too many values left on op stack {stack:?}"),>@ => @<verif_opaque_string(),>@
//@ replace all R1 @<"stack empty".to_string(),>@ => @<verif_opaque_string(),>@
//@ replace all R1 @<format!("unimplemented {:?}", stack[0]),>@ => @<verif_opaque_string(),>@
//@ replace all R4 @<stack[target] = Rc::new(CastableType::CLVMObject(pair));>@ => @<stack.set(target, Rc::new(CastableType::CLVMObject(pair)));>@
//@ replace-upto R38 @<CastableType::ListOf(_sel, v) => {>@ @<CastableType::Bytes(b) => match allocator.new_atom(b.data()) {>@ => @<CastableType::ListOf(_sel, v) => { proof { assert(false); } return Err(EvalErr::InternalError(NodePtr::NIL, verif_opaque_string())); } >@
//@ replace-upto R38 @<CastableType::G1Affine(g) => {>@ @<SexpStackOp::OpSetPair(toset, target) => match top.borrow() {>@ => @<CastableType::G1Affine(g) => { proof { assert(false); } return Err(EvalErr::InternalError(NodePtr::NIL, verif_opaque_string())); } } } >@
//@ sig r
    requires plain(*old(allocator), value)
    ensures alloc_ext(*old(allocator), *final(allocator)),
        r matches Ok(n) ==> node_tree(*final(allocator), n) == Some(ct_tree(*old(allocator), value)),
//@ before stmt @<let mut stack = vec![Rc::new(value)];>@
    broadcast use axiom_nil_node;
    let ghost verif_target = ct_tree(*allocator, value);
    let ghost verif_a0 = *allocator;
    proof {
        lemma_convert(verif_a0, &value, Seq::<AOp>::empty(), Seq::<Elt>::empty());
    }
    let ghost verif_v0 = abs1(verif_a0, value);
//@ after stmt @<let mut ops: Vec<SexpStackOp> = vec![SexpStackOp::OpConvert];>@
    proof {
        assert(absops(ops@) =~= Seq::<AOp>::empty().push(AOp::Convert));
        assert(absst(*allocator, stack@) =~= Seq::<Elt>::empty().push(verif_v0));
        assert(Seq::<Elt>::empty().push(Elt::Node(verif_target)) =~= seq![Elt::Node(verif_target)]);
    }
//@ loop 0
        invariant
            verif_a0 == *old(allocator), alloc_ext(verif_a0, *allocator),
            st_ok(verif_a0, *allocator, stack@),
            run(verif_a0, absops(ops@), absst(*allocator, stack@)) == Some(seq![Elt::Node(verif_target)]),
        ensures
            ops@.len() == 0,
        decreases 4 * weight(absst(*allocator, stack@)) + ops@.len()
//@ before stmt @<let op = match ops.pop() {>@
        let ghost verif_ops0 = ops@;
        let ghost verif_st0 = stack@;
        let ghost verif_a = *allocator;
//@ before stmt @<match op {>@
        let ghost verif_pre = stack@;
        proof {
            let ao = absops(verif_ops0);
            let as0 = absst(verif_a, verif_st0);
            assert(ao.drop_last() =~= absops(ops@));
            assert(as0.drop_last() =~= absst(verif_a, verif_pre));
            assert(ao.last() == aop(op));
            assert(as0.last() == abs1(verif_a, *top));
            assert(verif_pre =~= verif_st0.drop_last());
            assert(st_ok(verif_a0, verif_a, verif_pre));
            assert(run(verif_a0, ao, as0) is Some);
            assert(weight(as0) == weight(as0.drop_last()) + ew(as0.last()));
        }
//@ after stmt @<stack.push(top.clone());>@
                        proof { assert(stack@ =~= verif_st0); assert(absst(*allocator, stack@) =~= absst(verif_a, verif_st0)); }
//@ before stmt @<match allocator.new_pair(NodePtr::NIL, NodePtr::NIL) {>@
                        proof { axiom_nil_node(*allocator); }
//@ after #1 stmt @<ops.push(SexpStackOp::OpConvert);>@
                        proof {
                            let cur = *allocator;
                            axiom_nil_node(verif_a);
                            lemma_absst_ext(verif_a0, verif_a, cur, verif_pre);
                            lemma_abs_plain(verif_a0, cur, &**left);
                            lemma_abs_plain(verif_a0, cur, &**right);
                            lemma_abs_plain(verif_a0, verif_a, &**left);
                            lemma_abs_plain(verif_a0, verif_a, &**right);
                            let k = verif_pre.len() as int;
                            assert(absst(cur, stack@) =~= absst(verif_a, verif_pre).push(Elt::Node(nil2())).push(abs1_r(verif_a0, &**right)).push(abs1_r(verif_a0, &**left)));
                            assert(absops(ops@) =~= absops(verif_ops0).drop_last().push(AOp::SetPair(true, k)).push(AOp::Convert).push(AOp::SetPair(false, k)).push(AOp::Convert));
                            let w0 = absst(verif_a, verif_pre);
                            let w1 = w0.push(Elt::Node(nil2()));
                            let w2 = w1.push(abs1_r(verif_a0, &**right));
                            lemma_weight_push(w0, Elt::Node(nil2()));
                            lemma_weight_push(w1, abs1_r(verif_a0, &**right));
                            lemma_weight_push(w2, abs1_r(verif_a0, &**left));
                            assert(ew(abs1_r(verif_a0, &**right)) <= ct_size_r(&**right));
                            assert(ew(abs1_r(verif_a0, &**left)) <= ct_size_r(&**left));
                        }
//@ after #0 stmt @<stack.push(Rc::new(CastableType::CLVMObject(a)));>@
                            proof { let cur = *allocator; lemma_absst_ext(verif_a0, verif_a, cur, verif_pre); assert(absst(cur, stack@) =~= absst(verif_a, verif_pre).push(Elt::Node(Tree::Atom(bv(*b))))); lemma_weight_push(absst(verif_a, verif_pre), Elt::Node(Tree::Atom(bv(*b)))); }
//@ after #1 stmt @<stack.push(Rc::new(CastableType::CLVMObject(a)));>@
                                proof { let cur = *allocator; lemma_absst_ext(verif_a0, verif_a, cur, verif_pre); assert(absst(cur, stack@) =~= absst(verif_a, verif_pre).push(Elt::Node(Tree::Atom(string_bytes(s@))))); lemma_weight_push(absst(verif_a, verif_pre), Elt::Node(Tree::Atom(string_bytes(s@)))); }
//@ after #2 stmt @<stack.push(Rc::new(CastableType::CLVMObject(a)));>@
                                proof { let cur = *allocator; lemma_absst_ext(verif_a0, verif_a, cur, verif_pre); assert(absst(cur, stack@) =~= absst(verif_a, verif_pre).push(Elt::Node(Tree::Atom(u8n(bi(*n)))))); lemma_weight_push(absst(verif_a, verif_pre), Elt::Node(Tree::Atom(u8n(bi(*n))))); }
//@ after #0 stmt @<stack.set(target, Rc::new(CastableType::CLVMObject(pair)));>@
                                        proof { let cur = *allocator; lemma_absst_ext(verif_a0, verif_a, cur, verif_pre); assert(absst(cur, stack@) =~= absst(verif_a, verif_pre).update(target as int, abs1(cur, CastableType::CLVMObject(pair)))); lemma_weight_update_node(absst(verif_a, verif_pre), target as int, node_tree(cur, pair)->Some_0); }
//@ after #1 stmt @<stack.set(target, Rc::new(CastableType::CLVMObject(pair)));>@
                                        proof { let cur = *allocator; lemma_absst_ext(verif_a0, verif_a, cur, verif_pre); assert(absst(cur, stack@) =~= absst(verif_a, verif_pre).update(target as int, abs1(cur, CastableType::CLVMObject(pair)))); lemma_weight_update_node(absst(verif_a, verif_pre), target as int, node_tree(cur, pair)->Some_0); }
//@ after #2 stmt @<stack.set(target, Rc::new(CastableType::CLVMObject(pair)));>@
                            proof { let cur = *allocator; lemma_absst_ext(verif_a0, verif_a, cur, verif_pre); assert(absst(cur, stack@) =~= absst(verif_a, verif_pre).update(target as int, abs1(cur, CastableType::CLVMObject(pair)))); lemma_weight_update_node(absst(verif_a, verif_pre), target as int, node_tree(cur, pair)->Some_0); }
//@ before stmt @<if stack.len() != 1 {>@
    proof {
        assert(absops(ops@) =~= Seq::<AOp>::empty());
        assert(absst(*allocator, stack@) == seq![Elt::Node(verif_target)]);
        assert(absst(*allocator, stack@).len() == 1);
        assert(absst(*allocator, stack@)[0] == Elt::Node(verif_target));
    }
//@ end

pub struct Reduction(pub u64, pub NodePtr);
pub type Response = Result<Reduction, EvalErr>;
//@ extract struct SimpleCreateCLVMObject from src/classic/clvm/serialize.rs
//@ end
impl SimpleCreateCLVMObject {
//@ note SimpleCreateCLVMObject::invoke (the only TToSexpF in the crate; what sexp_from_stream builds every pair with): the node it returns denotes ct_tree(value)
//@ extract fn invoke from src/classic/clvm/serialize.rs in impl TToSexpF<'a> for SimpleCreateCLVMObject
//@ replace R10 @<fn invoke(&self, allocator: &'a mut Allocator, v: CastableType) -> Response {>@ => @<pub fn invoke(&self, allocator: &mut Allocator, v: CastableType) -> Response {>@
//@ replace R4 @<to_sexp_type(allocator, v).map(|sexp| Reduction(1, sexp))>@ => @<(match to_sexp_type(allocator, v) { Ok(sexp) => Ok(Reduction(1, sexp)), Err(verif_e) => Err(verif_e) })>@
//@ sig r
    requires plain(*old(allocator), v)
    ensures alloc_ext(*old(allocator), *final(allocator)),
        r matches Ok(red) ==> node_tree(*final(allocator), red.1) == Some(ct_tree(*old(allocator), v)),
//@ end
}

}
fn main() {}
