#![feature(allocator_api)]
#![allow(unused_imports, dead_code, unused_variables, unused_mut, unused_parens)]
use vstd::prelude::*;
use std::rc::Rc;
use std::borrow::Borrow;

verus! {
//@ note assumption: 64-bit target (global size_of usize == 8) for the tab-stop bit arithmetic in Srcloc::advance
global size_of usize == 8;
//@ include prelude/rc.rs
//@ extract struct Until from src/compiler/srcloc.rs
//@ derives
//@ end
//@ extract struct Srcloc from src/compiler/srcloc.rs
//@ derives
//@ end
//@ include spec/srcloc.rs

impl Until {
//@ extract fn from_pair from src/compiler/srcloc.rs in impl Until
//@ sig r
    ensures r.line == p.0, r.col == p.1
//@ end
}

impl Srcloc {
//@ extract fn new from src/compiler/srcloc.rs in impl Srcloc
//@ sig r
    ensures r.file == name, r.line == line, r.col == col, r.until is None
//@ end
//@ extract fn ending from src/compiler/srcloc.rs in impl Srcloc
//@ sig r
    ensures r.file == self.file, r.until is None,
        self.until is Some ==> sstart(r) == send(*self),
        self.until is None ==> r == *self,
//@ end
//@ note Srcloc::len computes until.col - col: the precondition is the reader invariant that a same-line range does not end before it starts
//@ extract fn len from src/compiler/srcloc.rs in impl Srcloc
//@ sig r
    requires (self.until is Some && self.until->Some_0.line == self.line) ==> self.until->Some_0.col >= self.col
    ensures
        self.until is None ==> r == Some(1usize),
        (self.until is Some && self.until->Some_0.line != self.line) ==> r is None,
        (self.until is Some && self.until->Some_0.line == self.line) ==> r == Some((self.until->Some_0.col - self.col) as usize),
//@ end
//@ extract fn advance from src/compiler/srcloc.rs in impl Srcloc
//@ canary tab_stop @<(self.col + 8) & !7>@ => @<(self.col + 8) & !3>@
//@ sig r
    requires self.col < usize::MAX - 8, self.line < usize::MAX
    ensures r.file == self.file, r.until == self.until,
        sstart(r) == advance_pos(sstart(*self), ch),
//@ after stmt @<let next_tab>@
                proof {
                    let c = self.col;
                    assert(((c + 8) as usize & !7usize) == (((c + 8) as usize) / 8) * 8) by(bit_vector)
                        requires c <= 0xffff_ffff_ffff_fff6usize;
                }
//@ end
//@ extract fn ext from src/compiler/srcloc.rs in impl Srcloc
//@ replace R7 @<other.file == self.file>@ => @<verif_rc_string_eq(&other.file, &self.file)>@
//@ sigfile r contracts/srcloc_ext.sig
//@ end
}

//@ extract fn src_location_min from src/compiler/srcloc.rs
//@ sig r
    ensures (r.0 as int, r.1 as int) == sstart(*a)
//@ end
//@ extract fn src_location_max from src/compiler/srcloc.rs
//@ sig r
    requires a.col < usize::MAX
    ensures (r.0 as int, r.1 as int) == send(*a)
//@ end
//@ extract fn add_onto from src/compiler/srcloc.rs
//@ sig r
    requires y.col < usize::MAX
    ensures r.file == x.file, sstart(r) == sstart(*x), send(r) == send(*y), r.until is Some
//@ end
//@ note combine_src_location: starts at the earlier start; ends at the end of the later-starting argument (or is `a` itself when both start at the same place), so the result never reaches beyond the hull of a and b
//@ extract fn combine_src_location from src/compiler/srcloc.rs
//@ canary swap_order @<(true, _) => add_onto(a, b),>@ => @<(true, _) => add_onto(b, a),>@
//@ sig r
    requires a.col < usize::MAX, b.col < usize::MAX
    ensures
        sstart(r) == pmin(sstart(*a), sstart(*b)),
        ple(send(r), pmax(send(*a), send(*b))),
        r.file == (if ple(sstart(*a), sstart(*b)) { a.file } else { b.file }),
        plt(sstart(*a), sstart(*b)) ==> send(r) == send(*b),
        plt(sstart(*b), sstart(*a)) ==> send(r) == send(*a),
        sstart(*a) == sstart(*b) ==> r == *a,
//@ end
}
fn main() {}
