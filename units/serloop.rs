#![feature(allocator_api)]
#![allow(unused_imports, dead_code, unused_variables, unused_mut, unused_parens)]
use vstd::prelude::*;
use vstd::arithmetic::power2::*;

verus! {
global size_of usize == 8;
//@ include spec/bytes.rs
//@ include spec/ser.rs
//@ include prelude/misc.rs
//@ include prelude/clvmr.rs
//@ include prelude/std.rs
//@ include units/inc/bytes.rs
//@ include spec/sertree.rs
//@ include prelude/allocator_tree.rs
use allocator::SExp;

//@ extract enum SExpToByteOp from src/classic/clvm/serialize.rs
//@ replace R28 @<enum SExpToByteOp {>@ => @<pub enum SExpToByteOp {>@
//@ end
//@ extract struct SExpToBytesIterator from src/classic/clvm/serialize.rs
//@ replace R28 @<struct SExpToBytesIterator<'a> {>@ => @<pub struct SExpToBytesIterator<'a> {>@
//@ end
//@ include spec/serout.rs

//@ include units/inc/stream_w.rs
// R32: std::cmp::max on usize (vstd has no specification for the generic function)
pub fn verif_max(a: usize, b: usize) -> (r: usize)
    ensures r == (if a >= b { a } else { b })
{ if a >= b { a } else { b } }

impl Stream {
//@ note Stream::re_allocate: only the capacity changes
//@ extract fn re_allocate from src/classic/clvm/__type_compatibility__.rs in impl Stream
//@ sig
    requires size is None ==> old(self).buffer@.len() * 4 <= usize::MAX
    ensures final(self).buffer@ == old(self).buffer@, final(self).seek == old(self).seek, final(self).length == old(self).length
//@ before stmt @<let mut s = match size>@
        let ghost b0 = self.buffer@;
//@ replace R33 @<for by in &self.buffer {>@ => @<for by in verif_bit: self.buffer.iter() invariant self.buffer@ == b0, buf@ == b0.subrange(0, verif_bit.index@ as int) {>@
//@ before stmt @<self.buffer = buf;>@
        proof { assert(buf@ =~= b0); }
//@ end

//@ note Stream::write: the bytes are written at the cursor, overwriting what was there and extending the stream when they reach past its end; everything else is kept; the cursor moves past them
//@ extract fn write from src/classic/clvm/__type_compatibility__.rs in impl Stream
//@ canary drop_last_byte @<for i in 0..b.length()>@ => @<for i in 0..(b.length() - 1)>@
//@ replace all R32 @<max(>@ => @<verif_max(>@
//@ sigfile r contracts/stream_write.sig
//@ before stmt @<let new_length>@
        let ghost d0 = self.buffer@;
        let ghost k = self.seek as int;
        let ghost n = bv(b).len() as int;
//@ before stmt @<if b.length() > 0 {>@
        assert(self.buffer@ == d0);
//@ after stmt #0 @<self.buffer>@
            let ghost d1 = self.buffer@;
            assert(d1.len() == (if k + n >= d0.len() { k + n } else { d0.len() as int }));
            assert(d1.subrange(0, d0.len() as int) =~= d0);
//@ loop 0
                invariant
                    self.seek == k, n == bv(b).len(), k + n <= usize::MAX, k + n <= self.buffer@.len(), self.buffer@.len() == d1.len(), self.length == d0.len(),
                    forall|j: int| 0 <= j < k ==> #[trigger] self.buffer@[j] == d1[j],
                    forall|j: int| k <= j < k + i ==> #[trigger] self.buffer@[j] == bv(b)[j - k],
                    forall|j: int| k + i <= j < d1.len() ==> #[trigger] self.buffer@[j] == d1[j],
//@ before stmt @<self.length = new_length;>@
        proof {
            let tail_from = if k + n <= d0.len() { k + n } else { d0.len() as int };
            assert(self.buffer@ =~= d0.subrange(0, k) + bv(b) + d0.subrange(tail_from, d0.len() as int));
            if k == d0.len() { assert(d0.subrange(0, k) =~= d0); assert(self.buffer@ =~= d0 + bv(b)); }
        }
//@ end
}

impl<'a> SExpToBytesIterator<'a> {
//@ note SExpToBytesIterator::new: the work stack holds exactly the object to serialise
//@ extract fn new from src/classic/clvm/serialize.rs in impl SExpToBytesIterator
//@ sig r
    requires node_tree(*old(allocator), sexp) is Some
    ensures
        it_alloc(r) == *old(allocator),
        it_stack(r) == seq![SExpToByteOp::Object(sexp)],
//@ end
// proved in unit `serout` (same contract text)
//@ extract fn next from src/classic/clvm/serialize.rs in impl Iterator for SExpToBytesIterator<'_>
//@ stub
//@ replace R10 @<Option<Self::Item>>@ => @<Option<Vec<u8>>>@
//@ sigfile r contracts/ser_next.sig
//@ end
}

//@ note sexp_to_stream (the serialiser entry): appends exactly the consensus serialisation of the tree to a stream positioned at its end, whenever every atom is below the 2^34-byte prefix limit; terminates (the work-stack weight decreases)
//@ extract fn sexp_to_stream from src/classic/clvm/serialize.rs
//@ canary write_twice @<f.write(Bytes::new(Some(BytesFromType::Raw(b))));>@ => @<f.write(Bytes::new(Some(BytesFromType::Raw(b.clone())))); if b.len() > 1 { f.write(Bytes::new(Some(BytesFromType::Raw(b)))); }>@
//@ replace R31 @<for b in SExpToBytesIterator::new(allocator, sexp) {>@ => @<let ghost verif_al = *allocator; let ghost verif_d0 = stream_data(*f); let ghost verif_t = node_tree(*allocator, sexp)->Some_0; let mut verif_it = SExpToBytesIterator::new(allocator, sexp); proof { lemma_initial_stack(verif_al, sexp); } loop invariant_except_break stream_data(*f) + pending(verif_al, it_stack(verif_it)) == verif_d0 + ser(verif_t), stream_data(*f).len() + pending(verif_al, it_stack(verif_it)).len() <= usize::MAX / 4 invariant it_alloc(verif_it) == verif_al, stack_wf(verif_al, it_stack(verif_it)), stack_fits(verif_al, it_stack(verif_it)), stream_wf(*f), stream_at_end(*f) ensures stream_wf(*f), stream_at_end(*f), stream_data(*f) == verif_d0 + ser(verif_t) decreases stack_weight(verif_al, it_stack(verif_it)) { let ghost verif_s0 = it_stack(verif_it); let verif_nx = verif_it.next(); if verif_nx.is_none() { proof { lemma_none_means_done(verif_al, verif_s0); } break; } let b = verif_nx.unwrap(); proof { lemma_app_len(stream_data(*f), b@, pending(verif_al, it_stack(verif_it))); }>@
//@ sig
    requires
        node_tree(*old(allocator), sexp) is Some,
        atoms_fit(node_tree(*old(allocator), sexp)->Some_0),
        stream_wf(*old(f)), stream_at_end(*old(f)),
        stream_data(*old(f)).len() + ser(node_tree(*old(allocator), sexp)->Some_0).len() <= usize::MAX / 4,
    ensures
        stream_wf(*final(f)), stream_at_end(*final(f)),
        stream_data(*final(f)) == stream_data(*old(f)) + ser(node_tree(*old(allocator), sexp)->Some_0),
//@ end

pub proof fn lemma_initial_stack(a: Allocator, n: NodePtr)
    requires node_tree(a, n) is Some
    ensures
        pending(a, seq![SExpToByteOp::Object(n)]) == ser(node_tree(a, n)->Some_0),
        stack_wf(a, seq![SExpToByteOp::Object(n)]),
        atoms_fit(node_tree(a, n)->Some_0) ==> stack_fits(a, seq![SExpToByteOp::Object(n)]),
{
    let st = seq![SExpToByteOp::Object(n)];
    assert(st.drop_last() =~= Seq::<SExpToByteOp>::empty());
    assert(pending(a, st) == op_bytes(a, st.last()) + pending(a, st.drop_last()));
    assert(pending(a, st.drop_last()) =~= Seq::<u8>::empty());
    assert(pending(a, st) =~= ser(node_tree(a, n)->Some_0));
}
// next() returned None: with every pending atom below the limit this only happens on an empty stack
pub proof fn lemma_none_means_done(a: Allocator, st: Seq<SExpToByteOp>)
    requires stack_fits(a, st), st.len() == 0 || (st.last() matches SExpToByteOp::Object(n) && node_tree(a, n)->Some_0 matches Tree::Atom(x) && x.len() >= 0x400000000)
    ensures pending(a, st) == Seq::<u8>::empty()
{
    if st.len() > 0 { assert(op_fits(a, st[st.len() - 1])); }
}
pub proof fn lemma_app_len(a: Seq<u8>, b: Seq<u8>, c: Seq<u8>)
    ensures (a + b) + c == a + (b + c), (a + b).len() == a.len() + b.len()
{ assert((a + b) + c =~= a + (b + c)); }
}
fn main() {}
