#![feature(allocator_api)]
#![allow(unused_imports, dead_code, unused_variables, unused_mut, unused_parens)]
use vstd::prelude::*;
use vstd::arithmetic::power2::*;
use vstd::string::*;
use std::rc::Rc;
use std::borrow::Borrow;

verus! {
//@ include prelude/bigint.rs
//@ include spec/bytes.rs
//@ include prelude/misc.rs
//@ include prelude/bigint_bytes.rs
//@ include prelude/rc.rs
//@ include prelude/std.rs
//@ include units/inc/sexp_types.rs
broadcast use {num_bigint::of_int_bi, num_bigint::bi_of_int};
//@ include units/inc/binds.rs

// R44: payload types of BodyForm variants these functions never construct or inspect -> opaque stand-ins
#[verifier::external_body] pub struct LetFormKind { x: u8 }
#[verifier::external_body] pub struct LetData { x: u8 }
#[verifier::external_body] pub struct CompileForm { x: u8 }
#[verifier::external_body] pub struct LambdaData { x: u8 }
//@ extract enum BodyForm from src/compiler/comptypes.rs
//@ end

// SPEC: the value of a rebuilt-environment expression when every variable evaluates to what `rho` says:
// a variable is looked up, nil and other constants denote themselves, (c x y) is the pair of the values
// the cons operator is spelled by its opcode: a head given by name would be captured by a user function called c (finding F33)
pub open spec fn is_cons_op(b: BodyForm) -> bool { b matches BodyForm::Value(SExp::Atom(_, n)) && n@.len() == 1 && n@[0] == 4u8 }
pub open spec fn bf_value(e: BodyForm, rho: spec_fn(Seq<u8>) -> Option<Tree>) -> Option<Tree>
    decreases e
{
    match e {
        BodyForm::Value(SExp::Atom(_, n)) => rho(n@),
        BodyForm::Value(s) => Some(tree_of(true, s)),
        BodyForm::Call(_, v, None) => if v@.len() == 3 && is_cons_op(*v@[0]) {
            match (bf_value(*v@[1], rho), bf_value(*v@[2], rho)) { (Some(x), Some(y)) => Some(Tree::Pair(Box::new(x), Box::new(y))), _ => None }
        } else { None },
        _ => None,
    }
}
// what the property needs of the rebuilt environment: a pair pattern is rebuilt as (c left right), a leaf by itself,
// and an (@ name sub) capture by the captured name, which stands for the whole value at that position
pub open spec fn env_rel(args: SExp, e: BodyForm) -> bool
    decreases sheight(args)
{
    match args {
        SExp::Cons(_, a, b) => match at_capture(*a, *b) {
            Some((c, _)) => e matches BodyForm::Value(SExp::Atom(_, n)) && n@ == c,
            None => e matches BodyForm::Call(_, v, None) && v@.len() == 3 && is_cons_op(*v@[0]) && env_rel(*a, *v@[1]) && env_rel(*b, *v@[2]),
        },
        other => e matches BodyForm::Value(s) && s == other,
    }
}

//@ note cons_bodyform: builds the call (c left right)
//@ extract fn cons_bodyform from src/compiler/codegen.rs
//@ sig r
    ensures r matches BodyForm::Call(_, v, None) && v@.len() == 3 && is_cons_op(*v@[0]) && v@[1] == left && v@[2] == right
//@ end

//@ note create_let_env_expression: the expression handed to a hoisted let helper rebuilds the inline function's argument tree so that the helper, destructuring it with the same parameter pattern, binds every parameter (captures included) to the value the inline function received (lemma_rebuilt_env_binds_the_same)
//@ extract fn create_let_env_expression from src/compiler/codegen.rs
//@ canary capture_as_list @<if let Some((capture, _)) = is_at_capture(a.clone(), b.clone()) {>@ => @<if let (Some((capture, _)), false) = (is_at_capture(a.clone(), b.clone()), true) {>@
//@ sig r
    ensures env_rel(*args, r)
    decreases sheight(*args)
//@ end

// parameter patterns as the frontend produces them: leaves are names or nil, and no name occurs twice
pub open spec fn only_names(p: SExp) -> bool
    decreases sheight(p)
{
    match p {
        SExp::Cons(_, a, b) => match at_capture(*a, *b) {
            Some((c, sub)) => sheight(sub) < sheight(p) && only_names(sub),
            None => only_names(*a) && only_names(*b),
        },
        SExp::Atom(_, _) => true,
        SExp::Nil(_) => true,
        _ => false,
    }
}
pub open spec fn distinct_names(p: SExp) -> bool
    decreases sheight(p)
{
    match p {
        SExp::Cons(_, a, b) => match at_capture(*a, *b) {
            Some((c, sub)) => true,
            None => distinct_names(*a) && distinct_names(*b) && forall|n: Seq<u8>| !(mentions(*a, n) && mentions(*b, n)),
        },
        _ => true,
    }
}
pub open spec fn agrees(p: SExp, rho: spec_fn(Seq<u8>) -> Option<Tree>, v: Tree) -> bool {
    forall|n: Seq<u8>| mentions(p, n) ==> (#[trigger] binds(p, n, v)) is Some && rho(n) == binds(p, n, v)
}
pub open spec fn at_capture_r(a: &SExp, b: &SExp) -> Option<(Seq<u8>, SExp)> { at_capture(*a, *b) }
pub open spec fn env_rel_r(p: &SExp, e: &BodyForm) -> bool { env_rel(*p, *e) }
pub open spec fn bf_value_r(e: &BodyForm, rho: spec_fn(Seq<u8>) -> Option<Tree>) -> Option<Tree> { bf_value(*e, rho) }
pub open spec fn mentions_r(p: &SExp, n: Seq<u8>) -> bool { mentions(*p, n) }
pub open spec fn binds_r(p: &SExp, n: Seq<u8>, v: Tree) -> Option<Tree> { binds(*p, n, v) }

// C01: if the inline function received the argument tree v (rho = what its pattern binds each name to), the rebuilt
// environment has a value w, and the hoisted helper, destructuring w with the same pattern, binds every name to the same value
pub proof fn lemma_rebuilt_env_binds_the_same(p: &SExp, e: &BodyForm, rho: spec_fn(Seq<u8>) -> Option<Tree>, v: Tree)
    requires env_rel(*p, *e), only_names(*p), distinct_names(*p), agrees(*p, rho, v)
    ensures bf_value(*e, rho) matches Some(w) && forall|n: Seq<u8>| mentions(*p, n) ==> #[trigger] binds(*p, n, w) == binds(*p, n, v)
    decreases sheight(*p)
{
    broadcast use axiom_at_capture_smaller;
    match p {
        SExp::Cons(_, a, b) => {
            match at_capture_r(&**a, &**b) {
                Some((c, sub)) => {
                    assert(mentions(*p, c));
                    assert(binds(*p, c, v) == Some(v));
                    assert(bf_value(*e, rho) == Some(v));
                }
                None => {
                    match e {
                        BodyForm::Call(_, cv, None) => {
                            let ea = &*cv@[1]; let eb = &*cv@[2];
                            let (fa, ra) = match v { Tree::Pair(x, y) => (*x, *y), Tree::Atom(_) => (tnil(), tnil()) };
                            if v is Atom {
                                assert forall|n: Seq<u8>| !mentions(*p, n) by { if mentions(*p, n) { assert(binds(*p, n, v) is Some); } }
                            }
                            assert(agrees(**a, rho, fa)) by {
                                assert forall|n: Seq<u8>| mentions(**a, n) implies (#[trigger] binds(**a, n, fa)) is Some && rho(n) == binds(**a, n, fa) by { assert(mentions(*p, n)); assert(binds(*p, n, v) is Some); }
                            }
                            assert(agrees(**b, rho, ra)) by {
                                assert forall|n: Seq<u8>| mentions(**b, n) implies (#[trigger] binds(**b, n, ra)) is Some && rho(n) == binds(**b, n, ra) by { assert(mentions(*p, n)); assert(!mentions(**a, n)); assert(binds(*p, n, v) is Some); }
                            }
                            lemma_rebuilt_env_binds_the_same(&**a, ea, rho, fa);
                            lemma_rebuilt_env_binds_the_same(&**b, eb, rho, ra);
                            let wa = bf_value(*ea, rho)->Some_0; let wb = bf_value(*eb, rho)->Some_0;
                            let w = Tree::Pair(Box::new(wa), Box::new(wb));
                            assert(bf_value(*e, rho) == Some(w));
                            assert forall|n: Seq<u8>| mentions(*p, n) implies #[trigger] binds(*p, n, w) == binds(*p, n, v) by {
                                assert(binds(*p, n, v) is Some);
                                if mentions(**a, n) { assert(binds(**a, n, wa) == binds(**a, n, fa)); } else { assert(mentions(**b, n)); assert(binds(**b, n, wb) == binds(**b, n, ra)); }
                            }
                        }
                        _ => {}
                    }
                }
            }
        }
        SExp::Atom(_, n0) => { assert(mentions(*p, n0@)); assert(binds(*p, n0@, v) == Some(v)); assert(bf_value(*e, rho) == Some(v)); }
        SExp::Nil(_) => { assert(bf_value(*e, rho) == Some(tnil())); assert forall|n: Seq<u8>| !mentions(*p, n) by {} }
        _ => { assert(false); }
    }
}
}
fn main() {}
