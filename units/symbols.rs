#![feature(allocator_api)]
#![allow(unused_imports, dead_code, unused_variables, unused_mut, unused_parens)]
use vstd::prelude::*;
use vstd::arithmetic::power2::*;
use std::rc::Rc;
use std::borrow::Borrow;
use std::collections::HashMap;
use vstd::std_specs::hash::*;

verus! {
//@ include prelude/bigint.rs
//@ include spec/bytes.rs
//@ include prelude/misc.rs
//@ include prelude/clvmr.rs
//@ include prelude/bigint_bytes.rs
//@ include prelude/rc.rs
//@ include prelude/std.rs
//@ include units/inc/sexp_types.rs
//@ include prelude/allocator_tree.rs
//@ include prelude/sha.rs
//@ include units/inc/bytes.rs
broadcast use {num_bigint::of_int_bi, num_bigint::bi_of_int};

//@ extract fn bi_zero from src/classic/clvm/__type_compatibility__.rs
//@ sig r
    ensures bi(r) == 0
//@ end
//@ extract fn bi_one from src/classic/clvm/__type_compatibility__.rs
//@ sig r
    ensures bi(r) == 1
//@ end

// proved in unit `hash` (same contract text)
//@ extract fn sha256tree from src/compiler/clvm.rs
//@ stub
//@ sigfile r contracts/sha256tree_modern.sig
//@ end

// subtree of a rich value at CLVM path p (least significant bit first, top 1 bit stops)
pub open spec fn sexp_at(p: int, s: SExp) -> Option<SExp>
    decreases p when p >= 1
{
    if p <= 1 { Some(s) } else {
        match s {
            SExp::Cons(_, a, b) => if p % 2 == 0 { sexp_at(p / 2, *a) } else { sexp_at(p / 2, *b) },
            _ => None,
        }
    }
}
pub open spec fn found_at(p: int, root: SExp, hash: Seq<u8>) -> bool {
    p >= 1 && sexp_at(p, root) is Some && tree_hash(tree_of(int_mode(), sexp_at(p, root)->Some_0)) == hash
}

//@ note path_to_function_inner: a returned path is cur + mask * rel where rel >= 1 addresses, inside `program`, a subtree whose tree hash is the requested hash
//@ extract fn path_to_function_inner from src/compiler/compiler.rs
//@ canary forget_mask @<current_path.clone() + path_mask.clone(),>@ => @<current_path.clone(),>@
//@ replace-block R4
            path_to_function_inner(a.clone(), hash, nextpath.clone(), current_path.clone())
                .map(Some)
                .unwrap_or_else(|| {
                    path_to_function_inner(
                        b.clone(),
                        hash,
                        nextpath.clone(),
                        current_path.clone() + path_mask.clone(),
                    )
                    .map(Some)
                    .unwrap_or_else(|| {
                        let current_hash = sha256tree(program.clone());
                        if current_hash == hash {
                            Some(current_path + path_mask)
                        } else {
                            None
                        }
                    })
                })
//@ with
            match path_to_function_inner(a.clone(), hash, nextpath.clone(), current_path.clone()) { Some(x) => {
                proof {
                    let rel = choose|rel: int| found_at(rel, **a, hash@) && bi(x) == bi(current_path) + bi(nextpath) * rel;
                    assert(sexp_at(2 * rel, *program) == sexp_at(rel, **a));
                    assert(bi(nextpath) * rel == bi(path_mask) * (2 * rel)) by(nonlinear_arith) requires bi(nextpath) == bi(path_mask) * 2;
                    assert(found_at(2 * rel, *program, hash@));
                }
                Some(x) }, None => {
                    match path_to_function_inner(
                        b.clone(),
                        hash,
                        nextpath.clone(),
                        current_path.clone() + path_mask.clone(),
                    ) { Some(x) => {
                        proof {
                            let rel = choose|rel: int| found_at(rel, **b, hash@) && bi(x) == bi(current_path) + bi(path_mask) + bi(nextpath) * rel;
                            assert(sexp_at(2 * rel + 1, *program) == sexp_at(rel, **b));
                            assert(bi(path_mask) + bi(nextpath) * rel == bi(path_mask) * (2 * rel + 1)) by(nonlinear_arith) requires bi(nextpath) == bi(path_mask) * 2;
                            assert(found_at(2 * rel + 1, *program, hash@));
                        }
                        Some(x) }, None => {
                        let current_hash = sha256tree(program.clone());
                        if verif_vec_eq_slice(&current_hash, hash) {
                            proof { assert(found_at(1, *program, hash@)); assert(bi(path_mask) * 1 == bi(path_mask)); }
                            Some(current_path + path_mask)
                        } else {
                            None
                        }
                    } }
                } }
//@ replace R7 @<if current_hash == hash {>@ => @<if verif_vec_eq_slice(&current_hash, hash) {>@
//@ sig r
    ensures r matches Some(p) ==> exists|rel: int| found_at(rel, *program, hash@) && bi(p) == bi(current_path) + bi(path_mask) * rel
    decreases *program
//@ before stmt #1 @<Some(current_path + path_mask)>@
                proof { assert(found_at(1, *program, hash@)); assert(bi(path_mask) * 1 == bi(path_mask)); }
//@ end

//@ note path_to_function: a returned path addresses, in the emitted program, code whose tree hash is the symbol-table key
//@ extract fn path_to_function from src/compiler/compiler.rs
//@ sig r
    ensures r matches Some(p) ==> found_at(bi(p), *program, hash@)
//@ end

//@ extract fn op2 from src/compiler/compiler.rs
//@ sig r
    ensures tree_of(int_mode(), *r) == Tree::Pair(Box::new(Tree::Atom(u8n(op as int))),
        Box::new(Tree::Pair(Box::new(tree_of(int_mode(), *code)), Box::new(Tree::Pair(Box::new(tree_of(int_mode(), *env)), Box::new(tnil()))))))
        || (op == 0 && int_mode())
//@ before tail
    proof { reveal_with_fuel(tree_of, 5); }
//@ end
//@ extract fn quoted from src/compiler/compiler.rs
//@ sig r
    ensures tree_of(int_mode(), *r) == Tree::Pair(Box::new(Tree::Atom(u8n(1))), Box::new(tree_of(int_mode(), *env)))
//@ before tail
    proof { reveal_with_fuel(tree_of, 5); }
//@ end
//@ extract fn apply from src/compiler/compiler.rs
//@ sig r
    ensures tree_of(int_mode(), *r) == Tree::Pair(Box::new(Tree::Atom(u8n(2))),
        Box::new(Tree::Pair(Box::new(tree_of(int_mode(), *code)), Box::new(Tree::Pair(Box::new(tree_of(int_mode(), *env)), Box::new(tnil()))))))
//@ end
//@ extract fn cons from src/compiler/compiler.rs
//@ sig r
    ensures tree_of(int_mode(), *r) == Tree::Pair(Box::new(Tree::Atom(u8n(4))),
        Box::new(Tree::Pair(Box::new(tree_of(int_mode(), *f)), Box::new(Tree::Pair(Box::new(tree_of(int_mode(), *r_)), Box::new(tnil()))))))
//@ replace R22 @<fn cons(f: Rc<SExp>, r: Rc<SExp>)>@ => @<fn cons(f: Rc<SExp>, r_: Rc<SExp>)>@
//@ replace R22 @<op2(4, f, r)>@ => @<op2(4, f, r_)>@
//@ end

//@ note rewrite_in_program: the extraction expression is (a (a (q . path/2) env) (c env 1)) -- run the code found at `path` of the quoted program on the program's own environment
//@ extract fn rewrite_in_program from src/compiler/compiler.rs
//@ canary no_halving @<path / 2_i32.to_bigint().unwrap()>@ => @<path>@
//@ replace R23 @<path / 2>@ => @<path / 2_i32.to_bigint().unwrap()>@
//@ sig r
    requires bi(path) >= 2
    ensures ({
        let m = int_mode();
        let e = tree_of(m, *env);
        let q = Tree::Pair(Box::new(Tree::Atom(u8n(1))), Box::new(Tree::Atom(u8n(bi(path) / 2))));
        let inner = Tree::Pair(Box::new(Tree::Atom(u8n(2))), Box::new(Tree::Pair(Box::new(q), Box::new(Tree::Pair(Box::new(e), Box::new(tnil()))))));
        let c = Tree::Pair(Box::new(Tree::Atom(u8n(4))), Box::new(Tree::Pair(Box::new(e), Box::new(Tree::Pair(Box::new(Tree::Atom(u8n(1))), Box::new(tnil()))))));
        tree_of(m, *r) == Tree::Pair(Box::new(Tree::Atom(u8n(2))), Box::new(Tree::Pair(Box::new(inner), Box::new(Tree::Pair(Box::new(c), Box::new(tnil()))))))
    })
//@ end

// ---- add_defun: the symbol table records hash(code) -> name and hash(code)_arguments -> args for the code it stores
//@ extract struct DefunCall from src/compiler/comptypes.rs
//@ derives
//@ end
//@ extract struct PrimaryCodegen from src/compiler/comptypes.rs
//@ fields defuns function_symbols
//@ derives
//@ end
// hex / lossy-utf8 text of a byte string (hex::encode, String::from_utf8_lossy): abstract
pub uninterp spec fn hex_text(b: Seq<u8>) -> Seq<char>;
pub uninterp spec fn lossy_text(b: Seq<u8>) -> Seq<char>;
pub uninterp spec fn sexp_text(s: SExp) -> Seq<char>;
impl Bytes {
//@ extract fn hex from src/classic/clvm/__type_compatibility__.rs in impl Bytes
//@ stub
//@ sig r
    ensures r@ == hex_text(bv(*self))
//@ end
//@ extract fn decode from src/classic/clvm/__type_compatibility__.rs in impl Bytes
//@ stub
//@ sig r
    ensures r@ == lossy_text(bv(*self))
//@ end
}
#[verifier::external_body]
pub fn verif_suffix(s: &String, suffix: &str) -> (r: String) ensures r@ == s@ + suffix@ { unimplemented!() }
#[verifier::external_body]
pub fn verif_sexp_to_string(s: &Rc<SExp>) -> (r: String) ensures r@ == sexp_text(**s) { unimplemented!() }
#[verifier::external_body]
pub fn verif_to_owned(s: &[u8]) -> (r: Vec<u8>) ensures r@ == s@ { unimplemented!() }

impl PrimaryCodegen {
//@ note add_defun: after registering a function, the symbol table maps the hex tree hash of the STORED code to the function's name and that key + "_arguments" to the printed argument list, and the defuns table holds exactly that code under the name
//@ extract fn add_defun from src/compiler/comptypes.rs in impl PrimaryCodegen
//@ canary keep_first_name @<codegen_copy.function_symbols.insert(verif_hk, name);>@ => @<if !codegen_copy.function_symbols.contains_key(&verif_hk) { codegen_copy.function_symbols.insert(verif_hk, name); }>@
//@ replace R24 @<codegen_copy.defuns.insert(name.to_owned(), value.clone());>@ => @<let verif_dk = verif_to_owned(name); let ghost g_dk = verif_dk; let ghost name0 = name@; codegen_copy.defuns.insert(verif_dk, value.clone());>@
//@ replace R30 @<BytesFromType::Raw(name.to_owned())>@ => @<BytesFromType::Raw(verif_to_owned(name))>@
//@ replace R24 @<codegen_copy.function_symbols.insert(hash_str.clone(), name);>@ => @<let verif_hk = hash_str.clone(); let ghost g_hk = verif_hk; let ghost g_nm = name@; codegen_copy.function_symbols.insert(verif_hk, name);>@
//@ replace-block R24
            codegen_copy
                .function_symbols
                .insert(format!("{hash_str}_left_env"), "1".to_string());
//@ with
            let verif_lk = verif_suffix(&hash_str, "_left_env");
            proof { reveal_strlit("_left_env"); assert(verif_lk@.len() == hash_str@.len() + 9); }
            codegen_copy
                .function_symbols
                .insert(verif_lk, "1".to_string());
//@ replace-block R24
        codegen_copy
            .function_symbols
            .insert(format!("{hash_str}_arguments"), args.to_string());
//@ with
        let verif_ak = verif_suffix(&hash_str, "_arguments");
        let ghost g_ak = verif_ak;
        proof { reveal_strlit("_arguments"); assert(verif_ak@.len() == hash_str@.len() + 10); assert(g_hk@.len() == hash_str@.len()); }
        codegen_copy
            .function_symbols
            .insert(verif_ak, verif_sexp_to_string(&args));
        proof {
            assert(codegen_copy.function_symbols@.contains_key(g_hk) && codegen_copy.function_symbols@[g_hk]@ == g_nm);
            assert(codegen_copy.function_symbols@.contains_key(g_ak));
            assert(codegen_copy.defuns@.contains_key(g_dk));
        }
//@ sig r
    requires obeys_key_model::<Vec<u8>>(), obeys_key_model::<String>()
    ensures ({
        let key = hex_text(tree_hash(tree_of(int_mode(), *value.code)));
        &&& exists|k: String| #![trigger r.function_symbols@.contains_key(k)] k@ == key && r.function_symbols@.contains_key(k) && r.function_symbols@[k]@ == lossy_text(name@)
        &&& exists|k: String| #![trigger r.function_symbols@.contains_key(k)] k@ == key + "_arguments"@ && r.function_symbols@.contains_key(k) && r.function_symbols@[k]@ == sexp_text(*args)
        &&& exists|n: Vec<u8>| #![trigger r.defuns@.contains_key(n)] n@ == name@ && r.defuns@.contains_key(n) && r.defuns@[n].code == value.code
    })
//@ end
}
}
fn main() {}
