#![feature(allocator_api)]
#![allow(unused_imports, dead_code, unused_variables, unused_mut, unused_parens)]
use vstd::prelude::*;
use vstd::std_specs::hash::*;
use std::rc::Rc;
use std::collections::HashMap;

verus! {
//@ include prelude/misc.rs
//@ include prelude/rc.rs
//@ extract struct Until from src/compiler/srcloc.rs
//@ derives
//@ end
//@ extract struct Srcloc from src/compiler/srcloc.rs
//@ derives
//@ end
//@ extract struct CompileErr from src/compiler/comptypes.rs
//@ end

//@ note fail_if_present (the duplicate-definition guard of the code generator): an error is returned exactly when the name is already a key of the table; otherwise the given result passes through unchanged
//@ extract fn fail_if_present from src/compiler/codegen.rs
//@ canary inverted @<if map.contains_key(name) {>@ => @<if !map.contains_key(name) {>@
//@ replace R1 @<format!("Cannot redefine {}", SExp::Atom(loc, name.to_owned()))>@ => @<verif_opaque_string()>@
//@ sig r
    requires obeys_key_model::<Vec<u8>>()
    ensures
        contains_borrowed_key(map@, name) <==> r is Err,
        r matches Ok(v) ==> v == result,
//@ end
}
fn main() {}
