#![feature(allocator_api)]
#![allow(unused_imports, dead_code, unused_variables, unused_mut, unused_parens)]
use vstd::prelude::*;
use std::rc::Rc;

verus! {
global size_of usize == 8;
//@ include prelude/misc.rs
//@ include prelude/std.rs
//@ include units/inc/bytes.rs
//@ include units/inc/stream.rs
//@ extract struct SyntaxErr from src/classic/clvm/syntax_error.rs
//@ end
impl SyntaxErr {
//@ extract fn new from src/classic/clvm/syntax_error.rs in impl SyntaxErr
//@ end
}
//@ extract enum IRRepr from src/classic/clvm_tools/ir/type.rs
//@ end
//@ extract struct IRReader from src/classic/clvm_tools/ir/reader.rs
//@ end
pub closed spec fn rd_stream(r: IRReader) -> Stream { r.stream }
pub open spec fn rd_rest(r: IRReader) -> Seq<u8> { stream_rest(rd_stream(r)) }

impl Stream {
// proved in unit `ser` (same contract text)
//@ extract fn read from src/classic/clvm/__type_compatibility__.rs in impl Stream
//@ stub
//@ sigfile r contracts/stream_read.sig
//@ end
// proved in unit `safety`
//@ extract fn get_seek from src/classic/clvm/__type_compatibility__.rs in impl Stream
//@ stub
//@ sig r
    ensures r == stream_seek(*self)
//@ end
}
impl IRReader {
//@ extract fn read from src/classic/clvm_tools/ir/reader.rs in impl IRReader
//@ sigfile r contracts/irreader_read.sig
//@ end
}

// SPEC (C09): what any printer writes between the quotes for the string s when it puts a backslash in front of every byte of the
// set esc (the classic writer: the quote and the backslash; the modern printer: the byte of the constant's own quote kind)
pub open spec fn escaped(s: Seq<u8>, esc: Set<u8>) -> Seq<u8>
    decreases s.len()
{
    if s.len() == 0 { Seq::<u8>::empty() } else {
        (if esc.contains(s[0]) { seq![0x5cu8, s[0]] } else { seq![s[0]] }) + escaped(s.subrange(1, s.len() as int), esc)
    }
}
//@ include units/inc/scan.rs
// the round trip the property states: whatever is escaped (as long as every quote and backslash inside the string is), the scan
// of  escaped(s) q tail  returns s and stops right after the closing quote
pub proof fn lemma_scan_reads_back(s: Seq<u8>, esc: Set<u8>, q: u8, tail: Seq<u8>)
    requires q != 0x5cu8, forall|i: int| 0 <= i < s.len() && (s[i] == q || s[i] == 0x5cu8) ==> esc.contains(#[trigger] s[i])
    ensures scan(escaped(s, esc) + seq![q] + tail, q, false) == Some((s, escaped(s, esc).len() as int + 1))
    decreases s.len()
{
    let text = escaped(s, esc) + seq![q] + tail;
    if s.len() == 0 {
        assert(escaped(s, esc) =~= Seq::<u8>::empty());
        assert(text.len() > 0 && text[0] == q);
        assert(s =~= Seq::<u8>::empty());
        assert(escaped(s, esc).len() == 0);
    } else {
        let c = s[0];
        let s1 = s.subrange(1, s.len() as int);
        assert forall|i: int| 0 <= i < s1.len() && (s1[i] == q || s1[i] == 0x5cu8) implies esc.contains(#[trigger] s1[i]) by { assert(s1[i] == s[i + 1]); }
        lemma_scan_reads_back(s1, esc, q, tail);
        let rest1 = escaped(s1, esc) + seq![q] + tail;
        if esc.contains(c) {
            assert(escaped(s, esc) =~= seq![0x5cu8, c] + escaped(s1, esc));
            assert(text =~= seq![0x5cu8, c] + rest1);
            assert(text[0] == 0x5cu8);
            let t1 = text.subrange(1, text.len() as int);
            assert(t1 =~= seq![c] + rest1);
            assert(t1.subrange(1, t1.len() as int) =~= rest1);
            assert(scan(t1, q, true) == Some((seq![c] + s1, escaped(s1, esc).len() as int + 1 + 1)));
            assert(seq![c] + s1 =~= s);
        } else {
            assert(c != q && c != 0x5cu8);
            assert(escaped(s, esc) =~= seq![c] + escaped(s1, esc));
            assert(text =~= seq![c] + rest1);
            assert(text.subrange(1, text.len() as int) =~= rest1);
            assert(seq![c] + s1 =~= s);
        }
    }
}

pub proof fn lemma_seq_assoc(acc: Seq<u8>, c: u8)
    ensures forall|t: Seq<u8>| #[trigger] ((acc + seq![c]) + t) == acc + (seq![c] + t)
{
    assert forall|t: Seq<u8>| #[trigger] ((acc + seq![c]) + t) == acc + (seq![c] + t) by { assert((acc + seq![c]) + t =~= acc + (seq![c] + t)); }
}
// R4: qchars.iter().skip(1).copied().collect() -> the vector without its first element
#[verifier::external_body]
pub fn verif_skip1(v: &Vec<u8>) -> (r: Vec<u8>)
    requires v@.len() >= 1
    ensures r@ == v@.subrange(1, v@.len() as int)
{ unimplemented!() }

//@ note consume_quoted (classic assembler's string reader): returns exactly what scan says of the bytes after the opening quote and leaves the stream right after the closing quote; with lemma_scan_reads_back: any text a printer wrote by escaping (at least) the quotes and backslashes of s reads back as s
//@ extract fn consume_quoted from src/classic/clvm_tools/ir/reader.rs
//@ canary keep_backslash @<bs = true;>@ => @<bs = true; qchars.push(b.at(0));>@
//@ replace-block R1
            return Err(SyntaxErr::new(format!(
                "unterminated string starting at {}: {}",
                starting_at,
                Bytes::new(Some(BytesFromType::Raw(qchars))).decode()
            )));
//@ with
            return Err(SyntaxErr::new(verif_opaque_string()));
//@ replace R4 @<qchars = qchars.iter().skip(1).copied().collect();>@ => @<qchars = verif_skip1(&qchars);>@
//@ sigfile r contracts/consume_quoted.sig
//@ before stmt @<let mut bs = false;>@
    let ghost rest0 = rd_rest(*s);
    let ghost st0 = rd_stream(*s);
    let ghost mut consumed: int = 0;
//@ loop 0
        invariant_except_break
            scan(rest0, q, false) == (match scan(rd_rest(*s), q, bs) { Some((t, n)) => Some((qchars@.subrange(1, qchars@.len() as int) + t, consumed + n)), None => None }),
        invariant
            st0 == rd_stream(*old(s)), rest0 == rd_rest(*old(s)),
            stream_wf(rd_stream(*s)), stream_same_data(st0, rd_stream(*s)),
            0 <= consumed <= rest0.len(), rd_rest(*s) == rest0.subrange(consumed, rest0.len() as int),
            stream_seek(rd_stream(*s)) + rd_rest(*s).len() < usize::MAX,
            stream_seek(rd_stream(*s)) + rd_rest(*s).len() == stream_seek(st0) + rest0.len(),
            qchars@.len() >= 1,
        ensures
            stream_wf(rd_stream(*s)), stream_same_data(st0, rd_stream(*s)), qchars@.len() >= 1, 0 <= consumed <= rest0.len(),
            stream_seek(rd_stream(*s)) + rd_rest(*s).len() == stream_seek(st0) + rest0.len(),
            scan(rest0, q, false) == Some((qchars@.subrange(1, qchars@.len() as int), consumed)),
            rd_rest(*s) == rest0.subrange(consumed, rest0.len() as int),
        decreases rest0.len() - consumed
//@ before stmt @<let b = s.read(1);>@
        let ghost rest_here = rd_rest(*s);
        let ghost acc = qchars@.subrange(1, qchars@.len() as int);
//@ before stmt @<if b.length() == 0 {>@
        proof { if bv(b).len() == 0 { assert(rest_here.len() == 0); } }
//@ before stmt @<break;>@
            proof { assert(acc + Seq::<u8>::empty() =~= acc); }
//@ before stmt @<if bs {>@
        proof {
            assert(rest_here.len() > 0);
            assert(bv(b) =~= rest_here.subrange(0, 1));
            assert(bv(b)[0] == rest_here[0]);
            assert(rd_rest(*s) =~= rest0.subrange(consumed + 1, rest0.len() as int));
            consumed = consumed + 1;
        }
//@ after stmt #0 @<qchars.push(b.at(0));>@
            proof { assert(qchars@.subrange(1, qchars@.len() as int) =~= acc + seq![rest_here[0]]); lemma_seq_assoc(acc, rest_here[0]); }
//@ after stmt #1 @<qchars.push(b.at(0));>@
            proof { assert(qchars@.subrange(1, qchars@.len() as int) =~= acc + seq![rest_here[0]]); lemma_seq_assoc(acc, rest_here[0]); }
//@ end
}
fn main() {}
