#![feature(allocator_api)]
#![allow(unused_imports, dead_code, unused_variables, unused_mut, unused_parens)]
use vstd::prelude::*;
use vstd::arithmetic::power2::*;
use std::rc::Rc;
use std::borrow::Borrow;

verus! {
//@ include spec/bytes.rs
//@ include prelude/misc.rs
//@ include prelude/clvmr.rs
//@ include prelude/rc.rs
//@ include prelude/std.rs
//@ include units/inc/bytes.rs
//@ include spec/treedef.rs
//@ include prelude/allocator_tree.rs
use allocator::SExp;

//@ extract enum IRRepr from src/classic/clvm_tools/ir/type.rs
//@ end
// R25: keyword tables (Record<Vec<u8>, String> / HashMap<String, Vec<u8>>) -> abstract lookups; the tables themselves are C20's subject
#[verifier::external_body]
pub struct Record { x: u8 }
pub uninterp spec fn rec_get(r: Record, k: Seq<u8>) -> Option<Seq<char>>;
// the assembler's table: keyword name -> opcode, latest operator set
pub uninterp spec fn kw_to(name: Seq<char>) -> Option<Seq<u8>>;
// the text after a leading '#', or the text itself
pub uninterp spec fn strip_hash(s: Seq<char>) -> Seq<char>;
#[verifier::external_body]
pub fn verif_strip_hash(s: &String) -> (r: String) ensures r@ == strip_hash(s@) { unimplemented!() }
#[verifier::external_body]
pub fn verif_kw_to_latest(name: &String) -> (r: Option<Vec<u8>>)
    ensures match kw_to(name@) { Some(v) => r matches Some(x) && x@ == v, None => r is None }
{ unimplemented!() }
// what C20's unit `tables` establishes on the tables as data (opcode -> name of every version is injective, name -> opcode of the latest
// version contains every older row, no keyword starts with '#'), stated for the disassembler's table: every name it can print is read back
// by the assembler as the opcode it was printed for
pub open spec fn table_reads_back(kw: Record) -> bool {
    forall|k: Seq<u8>| (#[trigger] rec_get(kw, k)) matches Some(n) ==> strip_hash(n) == n && kw_to(n) == Some(k)
}

// SPEC: the CLVM value an IR term is assembled to
pub open spec fn ir_tree(ir: IRRepr) -> Tree
    decreases ir
{
    match ir {
        IRRepr::Null => tnil(),
        IRRepr::Quotes(b) => Tree::Atom(bv(b)),
        IRRepr::Int(b, _) => Tree::Atom(bv(b)),
        IRRepr::Hex(b) => Tree::Atom(bv(b)),
        IRRepr::Symbol(s) => (match kw_to(strip_hash(s@)) { Some(v) => Tree::Atom(v), None => Tree::Atom(string_bytes(strip_hash(s@))) }),
        IRRepr::Cons(l, r) => Tree::Pair(Box::new(ir_tree(*l)), Box::new(ir_tree(*r))),
    }
}
pub open spec fn ir_tree_r(ir: &IRRepr) -> Tree { ir_tree(*ir) }

//@ note assemble_from_ir: the node it allocates denotes ir_tree(term)
//@ extract fn assemble_from_ir from src/classic/clvm_tools/binutils.rs
//@ canary swapped_children @<allocator.new_pair(l, r) }, Err(verif_e) => Err(verif_e) } } Err(verif_e) => Err(verif_e) } },>@ => @<allocator.new_pair(r, l) }, Err(verif_e) => Err(verif_e) } } Err(verif_e) => Err(verif_e) } },>@
//@ replace-span R25 @<let mut s_real_name = s.clone();>@ @<match keyword_to_atom(OPERATORS_LATEST_VERSION).get(&s_real_name) {>@ => @<let s_real_name = verif_strip_hash(s); match verif_kw_to_latest(&s_real_name) {>@
//@ replace R25 @<Some(v) => allocator.new_atom(v),>@ => @<Some(v) => allocator.new_atom(&v),>@
//@ replace-span R4 @<IRRepr::Cons(l, r) => assemble_from_ir(allocator, l.clone()).and_then(|l| {>@ @<}),>@ => @<IRRepr::Cons(l, r) => { let ghost verif_a0 = *allocator; match assemble_from_ir(allocator, l.clone()) { Ok(l) => { let ghost verif_a1 = *allocator; match assemble_from_ir(allocator, r.clone()) { Ok(r) => { proof { assert(node_tree(*allocator, l) == node_tree(verif_a1, l)); } allocator.new_pair(l, r) }, Err(verif_e) => Err(verif_e) } } Err(verif_e) => Err(verif_e) } },>@
//@ sig res
    ensures alloc_ext(*old(allocator), *final(allocator)),
        res matches Ok(n) ==> node_tree(*final(allocator), n) == Some(ir_tree(*ir_sexp)),
    decreases *ir_sexp
//@ before stmt @<match ir_sexp.borrow() {>@
    proof { axiom_nil_node(*allocator); }
//@ end

//@ extract fn ir_for_atom from src/classic/clvm_tools/binutils.rs
//@ stub
//@ replace R25 @<keyword_from_atom: &Record<Vec<u8>, String>,>@ => @<keyword_from_atom: &Record,>@
//@ sigfile r contracts/ir_for_atom.sig
//@ end

//@ note disassemble_to_ir_with_kw (C09, term level): the IR term printed for a node assembles back to exactly that node's value, for every keyword table whose names the assembler reads back (C20) -- names only ever come from that table, every other atom carries its bytes
//@ extract fn disassemble_to_ir_with_kw from src/classic/clvm_tools/binutils.rs
//@ replace R25 @<keyword_from_atom: &Record<Vec<u8>, String>,>@ => @<keyword_from_atom: &Record,>@
//@ sig r
    requires node_tree(*allocator, sexp) is Some, table_reads_back(*keyword_from_atom)
    ensures ir_tree(r) == node_tree(*allocator, sexp)->Some_0
    decreases node_tree(*allocator, sexp)->Some_0
//@ before stmt @<let v0 = disassemble_to_ir_with_kw(>@
            proof {
                let t = node_tree(*allocator, sexp)->Some_0;
                assert(*t->Pair_0 == node_tree(*allocator, l)->Some_0);
                assert(*t->Pair_1 == node_tree(*allocator, r)->Some_0);
                assert(decreases_to!(t => *t->Pair_0));
                assert(decreases_to!(t => *t->Pair_1));
            }
//@ after stmt @<let bytes = Bytes::new(>@
            proof { if bv(bytes).len() == 0 { assert(bv(bytes) =~= Seq::<u8>::empty()); } }
//@ end

}
fn main() {}
