#![feature(allocator_api)]
#![allow(unused_imports, dead_code, unused_variables, unused_mut, unused_parens)]
use vstd::prelude::*;
use vstd::arithmetic::power2::*;
use std::rc::Rc;
use std::borrow::Borrow;

verus! {
//@ include prelude/bigint.rs
//@ include spec/bytes.rs
//@ include prelude/misc.rs
//@ include prelude/bigint_bytes.rs
//@ include prelude/rc.rs
//@ include prelude/std.rs
//@ include units/inc/sexp_types.rs
broadcast use {num_bigint::of_int_bi, num_bigint::bi_of_int};

//@ extract const FAVOR_HEX from src/compiler/cldb.rs
//@ end
// R6: Rc::as_ptr(a) == Rc::as_ptr(b) sharing shortcut: pointer equality implies value equality
#[verifier::external_body]
pub fn verif_ptr_eq(a: &Rc<SExp>, b: &Rc<SExp>) -> (r: bool) ensures r ==> **a == **b { unimplemented!() }
// bytes_of_int.iter().all(|b| *b >= 32 && *b < 127): only chooses between two spellings of the same bytes
#[verifier::external_body]
pub fn verif_all_printable(v: &Vec<u8>) -> bool { unimplemented!() }

//@ note improve_presentation / humanize (what the debugger shows for values and the final result): the presented value is the same CLVM value, only spelled differently
//@ extract fn improve_presentation from src/compiler/cldb.rs
//@ canary wrong_bytes @<Rc::new(SExp::QuotedString(l.clone(), b'x', av.clone()))>@ => @<Rc::new(SExp::QuotedString(l.clone(), b'x', Vec::new()))>@
//@ replace R6 @<Rc::as_ptr(&new_l) == Rc::as_ptr(l) && Rc::as_ptr(&new_r) == Rc::as_ptr(r)>@ => @<verif_ptr_eq(&new_l, l) && verif_ptr_eq(&new_r, r)>@
//@ sig r
    ensures tree_of(int_mode(), *r) == tree_of(int_mode(), *a)
    decreases *a
//@ end

//@ extract fn humanize from src/compiler/cldb.rs
//@ replace R26 @<bytes_of_int.iter().all(|b| *b >= 32 && *b < 127)>@ => @<verif_all_printable(&bytes_of_int)>@
//@ sig r
    ensures tree_of(int_mode(), *r) == tree_of(int_mode(), *a)
    decreases *a
//@ end
}
fn main() {}
