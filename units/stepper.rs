#![feature(allocator_api)]
#![allow(unused_imports, dead_code, unused_variables, unused_mut, unused_parens)]
use vstd::prelude::*;
use vstd::arithmetic::power2::*;
use std::rc::Rc;
use std::borrow::Borrow;

verus! {
//@ include prelude/bigint.rs
//@ include spec/paths.rs
//@ include spec/bytes.rs
//@ include prelude/misc.rs
//@ include prelude/bigint_bytes.rs
//@ include prelude/rc.rs
//@ include prelude/std.rs
//@ include units/inc/sexp_types.rs
//@ include spec/eval.rs
broadcast use {num_bigint::of_int_bi, num_bigint::bi_of_int};

// ---- C06: one step of the stepping evaluator preserves the value the machine state denotes.
// A machine state (RunStep with its chain of parents) denotes a final value: what the step in flight yields
// (yields), handed to the pending operator applications above it (resume).  Evaluation itself is the shared
// compositional spec (spec/eval.rs: eval / eval_list / op_apply with the consensus axioms).
pub open spec fn tv(s: SExp) -> Tree { tree_of(int_mode(), s) }
pub open spec fn tvr(s: &SExp) -> Tree { tv(*s) }

//@ extract enum RunStep from src/compiler/clvm.rs
//@ derives
//@ end

// consensus: an operand list that ends in anything but nil is an evaluation failure ("bad operand list");
// a failing operand is the value None (ASSUMED axiom about the CLVM evaluator, as the others in spec/eval.rs)
pub broadcast axiom fn axiom_improper_list_end(a: Seq<u8>)
    requires a.len() > 0
    ensures #[trigger] list_end(a) == seq![None::<Tree>];

// operand values an Op state already holds in its tail (newest first), ending in the list's own terminator
pub open spec fn held(tail: SExp) -> Seq<Option<Tree>>
    decreases tail
{
    match tail {
        SExp::Cons(_, a, b) => seq![Some(tv(*a))] + held(*b),
        _ => match tv(tail) { Tree::Atom(x) => list_end(x), _ => Seq::<Option<Tree>>::empty() },
    }
}
// operands still to evaluate, in source order (the last one is evaluated next)
pub open spec fn pend(rest: Seq<Rc<SExp>>, env: Tree) -> Seq<Option<Tree>> {
    Seq::new(rest.len(), |i: int| eval(tv(*rest[i]), env))
}
pub open spec fn yields(s: RunStep) -> Option<Tree> {
    match s {
        RunStep::Done(_, x) => Some(tv(*x)),
        RunStep::OpResult(_, x, _) => Some(tv(*x)),
        RunStep::Step(e, c, _) => eval(tv(*e), tv(*c)),
        RunStep::Op(h, c, tail, Some(rest), _) => op_apply(tv(*h), pend(rest@, tv(*c)) + held(*tail)),
        RunStep::Op(h, c, tail, None, _) => op_apply(tv(*h), held(*tail)),
    }
}
// a value handed back to a waiting state
pub open spec fn resume(p: RunStep, v: Option<Tree>) -> Option<Tree>
    decreases p
{
    match v {
        None => None,
        Some(t) => match p {
            RunStep::Done(_, _) => v,
            RunStep::OpResult(_, _, _) => v,
            RunStep::Op(h, c, tail, Some(rest), pp) => resume(*pp, op_apply(tv(*h), pend(rest@, tv(*c)) + seq![v] + held(*tail))),
            RunStep::Op(_, _, _, None, pp) => resume(*pp, v),
            RunStep::Step(_, _, pp) => resume(*pp, v),
        },
    }
}
pub open spec fn final_of(s: RunStep) -> Option<Tree> {
    match s {
        RunStep::Done(_, _) => yields(s),
        RunStep::OpResult(_, _, p) => resume(*p, yields(s)),
        RunStep::Op(_, _, _, _, p) => resume(*p, yields(s)),
        RunStep::Step(_, _, p) => resume(*p, yields(s)),
    }
}
pub open spec fn held_r(s: &SExp) -> Seq<Option<Tree>> { held(*s) }
pub open spec fn final_r(s: &RunStep) -> Option<Tree> { final_of(*s) }
pub open spec fn yields_r(s: &RunStep) -> Option<Tree> { yields(*s) }
pub open spec fn resume_r(p: &RunStep, v: Option<Tree>) -> Option<Tree> { resume(*p, v) }

//@ note combine: a finished value handed to the waiting state b denotes resume(b, value)
//@ extract fn combine from src/compiler/clvm.rs
//@ canary value_dropped @<Rc::new(SExp::Cons(l.clone(), x.clone(), args.clone())),>@ => @<args.clone(),>@
//@ sig r
    ensures
        *a is Done ==> final_of(r) == resume(*b, yields(*a)),
        !(*a is Done) ==> r == *a,
    decreases *b
//@ replace R3 @<Some(remain.clone()),>@ => @<Some(verif_remain),>@
//@ before stmt @<RunStep::Op(>@
            let verif_remain = remain.clone();
            proof {
                lemma_rcvec_clone(remain@, verif_remain@);
                let v = Some(tvr(&**x));
                let hd = held_r(&**args);
                let pn = pend(remain@, tvr(&**context));
                assert(pn + (seq![v] + hd) =~= pn + seq![v] + hd);
            }
//@ end

pub open spec fn ssize(s: SExp) -> nat
    decreases s
{
    match s { SExp::Cons(_, a, b) => 1 + ssize(*a) + ssize(*b), _ => 1 }
}
pub open spec fn ssize_r(s: &SExp) -> nat { ssize(*s) }
pub open spec fn eval_list_r(s: &SExp, c: &SExp) -> Seq<Option<Tree>> { eval_list(tv(*s), tv(*c)) }
pub struct VerifUnused { pub x: u8 }
#[verifier::external_body]
pub struct VerifPrimMap { x: u8 }
// proved in unit `clvmleaves` (same contract text)
//@ extract fn truthy from src/compiler/clvm.rs
//@ stub
//@ sigfile r contracts/clvm_truthy.sig
//@ end

//@ note eval_args: the Op state it builds yields the operator applied to the VALUES of the operand expressions (eval_list), and an operand list that does not end in nil is the failure it is for the consensus evaluator
//@ extract fn eval_args from src/compiler/clvm.rs
//@ canary any_terminator @<} else if !truthy(sexp.clone()) {>@ => @<} else if true {>@
//@ replace R42 @<_allocator: &mut Allocator,>@ => @<_allocator: &mut VerifUnused,>@
//@ replace R42 @<_runner: Rc<dyn TRunProgram>,>@ => @<_runner: Rc<VerifUnused>,>@
//@ replace R52 @<_prim_map: Rc<HashMap<Vec<u8>, Rc<SExp>>>,>@ => @<_prim_map: Rc<VerifPrimMap>,>@
//@ replace R1 @<format!("bad argument list {sexp_} {context_}"),>@ => @<verif_opaque_string(),>@
//@ sig r
    requires int_mode()
    ensures
        r matches Ok(s) ==> (s matches RunStep::Op(h, c, _, _, p) && h == head && c == context_ && p == parent)
            && yields(s) == op_apply(tv(*head), eval_list(tv(*sexp_), tv(*context_))),
        r is Err ==> op_apply(tv(*head), eval_list(tv(*sexp_), tv(*context_))) is None,
//@ loop 0
        invariant
            int_mode(),
            eval_list_r(&*sexp_, &*context_) == pend(eval_list@, tvr(&*context_)) + eval_list_r(&*sexp, &*context_),
        decreases ssize_r(&*sexp)
//@ before stmt @<eval_list.push(a.clone());>@
            let ghost verif_before = eval_list@;
            let ghost verif_sexp0 = sexp;
//@ after stmt @<sexp = b.clone();>@
            proof {
                let env = tvr(&*context_);
                assert(eval_list@ == verif_before.push(*a));
                assert(pend(eval_list@, env) =~= pend(verif_before, env) + seq![eval(tvr(&**a), env)]);
                assert(eval_list_r(&*verif_sexp0, &*context_) == seq![eval(tvr(&**a), env)] + eval_list_r(&**b, &*context_));
                assert(pend(verif_before, env) + (seq![eval(tvr(&**a), env)] + eval_list_r(&**b, &*context_)) =~= pend(eval_list@, env) + eval_list_r(&**b, &*context_));
            }
//@ before stmt @<return Ok(RunStep::Op(head, context_, sexp, Some(eval_list), parent));>@
            proof {
                broadcast use axiom_proper_list_end;
                assert(tvr(&*sexp) == tnil());
                assert(held_r(&*sexp) == eval_list_r(&*sexp, &*context_));
            }
//@ before stmt @<return Err(RunFailure::RunErr(>@
            proof {
                broadcast use {axiom_improper_list_end, axiom_operands_strict};
                let env = tvr(&*context_);
                let tl = eval_list_r(&*sexp, &*context_);
                let all = eval_list_r(&*sexp_, &*context_);
                match tvr(&*sexp) { Tree::Atom(x) => { if x.len() == 0 { assert(x =~= Seq::<u8>::empty()); } } Tree::Pair(_, _) => {} }
                assert(tl == seq![None::<Tree>]);
                let k = pend(eval_list@, env).len() as int;
                assert(all[k] is None);
            }
//@ end

//@ include units/inc/sproper.rs
impl SExp {
// proved in unit `sexpeq` (same contract text)
//@ extract fn nilp from src/compiler/sexp.rs in impl SExp
//@ stub
//@ sigfile r contracts/sexp_nilp.sig
//@ end
//@ note proper_list: the elements of a list that ends in the CLVM value nil, None for anything else (the contract units brief / dblapply assume)
//@ extract fn proper_list from src/compiler/sexp.rs in impl SExp
//@ sigfile r contracts/sexp_proper_list.sig
//@ loop 0
            invariant
                sproper(*self) == (match sproper_r(&*track) { Some(x) => Some(res@ + x), None => None }),
            decreases ssize_r(&*track)
//@ before stmt @<return Some(res);>@
                proof { assert(res@ + Seq::<SExp>::empty() =~= res@); }
//@ before stmt @<res.push(cloned);>@
                        let ghost verif_res0 = res@;
//@ after stmt @<track = r.clone();>@
                        proof {
                            match sproper_r(&**r) { Some(x) => { assert(verif_res0 + (seq![**l] + x) =~= res@ + x); } None => {} }
                        }
//@ end
//@ extract fn with_loc from src/compiler/sexp.rs in impl SExp
//@ sig r
    ensures match *self {
        SExp::Nil(_) => r == SExp::Nil(loc),
        SExp::Cons(_, a, b) => r == SExp::Cons(loc, a, b),
        SExp::Integer(_, i) => r matches SExp::Integer(l2, i2) && l2 == loc && bi(i2) == bi(i),
        SExp::QuotedString(_, q, s) => r matches SExp::QuotedString(l2, q2, s2) && l2 == loc && q2 == q && s2@ == s@,
        SExp::Atom(_, a) => r matches SExp::Atom(l2, a2) && l2 == loc && a2@ == a@,
    },
    tree_of(int_mode(), r) == tree_of(int_mode(), *self),
//@ end
}

// ---- lemmas about the value of atoms as programs and of operand lists
pub proof fn lemma_unsigned_of_positive(n: int)
    requires n > 0
    ensures be_unsigned(u8n(n)) == n
{
    broadcast use axiom_signed_bytes;
    let s = signed_bytes(n);
    assert(be_signed(s) == n);
    lemma_be_bounds(s);
}
pub proof fn lemma_small_atom(i: int, k: u8)
    requires 1 <= k <= 0x7f
    ensures (u8n(i) == seq![k]) == (i == k as int)
{
    lemma_be_single(k);
    assert(be_signed(seq![k]) == k as int);
    axiom_signed_unique(seq![k]);
    if i != 0 { axiom_signed_bytes(i); }
    if u8n(i) == seq![k] { if i == 0 { assert(u8n(0)[0] == 0u8); } else { assert(be_signed(signed_bytes(i)) == i); } }
}
// the operator a number in head position denotes
pub proof fn lemma_integer_head(s: &SExp, k: u8)
    requires int_mode(), *s is Integer, 1 <= k <= 0x7f
    ensures *s matches SExp::Integer(_, i) && ((tv(*s) == Tree::Atom(seq![k])) == (bi(i) == k as int))
{
    match *s {
        SExp::Integer(_, i) => {
            lemma_small_atom(bi(i), k);
            if bi(i) == 0 { assert(tv(*s) == tnil()); assert(tnil() != Tree::Atom(seq![k])) by { assert(seq![k].len() == 1); } }
        }
        _ => {}
    }
}
pub proof fn lemma_eval_integer(s: &SExp, env: Tree)
    requires int_mode(), *s is Integer
    ensures *s matches SExp::Integer(_, i) && eval(tv(*s), env) == tree_path(be_unsigned(u8n(bi(i))), env)
{
    broadcast use axiom_path_lookup;
    match *s {
        SExp::Integer(_, i) => {
            if bi(i) == 0 {
                lemma_be_single(0u8);
                assert(u8n(0) =~= seq![0u8]);
                assert(be_unsigned(Seq::<u8>::empty()) == 0);
                assert(tv(*s) == tnil());
                assert(eval(tnil(), env) == path_lookup(Seq::<u8>::empty(), env));
            } else {
                assert(eval(tv(*s), env) == path_lookup(u8n(bi(i)), env));
            }
        }
        _ => {}
    }
}
// an atom as a program is the path it spells unsigned; so is the Integer run_step replaces it by
pub proof fn lemma_eval_atom_as_integer(v: Seq<u8>, s: &SExp, env: Tree)
    requires int_mode(), *s matches SExp::Integer(_, i) && bi(i) == be_unsigned(v)
    ensures eval(Tree::Atom(v), env) == eval(tv(*s), env)
{
    broadcast use axiom_path_lookup;
    lemma_eval_integer(s, env);
    lemma_be_bounds(v);
    let n = be_unsigned(v);
    if n > 0 { lemma_unsigned_of_positive(n); } else { lemma_be_single(0u8); assert(u8n(0) =~= seq![0u8]); }
}
pub open spec fn vals_of(x: Seq<SExp>) -> Seq<Option<Tree>> { Seq::new(x.len(), |i: int| Some(tv(x[i]))) }
pub proof fn lemma_held_of_list(tail: &SExp)
    requires int_mode()
    ensures
        sproper(*tail) matches Some(x) ==> held(*tail) == vals_of(x) && x.len() < ssize(*tail),
        sproper(*tail) is None ==> held(*tail).len() > 0 && held(*tail).last() is None,
    decreases *tail
{
    broadcast use {axiom_proper_list_end, axiom_improper_list_end};
    if tv(*tail) == tnil() {
        assert(!(*tail is Cons));
        assert(held(*tail) =~= vals_of(Seq::<SExp>::empty()));
    } else {
        match *tail {
            SExp::Cons(_, h, r) => {
                lemma_held_of_list(&*r);
                match sproper_r(&*r) {
                    Some(x) => { assert(held_r(tail) =~= vals_of(seq![*h] + x)); }
                    None => { assert(held_r(tail).last() == held_r(&*r).last()); }
                }
            }
            _ => {
                match tv(*tail) { Tree::Atom(a) => { if a.len() == 0 { assert(a =~= Seq::<u8>::empty()); } } Tree::Pair(_, _) => {} }
            }
        }
    }
}
// a failing operand anywhere makes the application fail
pub proof fn lemma_strict_at(op: Tree, operands: Seq<Option<Tree>>, i: int)
    requires 0 <= i < operands.len(), operands[i] is None
    ensures op_apply(op, operands) is None
{
    axiom_operands_strict(op, operands, i);
}

// proved in unit `clvmleaves` (same contract texts)
//@ extract fn bi_one from src/classic/clvm/__type_compatibility__.rs
//@ stub
//@ sig r
    ensures bi(r) == 1
//@ end
//@ extract fn choose_path from src/compiler/clvm.rs
//@ stub
//@ sigfile r contracts/clvm_choose_path.sig
//@ end
//@ extract fn path_from_u8 from src/compiler/clvm.rs
//@ stub
//@ sigfile r contracts/clvm_path_from_u8.sig
//@ end
//@ extract fn flatten_signed_int from src/compiler/clvm.rs
//@ stub
//@ sigfile r contracts/clvm_flatten_signed_int.sig
//@ end
//@ extract fn atom_value from src/compiler/clvm.rs
//@ stub
//@ sigfile r contracts/clvm_atom_value.sig
//@ end
pub uninterp spec fn prim_of_name(m: VerifPrimMap, name: Seq<u8>) -> Option<SExp>;
//@ extract fn translate_head from src/compiler/clvm.rs
//@ stub
//@ replace R42 @<allocator: &mut Allocator,>@ => @<allocator: &mut VerifUnused,>@
//@ replace R42 @<runner: Rc<dyn TRunProgram>,>@ => @<runner: Rc<VerifUnused>,>@
//@ replace R52 @<prim_map: Rc<HashMap<Vec<u8>, Rc<SExp>>>,>@ => @<prim_map: Rc<VerifPrimMap>,>@
//@ sigfile r contracts/clvm_translate_head.sig
//@ end
// ASSUMED contract (the delegation itself is C06's trusted edge): apply_op hands the operator and the operand VALUES, quoted by position
// (generate_argument_refs, proved in unit clvmleaves), to the consensus evaluator, so it returns what the operator computes on them
//@ extract fn apply_op from src/compiler/clvm.rs
//@ stub
//@ replace R42 @<allocator: &mut Allocator,>@ => @<allocator: &mut VerifUnused,>@
//@ replace R42 @<runner: Rc<dyn TRunProgram>,>@ => @<runner: Rc<VerifUnused>,>@
//@ sig r
    ensures
        r matches Ok(v) ==> op_apply(tv(*head), held(*args)) == Some(tv(*v)),
        r is Err ==> op_apply(tv(*head), held(*args)) is None,
//@ end
// proved in unit `readerstep`; only called on the ((op) . operands) route, which is outside this contract
//@ extract fn enlist from src/compiler/sexp.rs
//@ stub
//@ end
// R42: the debugger's operator override (Option<&dyn PrimOverride>) -> opaque stand-in; the contract below is for stepping without one
pub struct VerifOverride { pub x: u8 }
impl VerifOverride {
    #[verifier::external_body]
    pub fn try_handle(&self, head: Rc<SExp>, context: Rc<SExp>, tail: Rc<SExp>) -> Result<Option<Rc<SExp>>, RunFailure> { unimplemented!() }
}

// what the contract of run_step covers: an operator given as a NUMBER (what the compiler emits and what a value read back from the
// consensus evaluator is); an operator given as a name is whatever the operator-name table says and is not compared here
pub open spec fn claimable(s: RunStep) -> bool {
    match s {
        RunStep::Step(e, _, _) => (match *e { SExp::Cons(_, a, _) => *a is Integer, _ => true }),
        RunStep::Op(h, _, tail, rest, _) => *h is Integer && ssize(*tail) < 0x7fffffff,
        _ => true,
    }
}
// what a fall-through value of `step` must satisfy for the final combine(&step, step_)
pub open spec fn carries(step: RunStep, from: RunStep) -> bool {
    if step is Done { resume(from, yields(step)) == final_of(from) } else { final_of(step) == final_of(from) }
}

//@ note run_step (C06): for every machine state whose operator is given as a number, one step preserves the value the state denotes under the consensus evaluation spec (final_of: eval / op_apply with the consensus axioms for path lookup, q, a, i, c, f, r, strict operands, proper operand lists); an Err is returned only when that value is a failure.  Integer mode = the current one; stepping without a debugger override; operand lists shorter than 2^31
//@ extract fn run_step from src/compiler/clvm.rs
//@ canary swap_if_branches @<let outcome = if truthy(Rc::new(l[0].clone())) {>@ => @<let outcome = if !truthy(Rc::new(l[0].clone())) {>@
//@ canary first_is_rest @<if aval == first_atom {>@ => @<if aval == rest_atom {>@
//@ canary cons_any_arity @<} else if aval == cons_atom || aval == apply_atom {>@ => @<} else if aval == apply_atom {>@
//@ replace R42 @<allocator: &mut Allocator,>@ => @<allocator: &mut VerifUnused,>@
//@ replace R42 @<runner: Rc<dyn TRunProgram>,>@ => @<runner: Rc<VerifUnused>,>@
//@ replace R52 @<prim_map: Rc<HashMap<Vec<u8>, Rc<SExp>>>,>@ => @<prim_map: Rc<VerifPrimMap>,>@
//@ replace R42 @<prim_override: Option<&dyn PrimOverride>,>@ => @<prim_override: Option<&VerifOverride>,>@
//@ replace R1 @<format!("in ((X)...) syntax X must be lone atom {sexp}"),>@ => @<verif_opaque_string(),>@
//@ replace R1 @<format!("unimplemented operator {head}"),>@ => @<verif_opaque_string(),>@
//@ replace R1 @<format!("Bad arguments given to cons {tail}"),>@ => @<verif_opaque_string(),>@
//@ replace R1 @<format!("Wrong number of parameters to {op}: {tail}"),>@ => @<verif_opaque_string(),>@
//@ replace R1 @<format!("Cons expected for {op}, got {tail}"),>@ => @<verif_opaque_string(),>@
//@ replace-span R1 @<let op = if aval == apply_atom {>@ @<format!("operator {aval}")>@ => @<let op = { verif_opaque_string()>@
//@ replace R48 @<while let SExp::Cons(_, f, r) = operand_tail.clone().borrow() {>@ => @<loop decreases ssize_r(&*operand_tail) { let verif_ot = operand_tail.clone(); let (f, r) = match verif_ot.borrow() { SExp::Cons(_, f, r) => (f.clone(), r.clone()), _ => { break; } };>@
//@ replace R3 @<let mut rest_mut = rest.clone();>@ => @<let mut rest_mut = rest.clone(); proof { lemma_rcvec_clone(rest@, rest_mut@); }>@
//@ sig r
    requires int_mode(), prim_override is None
    ensures
        claimable(*step_) ==> (match r { Ok(s) => final_of(s) == final_of(*step_), Err(_) => final_of(*step_) is None }),
//@ before stmt @<let mut step = step_.clone();>@
    broadcast use {axiom_apply_arity, axiom_if_arity, axiom_cons_arity, axiom_first_arity, axiom_rest_arity, axiom_apply, axiom_if, axiom_cons};
//@ before #0 stmt @<return Ok(RunStep::OpResult(>@
                    proof {
                        lemma_eval_integer(&**sexp, tvr(&**context));
                        lemma_be_bounds(u8n(bi(*v)));
                    }
//@ before #0 stmt @<step = RunStep::Step(>@
                    let ghost verif_v = v@;
                    let ghost verif_env = tvr(&**context);
//@ after #0 stmt @<step = RunStep::Step(>@
                    proof {
                        match &step { RunStep::Step(e2, _, _) => { lemma_eval_atom_as_integer(verif_v, &**e2, verif_env); } _ => {} }
                        assert(carries(step, *step_));
                    }
//@ before #1 stmt @<step = RunStep::Step(>@
                    let ghost verif_v = v@;
                    let ghost verif_env = tvr(&**context);
//@ after #1 stmt @<step = RunStep::Step(>@
                    proof {
                        match &step { RunStep::Step(e2, _, _) => { lemma_eval_atom_as_integer(verif_v, &**e2, verif_env); } _ => {} }
                        assert(carries(step, *step_));
                    }
//@ before #1 stmt @<return Ok(RunStep::OpResult(>@
                    proof {
                        broadcast use axiom_nil_evaluates_to_nil;
                        assert(tvr(&**sexp) == tnil());
                    }
//@ before #1 stmt @<if atom_value(head.clone())? == bi_one() {>@
                    proof {
                        if claimable(*step_) {
                            lemma_integer_head(&**a, 1u8);
                            assert(tvr(&*head) == tvr(&**a));
                        }
                    }
//@ after stmt @<step = RunStep::Done(l.clone(), b.clone());>@
                        proof { assert(claimable(*step_) ==> carries(step, *step_)); }
//@ after stmt @<step = eval_args(>@
                        proof { assert(claimable(*step_) ==> carries(step, *step_)); }
//@ before #2 stmt @<step = RunStep::Step(>@
                    let ghost verif_env = tvr(&**context);
                    let ghost verif_pr = pend(rest@, verif_env);
                    let ghost verif_pm = pend(rest_mut@, verif_env);
                    let ghost verif_hd = held_r(&**tail);
                    let ghost verif_v = eval(tvr(&*x), verif_env);
                    let ghost verif_h = tvr(&**head);
//@ after #2 stmt @<step = RunStep::Step(>@
                    proof {
                        if claimable(*step_) {
                            assert(verif_pr =~= verif_pm + seq![verif_v]);
                            assert(verif_pr + verif_hd =~= verif_pm + seq![verif_v] + verif_hd);
                            if verif_v is None { lemma_strict_at(verif_h, verif_pr + verif_hd, verif_pm.len() as int); }
                            assert(carries(step, *step_));
                        }
                    }
//@ before #0 stmt @<step = RunStep::Op(>@
                    let ghost verif_env = tvr(&**context);
                    let ghost verif_pr = pend(rest@, verif_env);
                    let ghost verif_hd = held_r(&**tail);
//@ after #0 stmt @<step = RunStep::Op(>@
                    proof {
                        if claimable(*step_) {
                            assert(verif_pr + verif_hd =~= verif_hd);
                            assert(carries(step, *step_));
                        }
                    }
//@ before stmt @<match tail.proper_list() {>@
            proof {
                if claimable(*step_) {
                    lemma_held_of_list(&**tail);
                    lemma_integer_head(&**head, 2u8);
                    lemma_integer_head(&**head, 3u8);
                    lemma_integer_head(&**head, 4u8);
                    lemma_integer_head(&**head, 5u8);
                    lemma_integer_head(&**head, 6u8);
                    let hd = held_r(&**tail);
                    match sproper_r(&**tail) {
                        None => { lemma_strict_at(tvr(&**head), hd, hd.len() - 1); }
                        Some(x) => {
                            assert(hd.len() == x.len());
                            if x.len() == 1 { assert(hd =~= seq![Some(tv(x[0]))]); axiom_first_rest(Some(tv(x[0]))); }
                            if x.len() == 2 { assert(hd =~= ops2(Some(tv(x[0])), Some(tv(x[1])))); }
                            if x.len() == 3 { assert(hd =~= ops3(Some(tv(x[0])), Some(tv(x[1])), Some(tv(x[2])))); }
                        }
                    }
                }
            }
//@ after stmt @<step = RunStep::Done(outcome.loc(), Rc::new(outcome));>@
                        proof { assert(claimable(*step_) ==> carries(step, *step_)); }
//@ after #3 stmt @<step = RunStep::Step(>@
                        proof { assert(claimable(*step_) ==> carries(step, *step_)); }
//@ before tail
    proof { assert(claimable(*step_) ==> carries(step, *step_)); }
//@ end

//@ note start_step: the initial machine state denotes the value of the program in the environment; with run_step's contract, every state of the run denotes that value, and a Done state is its own value -- so a run that ends, ends with eval(program, env)
//@ extract fn start_step from src/compiler/clvm.rs
//@ sig r
    ensures final_of(r) == eval(tv(*sexp_), tv(*context_)), claimable(r) == (match *sexp_ { SExp::Cons(_, a, _) => *a is Integer, _ => true })
//@ end

}
fn main() {}
