#![feature(allocator_api)]
#![allow(unused_imports, dead_code, unused_variables, unused_mut, unused_parens)]
use vstd::prelude::*;
use vstd::arithmetic::power2::*;
use std::rc::Rc;
use std::borrow::Borrow;

verus! {
//@ include prelude/bigint.rs
//@ include spec/bytes.rs
//@ include prelude/misc.rs
//@ include prelude/bigint_bytes.rs
//@ include prelude/rc.rs
//@ include prelude/std.rs
//@ include units/inc/sexp_types.rs
#[verifier::external_body]
pub fn verif_vec_eq_slice(a: &Vec<u8>, b: &[u8]) -> (r: bool) ensures r == (a@ == b@) { unimplemented!() }
broadcast use {num_bigint::of_int_bi, num_bigint::bi_of_int};

//@ extract struct CompileErr from src/compiler/comptypes.rs
//@ end

//@ include units/inc/binds.rs
#[verifier::external_body]
pub fn decode_string(v: &[u8]) -> String { unimplemented!() }

//@ note create_name_lookup_: Ok(p) means the consensus path p selects, from any argument tree, exactly the value the pattern binds `name` to; Err means the pattern does not mention `name`. height <= 62 is the honest limit of the u64 result
//@ extract fn create_name_lookup_ from src/compiler/codegen.rs
//@ canary left_right_swapped @<Ok(2 * v + 1)>@ => @<Ok(2 * v)>@
//@ replace-block R1
                    format!(
                        "{} not found (via {})",
                        decode_string(name),
                        decode_string(a)
                    ),
//@ with
                    verif_opaque_string(),
//@ replace-block R1
                    format!(
                        "{} not found (via {})",
                        decode_string(name),
                        decode_string(&a)
                    ),
//@ with
                    verif_opaque_string(),
//@ replace-block R1
            format!(
                "operator or function atom {} not found checking {} in {}",
                decode_string(name),
                find,
                env
            ),
//@ with
            verif_opaque_string(),
//@ replace-block R4
                create_name_lookup_(l.clone(), name, env.clone(), head.clone())
                    .map(|v| Ok(2 * v))
                    .unwrap_or_else(|_| {
                        create_name_lookup_(l.clone(), name, env, rest.clone()).map(|v| 2 * v + 1)
                    })
//@ with
                match create_name_lookup_(l.clone(), name, env.clone(), head.clone()) {
                    Ok(v) => {
                        proof {
                            let hh = sheight_r(&**head);
                            lemma_pow2_adds(1, (hh + 1) as nat);
                            if hh + 2 < hf + 1 { lemma_pow2_strictly_increases((hh + 2) as nat, (hf + 1) as nat); }
                            lemma_pow2_strictly_increases((hf + 1) as nat, 64);
                            assert forall|args: Tree| #[trigger] binds(*find, name@, args) == tree_path(2 * v as int, args) by {
                                match args { Tree::Pair(fa, ra) => { assert(binds(**head, name@, *fa) == tree_path(v as int, *fa)); } Tree::Atom(_) => {} }
                            }
                        }
                        Ok(2 * v)
                    },
                    Err(_) => match create_name_lookup_(l.clone(), name, env, rest.clone()) {
                        Ok(v) => {
                            proof {
                                let hh = sheight_r(&**rest);
                                lemma_pow2_adds(1, (hh + 1) as nat);
                                if hh + 2 < hf + 1 { lemma_pow2_strictly_increases((hh + 2) as nat, (hf + 1) as nat); }
                                lemma_pow2_strictly_increases((hf + 1) as nat, 64);
                                assert forall|args: Tree| #[trigger] binds(*find, name@, args) == tree_path(2 * v + 1 as int, args) by {
                                    match args { Tree::Pair(fa, ra) => { assert(binds(**rest, name@, *ra) == tree_path(v as int, *ra)); } Tree::Atom(_) => {} }
                                }
                            }
                            Ok(2 * v + 1)
                        },
                        Err(e) => Err(e),
                    },
                }
//@ replace-block R24
                    create_name_lookup_(l.clone(), name, env, substructure)
//@ with
                    {
                        let res = create_name_lookup_(l.clone(), name, env, substructure);
                        proof {
                            if let Ok(p) = res {
                                assert forall|args: Tree| #[trigger] binds(*find, name@, args) == tree_path(p as int, args) by {
                                    assert(binds(at_capture(**head, **rest)->Some_0.1, name@, args) == tree_path(p as int, args));
                                }
                            }
                        }
                        res
                    }
//@ replace R7 @<if *a == *name {>@ => @<if verif_vec_eq_slice(a, name) {>@
//@ replace R7 @<if a == *name {>@ => @<if verif_vec_eq_slice(&a, name) {>@
//@ replace R7 @<if *capture == *name {>@ => @<if verif_vec_eq_slice(&capture, name) {>@
//@ sig r
    requires sheight(*find) <= 62
    ensures
        r matches Ok(p) ==> mentions(*find, name@) && 1 <= p < pow2((sheight(*find) + 1) as nat)
            && forall|args: Tree| #[trigger] binds(*find, name@, args) == tree_path(p as int, args),
        r is Err ==> !mentions(*find, name@),
    decreases sheight(*find)
//@ before stmt @<match find.borrow()>@
    let ghost hf: nat = sheight_r(&*find);
    proof {
        broadcast use axiom_at_capture_smaller;
        lemma2_to64();
        lemma2_to64_rest();
        lemma_pow2_pos((hf + 1) as nat);
        lemma_pow2_strictly_increases(0, (hf + 1) as nat);
    }
//@ before stmt @<let res = create_name_lookup_>@
                    proof {
                        let hs = sheight_r(&*substructure);
                        if hs + 1 < hf + 1 { lemma_pow2_strictly_increases((hs + 1) as nat, (hf + 1) as nat); }
                    }
//@ end

// HelperForm is opaque here: only its name and location are used
#[verifier::external_body]
pub struct HelperForm { x: u8 }
pub uninterp spec fn helper_name(h: HelperForm) -> Seq<u8>;
impl HelperForm {
    #[verifier::external_body]
    pub fn loc(&self) -> Srcloc { unimplemented!() }
    #[verifier::external_body]
    pub fn name(&self) -> (r: &Vec<u8>) ensures r@ == helper_name(*self) { unimplemented!() }
}
// names at the leaves of an environment shape, left to right
pub open spec fn leaf_names(s: SExp) -> Seq<Seq<u8>>
    decreases s
{
    match s {
        SExp::Cons(_, a, b) => leaf_names(*a) + leaf_names(*b),
        SExp::Atom(_, n) => seq![n@],
        _ => Seq::<Seq<u8>>::empty(),
    }
}
pub open spec fn names_of(hs: Seq<HelperForm>, s: int, e: int) -> Seq<Seq<u8>>
    decreases e - s
{
    if s >= e { Seq::<Seq<u8>>::empty() } else { seq![helper_name(hs[s])] + names_of(hs, s + 1, e) }
}
pub proof fn lemma_names_split(hs: Seq<HelperForm>, s: int, m: int, e: int)
    requires s <= m <= e
    ensures names_of(hs, s, e) == names_of(hs, s, m) + names_of(hs, m, e)
    decreases m - s
{
    if s == m {
        assert(names_of(hs, s, m) =~= Seq::<Seq<u8>>::empty());
        assert(names_of(hs, s, e) =~= names_of(hs, s, m) + names_of(hs, m, e));
    } else {
        lemma_names_split(hs, s + 1, m, e);
        assert(names_of(hs, s, e) =~= names_of(hs, s, m) + names_of(hs, m, e));
    }
}

//@ extract fn helper_atom from src/compiler/codegen.rs
//@ sig r
    ensures r is Atom, leaf_names(r) == seq![helper_name(*h)]
//@ end
//@ note build_tree / compute_code_shape / compute_env_shape: the function environment is a tree whose leaves, left to right, are exactly the helper names in order, each once; the arguments hang on the right
//@ extract fn build_tree from src/compiler/codegen.rs
//@ canary skip_mid @<let cdr = build_tree(l.clone(), mid, e, helper_array);>@ => @<let cdr = build_tree(l.clone(), if mid + 1 < e { mid + 1 } else { mid }, e, helper_array);>@
//@ sig r
    requires s < e <= helper_array@.len(), 2 * e <= usize::MAX
    ensures leaf_names(r) == names_of(helper_array@, s as int, e as int)
    decreases e - s
//@ before stmt @<if e - s == 1>@
    proof {
        if e - s == 1 {
            assert(names_of(helper_array@, s + 1, e as int) =~= Seq::<Seq<u8>>::empty());
            assert(names_of(helper_array@, s as int, e as int) =~= seq![helper_name(helper_array@[s as int])]);
        } else {
            lemma_names_split(helper_array@, s as int, ((e + s) / 2) as int, e as int);
        }
    }
//@ end
//@ extract fn compute_code_shape from src/compiler/codegen.rs
//@ sig r
    requires 2 * helpers@.len() <= usize::MAX
    ensures leaf_names(r) == names_of(helpers@, 0, helpers@.len() as int)
//@ before stmt @<if alen == 0>@
    proof {
        if alen == 0 { assert(names_of(helpers@, 0, 0) =~= Seq::<Seq<u8>>::empty()); }
        if alen == 1 {
            assert(names_of(helpers@, 1, 1) =~= Seq::<Seq<u8>>::empty());
            assert(names_of(helpers@, 0, 1) =~= seq![helper_name(helpers@[0])]);
        }
    }
//@ end
//@ extract fn compute_env_shape from src/compiler/codegen.rs
//@ sig r
    requires 2 * helpers@.len() <= usize::MAX
    ensures r matches SExp::Cons(_, left, right) && leaf_names(*left) == names_of(helpers@, 0, helpers@.len() as int) && *right == *args
//@ end

// ---- finalize_env_: the function environment is the env shape with every helper name replaced by its code
#[verifier::external_body]
pub struct BasicCompileContext { x: u8 }
#[verifier::external_body]
pub struct PrimaryCodegen { x: u8 }
#[verifier::external_body]
pub struct CompilerOptsDyn { x: u8 }
// what a leaf name of the environment shape resolves to (defun code, tabled constant, inline expansion, nil for a parent function): abstract
pub uninterp spec fn resolve_leaf(c: PrimaryCodegen, name: Seq<u8>) -> Option<SExp>;
#[verifier::external_body]
pub fn verif_resolve_leaf(context: &mut BasicCompileContext, opts: Rc<CompilerOptsDyn>, c: &PrimaryCodegen, l: &Srcloc, v: &Vec<u8>) -> (r: Result<Rc<SExp>, CompileErr>)
    ensures match resolve_leaf(*c, v@) { Some(x) => r matches Ok(y) && *y == x, None => r is Err }
{ unimplemented!() }

pub open spec fn fin_rel(c: PrimaryCodegen, shape: SExp, out: SExp) -> bool
    decreases shape
{
    match shape {
        SExp::Cons(_, h, r) => out matches SExp::Cons(_, oh, or) && fin_rel(c, *h, *oh) && fin_rel(c, *r, *or),
        SExp::Atom(_, v) => resolve_leaf(c, v@) == Some(out),
        _ => out == shape,
    }
}

//@ note finalize_env_: the result has the shape of the environment description with every name leaf replaced by what that name resolves to (left stays left, right stays right); the per-leaf resolution itself (defuns / constants / inlines tables) is abstract (R29)
//@ extract fn finalize_env_ from src/compiler/codegen.rs
//@ canary swap_sides @<Ok(r) => Ok(Rc::new(SExp::Cons(l.clone(), h.clone(), r))),>@ => @<Ok(r) => Ok(Rc::new(SExp::Cons(l.clone(), r, h.clone()))),>@
//@ replace R10 @<opts: Rc<dyn CompilerOpts>,>@ => @<opts: Rc<CompilerOptsDyn>,>@
//@ replace-block R29
            if let Some(res) = c.defuns.get(v) {
                return Ok(res.code.clone());
            }

            if let Some(res) = c.tabled_constants.get(v) {
                return Ok(res.clone());
            }

            if let Some(res) = c.inlines.get(v) {
                let (arg_list, arg_tail) = synthesize_args(res.args.clone());
                return replace_in_inline(
                    context,
                    opts.clone(),
                    c,
                    l.clone(),
                    res,
                    res.args.loc(),
                    &arg_list,
                    arg_tail,
                )
                .map(|x| x.1);
            }

            /* Parentfns are functions in progress in the parent */
            if c.parentfns.contains(v) {
                Ok(Rc::new(SExp::Nil(l.clone())))
            } else {
                Err(CompileErr(
                    l.clone(),
                    format!(
                        "A defun was referenced in the defun env but not found {}",
                        decode_string(v)
                    ),
                ))
            }
//@ with
            verif_resolve_leaf(context, opts.clone(), c, l, v)
//@ replace-block R4
        SExp::Cons(l, h, r) => finalize_env_(context, opts.clone(), c, l.clone(), h.clone())
            .and_then(|h| {
                finalize_env_(context, opts.clone(), c, l.clone(), r.clone())
                    .map(|r| Rc::new(SExp::Cons(l.clone(), h.clone(), r)))
            }),
//@ with
        SExp::Cons(l, h, r) => match finalize_env_(context, opts.clone(), c, l.clone(), h.clone()) { Err(e) => Err(e), Ok(h) => {
                match finalize_env_(context, opts.clone(), c, l.clone(), r.clone()) { Err(e) => Err(e),
                    Ok(r) => Ok(Rc::new(SExp::Cons(l.clone(), h.clone(), r))),
                }
            } },
//@ sig r
    ensures r matches Ok(out) ==> fin_rel(*c, *env, *out)
    decreases *env
//@ end

// C01 addressing lemma over the two contracts: in an environment shape without (@ ...) captures,
// whatever the shape binds `name` to inside the finalized environment is the value that name resolves to
pub open spec fn no_captures(s: SExp) -> bool
    decreases s
{
    match s {
        SExp::Cons(_, h, r) => at_capture(*h, *r) is None && no_captures(*h) && no_captures(*r),
        _ => true,
    }
}
pub open spec fn only_names(s: SExp) -> bool
    decreases s
{
    match s { SExp::Cons(_, h, r) => only_names(*h) && only_names(*r), SExp::Atom(_, _) => true, SExp::Nil(_) => true, _ => false }
}
pub open spec fn mentions_r(s: &SExp, name: Seq<u8>) -> bool { mentions(*s, name) }
pub proof fn lemma_env_addressing(c: &PrimaryCodegen, shape: &SExp, out: &SExp, name: Seq<u8>)
    requires fin_rel(*c, *shape, *out), no_captures(*shape), only_names(*shape), mentions(*shape, name)
    ensures ({ let b = binds(*shape, name, tree_of(int_mode(), *out)); b is Some && resolve_leaf(*c, name) is Some && b->Some_0 == tree_of(int_mode(), resolve_leaf(*c, name)->Some_0) })
    decreases *shape
{
    match shape {
        SExp::Cons(_, h, r) => {
            match out {
                SExp::Cons(_, oh, or) => {
                    if mentions_r(&**h, name) { lemma_env_addressing(c, &**h, &**oh, name); } else { lemma_env_addressing(c, &**r, &**or, name); }
                }
                _ => {}
            }
        }
        _ => {}
    }
}
}
fn main() {}
