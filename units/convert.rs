#![feature(allocator_api)]
#![allow(unused_imports, dead_code, unused_variables, unused_mut, unused_parens)]
use vstd::prelude::*;
use vstd::arithmetic::power2::*;
use std::rc::Rc;
use std::borrow::Borrow;

verus! {
//@ include prelude/bigint.rs
//@ include spec/bytes.rs
//@ include prelude/misc.rs
//@ include prelude/clvmr.rs
//@ include prelude/bigint_bytes.rs
//@ include prelude/rc.rs
//@ include prelude/std.rs
//@ include units/inc/sexp_types.rs
//@ include prelude/allocator_tree.rs
broadcast use {num_bigint::of_int_bi, num_bigint::bi_of_int};

//@ extract fn bi_zero from src/classic/clvm/__type_compatibility__.rs
//@ sig r
    ensures bi(r) == 0
//@ end

// sexp.rs::printable decides only between two spellings of the same bytes
#[verifier::external_body]
pub fn printable(a: &[u8], quoted: bool) -> bool { unimplemented!() }

//@ note convert_from_clvm_rs: the rich value denotes exactly the CLVM node it was converted from, in both integer modes
//@ extract fn convert_from_clvm_rs from src/compiler/clvm.rs
//@ canary drop_roundtrip_check @<if verif_vec_eq_slice(&u8_from_number(integer.clone()), atom_data) {>@ => @<if true {>@
//@ replace R13 @<NewStyleIntConversion::setting()>@ => @<verif_int_mode()>@
//@ replace R7 @<u8_from_number(integer.clone()) == atom_data>@ => @<verif_vec_eq_slice(&u8_from_number(integer.clone()), atom_data)>@
//@ replace R7 @<atom_data == [0]>@ => @<verif_slice_is(atom_data, [0])>@
//@ replace-block R4
            convert_from_clvm_rs(allocator, loc.clone(), a).and_then(|h| {
                convert_from_clvm_rs(allocator, loc.clone(), b)
                    .map(|t| Rc::new(SExp::Cons(loc.clone(), h, t)))
            })
//@ with
            proof {
                let t = node_tree(*allocator, head)->Some_0;
                assert(t is Pair);
                assert(*t->Pair_0 == node_tree(*allocator, a)->Some_0);
                assert(*t->Pair_1 == node_tree(*allocator, b)->Some_0);
                assert(decreases_to!(t => *t->Pair_0));
                assert(decreases_to!(t => *t->Pair_1));
            }
            match convert_from_clvm_rs(allocator, loc.clone(), a) { Err(e) => Err(e), Ok(h) => {
                match convert_from_clvm_rs(allocator, loc.clone(), b) { Err(e) => Err(e), Ok(t) => Ok(Rc::new(SExp::Cons(loc.clone(), h, t))) }
            } }
//@ sig r
    requires node_tree(*old(allocator), head) is Some
    ensures
        *final(allocator) == *old(allocator),
        r matches Ok(s) ==> tree_of(int_mode(), *s) == node_tree(*old(allocator), head)->Some_0,
    decreases node_tree(*old(allocator), head)->Some_0
//@ before stmt @<if atom_data.is_empty()>@
            proof {
                if atom_data@.len() == 0 { assert(atom_data@ =~= Seq::<u8>::empty()); }
            }
//@ after stmt @<let integer>@
                proof {
                    if atom_data@ == u8n(be_signed(atom_data@)) {
                        if be_signed(atom_data@) == 0 { assert(atom_data@ =~= seq![0u8]); }
                    }
                }
//@ end

//@ note convert_to_clvm_rs: the allocated node denotes tree_of(mode, value); existing nodes are untouched
//@ extract fn convert_to_clvm_rs from src/compiler/clvm.rs
//@ canary legacy_zero @<if verif_int_mode() && *i == bi_zero() {>@ => @<if *i == bi_zero() {>@
//@ replace R13 @<NewStyleIntConversion::setting()>@ => @<verif_int_mode()>@
//@ replace-block R4
        SExp::Atom(_l, x) => allocator
            .new_atom(x)
            .map_err(|_e| RunFailure::RunErr(head.loc(), format!("failed to alloc atom {head}"))),
        SExp::QuotedString(_, _, x) => allocator
            .new_atom(x)
            .map_err(|_e| RunFailure::RunErr(head.loc(), format!("failed to alloc string {head}"))),
//@ with
        SExp::Atom(_l, x) => match allocator.new_atom(x) { Ok(n) => Ok(n), Err(_e) => Err(RunFailure::RunErr(head.loc(), verif_opaque_string())) },
        SExp::QuotedString(_, _, x) => match allocator.new_atom(x) { Ok(n) => Ok(n), Err(_e) => Err(RunFailure::RunErr(head.loc(), verif_opaque_string())) },
//@ replace-block R4
                allocator
                    .new_atom(&u8_from_number(i.clone()))
                    .map_err(|_e| {
                        RunFailure::RunErr(head.loc(), format!("failed to alloc integer {head}"))
                    })
//@ with
                match allocator.new_atom(&u8_from_number(i.clone())) { Ok(n) => Ok(n), Err(_e) => Err(RunFailure::RunErr(head.loc(), verif_opaque_string())) }
//@ replace-block R4
        SExp::Cons(_, a, b) => convert_to_clvm_rs(allocator, a.clone()).and_then(|head_ptr| {
            convert_to_clvm_rs(allocator, b.clone()).and_then(|tail| {
                allocator.new_pair(head_ptr, tail).map_err(|_e| {
                    RunFailure::RunErr(a.loc(), format!("failed to alloc cons {head}"))
                })
            })
        }),
//@ with
        SExp::Cons(_, a, b) => match convert_to_clvm_rs(allocator, a.clone()) { Err(e) => Err(e), Ok(head_ptr) => {
            let ghost mid = *allocator;
            match convert_to_clvm_rs(allocator, b.clone()) { Err(e) => Err(e), Ok(tail) => {
                match allocator.new_pair(head_ptr, tail) { Ok(n) => Ok(n), Err(_e) => Err(RunFailure::RunErr(a.loc(), verif_opaque_string())) }
            } }
        } },
//@ sig r
    ensures
        alloc_ext(*old(allocator), *final(allocator)),
        r matches Ok(n) ==> node_tree(*final(allocator), n) == Some(tree_of(int_mode(), *head)),
    decreases *head
//@ before stmt @<match head.borrow()>@
    proof { broadcast use axiom_nil_node; }
//@ end

// R38/R47: which source location a node is given (symbol table lookup by the node's tree hash, HashMap<String, String>) is cut to an
// opaque helper: the location does not enter the value
#[verifier::external_body]
pub struct VerifSymTable { x: u8 }
#[verifier::external_body]
pub fn verif_symbol_loc(allocator: &mut Allocator, symbol_table: &VerifSymTable, loc: &Srcloc, program: NodePtr) -> (r: Srcloc)
    ensures *final(allocator) == *old(allocator)
{ unimplemented!() }
//@ note hex_to_modern_sexp_inner (cldb -x: a program supplied as hex): the located value it rebuilds denotes exactly the deserialised CLVM node, so a hex-supplied program is the same program as its source form (C12)
//@ extract fn hex_to_modern_sexp_inner from src/compiler/cldb.rs
//@ canary swapped_children @<hex_to_modern_sexp_inner(allocator, symbol_table, srcloc, b)?,>@ => @<hex_to_modern_sexp_inner(allocator, symbol_table, srcloc, a)?,>@
//@ replace R47 @<symbol_table: &HashMap<String, String>,>@ => @<symbol_table: &VerifSymTable,>@
//@ replace-span R38 @<let hash = sha256tree(allocator, program);>@ @<.unwrap_or_else(|| loc.clone());>@ => @<let srcloc = verif_symbol_loc(allocator, symbol_table, &loc, program);>@
//@ replace R4 @<allocator::SExp::Pair(a, b) => Ok(Rc::new(SExp::Cons(>@ => @<allocator::SExp::Pair(a, b) => { proof { let t = node_tree(*allocator, program)->Some_0; assert(*t->Pair_0 == node_tree(*allocator, a)->Some_0); assert(*t->Pair_1 == node_tree(*allocator, b)->Some_0); assert(decreases_to!(t => *t->Pair_0)); assert(decreases_to!(t => *t->Pair_1)); } Ok(Rc::new(SExp::Cons(>@
//@ replace R4 @<))),>@ => @<))) },>@
//@ replace-span R4 @<_ => convert_from_clvm_rs(allocator, srcloc, program).map_err(|_| {>@ @<}),>@ => @<_ => match convert_from_clvm_rs(allocator, srcloc, program) { Ok(verif_v) => Ok(verif_v), Err(verif_e) => Err(EvalErr::InternalError(NodePtr::NIL, verif_opaque_string())) },>@
//@ sig r
    requires node_tree(*old(allocator), program) is Some
    ensures
        *final(allocator) == *old(allocator),
        r matches Ok(s) ==> tree_of(int_mode(), *s) == node_tree(*old(allocator), program)->Some_0,
    decreases node_tree(*old(allocator), program)->Some_0
//@ end
}
fn main() {}
