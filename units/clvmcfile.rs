#![feature(allocator_api)]
#![allow(unused_imports, dead_code, unused_variables, unused_mut, unused_parens)]
use vstd::prelude::*;
use vstd::string::*;
use std::collections::HashMap;

verus! {
//@ include prelude/misc.rs
//@ include prelude/tempfile.rs

// R51: the compilation itself (allocator, options, compile_clvm_inner, hex text of the result stream) -> one opaque call; the claim is
// only about which file-system calls compile_clvm makes
#[verifier::external_body]
pub fn verif_compile_to_hex(input_path: &str, text: &String, search_paths: &[String], symbol_table: &mut HashMap<String, String>) -> Result<String, String> { unimplemented!() }
// newer: compares modification times (reads metadata only)
//@ extract fn newer from src/classic/platform/distutils/dep_util.rs
//@ stub
//@ end
// proved in unit `atomicwrite` (same contract text)
//@ extract fn gentle_overwrite from src/util/mod.rs
//@ stub
//@ sigfile r contracts/gentle_overwrite.sig
//@ end

//@ note compile_clvm (file-to-file compilation): the only call that can change the output path is gentle_overwrite with the complete new contents; nothing creates, truncates or appends to a file before that (every other file-writing call of std::fs has `requires false` in the prelude)
//@ extract fn compile_clvm from src/classic/clvm_tools/clvmc.rs
//@ canary touch_output_first @<if compile {>@ => @<let _ = fs::File::create(output_path); if compile {>@
//@ replace-upto R51 @<let mut allocator = Allocator::new();>@ @<let compile = newer(>@ => @<>@
//@ replace R4 @<newer(input_path, output_path).unwrap_or(true)>@ => @<(match newer(input_path, output_path) { Ok(verif_c) => verif_c, Err(_) => true })>@
//@ replace-upto R51 @<let mut result_stream = Stream::new(None);>@ @<if compile {>@ => @<>@
//@ replace-block R4
        let text = fs::read_to_string(input_path)
            .map_err(|x| format!("error reading {input_path}: {x:?}"))?;
//@ with
        let text = match fs::read_to_string(input_path) { Ok(verif_t) => verif_t, Err(x) => { return Err(verif_opaque_string()); } };
//@ replace-upto R51 @<let opts = Rc::new(DefaultCompilerOpts::new(input_path))>@ @<// Try to detect whether we'd put the same output>@ => @<let mut target_data = verif_compile_to_hex(input_path, &text, search_paths, symbol_table)?; >@
//@ sig r
    ensures r matches Ok(p) ==> p@ == output_path@
//@ end
}
fn main() {}
