#![feature(allocator_api)]
#![allow(unused_imports, dead_code, unused_variables, unused_mut, unused_parens)]
use vstd::prelude::*;
use vstd::arithmetic::power2::*;
use std::rc::Rc;
use std::borrow::Borrow;

verus! {
//@ include prelude/bigint.rs
//@ include spec/bytes.rs
//@ include prelude/misc.rs
//@ include prelude/bigint_bytes.rs
//@ include prelude/rc.rs
//@ include prelude/std.rs
//@ include units/inc/sexp_types.rs
broadcast use {num_bigint::of_int_bi, num_bigint::bi_of_int};

pub open spec fn sheight(s: SExp) -> nat
    decreases s
{
    match s {
        SExp::Cons(_, a, b) => 1 + (if sheight(*a) >= sheight(*b) { sheight(*a) } else { sheight(*b) }),
        _ => 0,
    }
}
pub open spec fn srank(s: SExp) -> nat { if s is Atom { 0 } else { 1 } }

pub proof fn lemma_u8n_nonempty(i: int)
    ensures u8n(i).len() > 0
{
    broadcast use axiom_signed_bytes;
    if i != 0 { assert(be_signed(signed_bytes(i)) == i); }
}

impl vstd::std_specs::cmp::PartialEqSpecImpl for SExp {
    open spec fn obeys_eq_spec() -> bool { true }
    open spec fn eq_spec(&self, other: &SExp) -> bool { tree_of(true, *self) == tree_of(true, *other) }
}
impl PartialEq for SExp {
//@ note SExp == SExp (PartialEq::eq -> equal_to): true exactly when the two values have the same CLVM encoding in the current integer mode
//@ extract fn eq from src/compiler/sexp.rs in impl PartialEq for SExp
//@ sig r
    ensures r == (tree_of(true, *self) == tree_of(true, *other))
//@ end
}

impl SExp {
//@ extract fn nilp from src/compiler/sexp.rs in impl SExp
//@ sigfile r contracts/sexp_nilp.sig
//@ before stmt @<match self>@
        proof {
            match self {
                SExp::QuotedString(_, _, v) => { assert(v@.len() == 0 <==> v@ =~= Seq::<u8>::empty()); }
                SExp::Atom(_, v) => { assert(v@.len() == 0 <==> v@ =~= Seq::<u8>::empty()); }
                SExp::Integer(_, i) => { lemma_u8n_nonempty(bi(*i)); }
                _ => {}
            }
        }
//@ end

//@ extract fn equal_to from src/compiler/sexp.rs in impl SExp
//@ canary atom_prefix @<(SExp::Atom(_, a), SExp::Atom(_, b)) => verif_vec_eq(a, b),>@ => @<(SExp::Atom(_, a), SExp::Atom(_, b)) => a.len() == b.len(),>@
//@ replace R15 @<SExp::Atom(l.clone(), u8_from_number(a.clone())) == *b>@ => @<SExp::Atom(l.clone(), u8_from_number(a.clone())).equal_to(b)>@
//@ replace R15 @<SExp::Atom(l.clone(), a.clone()) == *b>@ => @<SExp::Atom(l.clone(), a.clone()).equal_to(b)>@
//@ replace R15 @<SExp::Atom(l.clone(), Vec::new()) == *b>@ => @<SExp::Atom(l.clone(), Vec::new()).equal_to(b)>@
//@ replace R7 @<(SExp::Atom(_, a), SExp::Atom(_, b)) => a == b,>@ => @<(SExp::Atom(_, a), SExp::Atom(_, b)) => verif_vec_eq(a, b),>@
//@ replace all R15 @<other == self>@ => @<other.equal_to(self)>@
//@ sig r
    ensures r == (tree_of(true, *self) == tree_of(true, *other))
    decreases sheight(*self), 2 * srank(*self) + 3 * srank(*other)
//@ end
}
}
fn main() {}
