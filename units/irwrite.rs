#![feature(allocator_api)]
#![allow(unused_imports, dead_code, unused_variables, unused_mut, unused_parens)]
use vstd::prelude::*;
use std::rc::Rc;
use std::borrow::Borrow;

verus! {
global size_of usize == 8;
//@ include prelude/misc.rs
//@ include prelude/rc.rs
//@ include prelude/std.rs
//@ include units/inc/bytes.rs
//@ include units/inc/stream_w.rs
//@ extract enum IRRepr from src/classic/clvm_tools/ir/type.rs
//@ end
//@ include units/inc/irshow.rs

//@ extract enum IROutputState from src/classic/clvm_tools/ir/writer.rs
//@ replace R28 @<enum IROutputState {>@ => @<pub enum IROutputState {>@
//@ end
//@ extract struct IROutputIterator from src/classic/clvm_tools/ir/writer.rs
//@ replace R28 @<struct IROutputIterator {>@ => @<pub struct IROutputIterator {>@
//@ replace R28 @<state: Vec<IROutputState>,>@ => @<pub state: Vec<IROutputState>,>@
//@ end

pub open spec fn sb(s: String) -> Seq<u8> { string_bytes(s@) }
pub open spec fn irv_r(x: &IRRepr) -> IRS { irv(*x) }
// R54: the five punctuation literals -> helpers that state the bytes of the literal (trusted: "(" is the byte 0x28, ...)
#[verifier::external_body] pub fn verif_s_open() -> (r: String) ensures sb(r) == seq![0x28u8] { "(".to_string() }
#[verifier::external_body] pub fn verif_s_close() -> (r: String) ensures sb(r) == seq![0x29u8] { ")".to_string() }
#[verifier::external_body] pub fn verif_s_nil() -> (r: String) ensures sb(r) == seq![0x28u8, 0x29u8] { "()".to_string() }
#[verifier::external_body] pub fn verif_s_blank() -> (r: String) ensures sb(r) == seq![0x20u8] { " ".to_string() }
#[verifier::external_body] pub fn verif_s_dot() -> (r: String) ensures sb(r) == seq![0x2eu8, 0x20u8] { ". ".to_string() }
// R54: the text of an atom-like term (Bytes::to_formal_string, decimal of bigint_from_bytes, "0x" + hex, the symbol itself) -> tok:
// tok(v) IS what these conversions print; what the reader needs of it is stated as leaf_ok (unit irparse)
#[verifier::external_body]
pub fn verif_tok(v: &IRRepr) -> (r: String)
    requires !(*v is Cons), !(*v is Null)
    ensures sb(r) == tok(irv(*v))
{ unimplemented!() }

// SPEC: the text each pending state stands for, and the text the whole stack still has to emit (top of the stack first)
pub open spec fn st_text(s: IROutputState) -> Seq<u8> {
    match s {
        IROutputState::Start(v) => show(irv(*v)),
        IROutputState::MaybeSep(v) => sep(irv(*v)),
        IROutputState::ListOf(v) => show_list(irv(*v)),
        IROutputState::DotThen(v) => (match irv(*v) { IRS::Cons(l, r) => show(*l) + show_list(*r), x => show(x) }),
        IROutputState::EndParen => seq![0x29u8],
    }
}
pub open spec fn pending(st: Seq<IROutputState>) -> Seq<u8>
    decreases st.len()
{
    if st.len() == 0 { Seq::<u8>::empty() } else { st_text(st.last()) + pending(st.drop_last()) }
}
pub proof fn lemma_pending_push(st: Seq<IROutputState>, s: IROutputState)
    ensures pending(st.push(s)) == st_text(s) + pending(st)
{
    assert(st.push(s).drop_last() =~= st);
}
// ---- termination of the chunk loop: a weight of the state stack that every call of next() that returns a chunk decreases
pub open spec fn sz(v: IRS) -> nat
    decreases v
{
    match v { IRS::Cons(l, r) => 1 + sz(*l) + sz(*r), _ => 1 }
}
pub open spec fn st_wt(s: IROutputState) -> nat {
    match s {
        IROutputState::Start(v) => (match irv(*v) { IRS::Cons(_, _) => 100 * sz(irv(*v)) + 60, _ => 1 }),
        IROutputState::ListOf(v) => (match irv(*v) { IRS::Cons(_, _) => 100 * sz(irv(*v)) + 50, IRS::Null => 2, _ => 10 }),
        IROutputState::MaybeSep(v) => (match irv(*v) { IRS::Cons(_, _) => 100 * sz(irv(*v)) + 55, IRS::Null => 2, _ => 11 }),
        IROutputState::DotThen(v) => (match irv(*v) { IRS::Cons(_, _) => 100 * sz(irv(*v)) + 55, _ => 5 }),
        IROutputState::EndParen => 1,
    }
}
pub open spec fn wt(st: Seq<IROutputState>) -> nat
    decreases st.len()
{
    if st.len() == 0 { 0 } else { st_wt(st.last()) + wt(st.drop_last()) }
}
pub proof fn lemma_wt_push(st: Seq<IROutputState>, s: IROutputState)
    ensures wt(st.push(s)) == st_wt(s) + wt(st)
{
    assert(st.push(s).drop_last() =~= st);
}
pub proof fn lemma_pending_one(st: Seq<IROutputState>)
    requires st.len() == 1
    ensures pending(st) == st_text(st[0])
{
    assert(st.drop_last() =~= Seq::<IROutputState>::empty());
    assert(pending(st.drop_last()) =~= Seq::<u8>::empty());
    assert(pending(st) =~= st_text(st[0]));
}
// steps the loop of next() can still take without emitting anything, by the state on top
pub open spec fn quiet_steps(st: Seq<IROutputState>) -> nat {
    if st.len() == 0 { 0 } else { match st.last() { IROutputState::Start(_) => 0, IROutputState::EndParen => 0, _ => 1 } }
}

impl IROutputIterator {
//@ extract fn new from src/classic/clvm_tools/ir/writer.rs in impl IROutputIterator
//@ replace R28 @<fn new(ir_sexp: Rc<IRRepr>) -> IROutputIterator {>@ => @<pub fn new(ir_sexp: Rc<IRRepr>) -> IROutputIterator {>@
//@ sig r
    ensures r.state@.len() == 1, r.state@[0] == IROutputState::Start(ir_sexp)
//@ end
//@ note IROutputIterator::next (the classic writer, C09): every chunk it returns is the next piece of show(term) -- the text still to be emitted shrinks by exactly that chunk -- and it returns None only when nothing is left; together with lemma parse_show (unit irparse) the printed text is read back as the same term
//@ extract fn next from src/classic/clvm_tools/ir/writer.rs in impl Iterator for IROutputIterator
//@ canary no_dot_blank @<return Some(verif_s_dot());>@ => @<return Some(verif_s_close());>@
//@ attr @<#[verifier::rlimit(200)]>@
//@ replace R28 @<fn next(&mut self) -> Option<Self::Item> {>@ => @<pub fn next(&mut self) -> Option<String> {>@
//@ replace R54 @<return Some(")".to_string());>@ => @<return Some(verif_s_close());>@
//@ replace R54 @<return Some("(".to_string());>@ => @<return Some(verif_s_open());>@
//@ replace R54 @<return Some("()".to_string());>@ => @<return Some(verif_s_nil());>@
//@ replace R54 @<return Some(" ".to_string());>@ => @<return Some(verif_s_blank());>@
//@ replace R54 @<return Some(". ".to_string());>@ => @<return Some(verif_s_dot());>@
//@ replace R54 @<return Some(q.to_formal_string());>@ => @<return Some(verif_tok(v.borrow()));>@
//@ replace-span R54 @<let opts = TConvertOption { signed: *signed };>@ @<return Some(bigint_from_bytes(i, Some(opts)).to_string());>@ => @<return Some(verif_tok(v.borrow()));>@
//@ replace R54 @<return Some("0x".to_string() + &h.hex());>@ => @<return Some(verif_tok(v.borrow()));>@
//@ replace R54 @<return Some(s.to_string());>@ => @<return Some(verif_tok(v.borrow()));>@
//@ sig r
    ensures
        match r {
            Some(chunk) => pending(old(self).state@) == sb(chunk) + pending(final(self).state@) && wt(final(self).state@) < wt(old(self).state@),
            None => pending(old(self).state@) == Seq::<u8>::empty() && final(self).state@.len() == 0,
        }
//@ loop 0
            invariant pending(self.state@) == pending(old(self).state@), wt(self.state@) <= wt(old(self).state@)
            decreases quiet_steps(self.state@)
//@ before stmt @<match self.state.pop() {>@
            let ghost verif_st0 = self.state@;
            let ghost verif_rest = self.state@.drop_last();
            proof { if verif_st0.len() > 0 { assert(pending(verif_st0) == st_text(verif_st0.last()) + pending(verif_rest)); assert(wt(verif_st0) == st_wt(verif_st0.last()) + wt(verif_rest)); } }
//@ before stmt @<return Some(verif_s_open());>@
                        proof {
                            let top = self.state@.last();
                            lemma_pending_push(verif_rest, top); lemma_wt_push(verif_rest, top);
                            assert(self.state@ =~= verif_rest.push(top));
                            let x = st_text(top);
                            assert(x == show_list(irv_r(&*v)));
                            assert(seq![0x28u8] + x + pending(verif_rest) =~= seq![0x28u8] + (x + pending(verif_rest)));
                        }
//@ after #0 stmt @<self.state.push(IROutputState::EndParen);>@
                        proof { lemma_pending_push(verif_rest, IROutputState::EndParen); lemma_wt_push(verif_rest, IROutputState::EndParen); assert(self.state@ =~= verif_rest.push(IROutputState::EndParen)); }
//@ before stmt @<return Some(verif_s_blank());>@
                        proof {
                            let top = self.state@.last();
                            lemma_pending_push(verif_rest, top); lemma_wt_push(verif_rest, top);
                            assert(self.state@ =~= verif_rest.push(top));
                            let x = st_text(top);
                            assert(seq![0x20u8] + x + pending(verif_rest) =~= seq![0x20u8] + (x + pending(verif_rest)));
                        }
//@ after #0 stmt @<self.state.push(IROutputState::Start(l.clone()));>@
                        proof {
                            let n = self.state@.len() as int;
                            let a = self.state@[n - 2];
                            let b = self.state@[n - 1];
                            lemma_pending_push(verif_rest, a);
                            lemma_pending_push(verif_rest.push(a), b);
                            lemma_wt_push(verif_rest, a);
                            lemma_wt_push(verif_rest.push(a), b);
                            assert(self.state@ =~= verif_rest.push(a).push(b));
                            assert(st_text(b) + (st_text(a) + pending(verif_rest)) =~= st_text(b) + st_text(a) + pending(verif_rest));
                        }
//@ after #1 stmt @<self.state.push(IROutputState::EndParen);>@
                        proof { lemma_pending_push(verif_rest, IROutputState::EndParen); lemma_wt_push(verif_rest, IROutputState::EndParen); assert(self.state@ =~= verif_rest.push(IROutputState::EndParen)); }
//@ before stmt @<return Some(verif_s_dot());>@
                        proof {
                            let n = self.state@.len() as int;
                            let a = self.state@[n - 2];
                            let b = self.state@[n - 1];
                            lemma_pending_push(verif_rest, a);
                            lemma_pending_push(verif_rest.push(a), b);
                            lemma_wt_push(verif_rest, a);
                            lemma_wt_push(verif_rest.push(a), b);
                            assert(self.state@ =~= verif_rest.push(a).push(b));
                            let t = tok(irv_r(&*v));
                            assert(st_text(b) == t);
                            assert(seq![0x2eu8, 0x20u8] + t + seq![0x29u8] + pending(verif_rest) =~= seq![0x2eu8, 0x20u8] + (t + (seq![0x29u8] + pending(verif_rest))));
                        }
//@ after #1 stmt @<self.state.push(IROutputState::Start(l.clone()));>@
                        proof {
                            let n = self.state@.len() as int;
                            let a = self.state@[n - 2];
                            let b = self.state@[n - 1];
                            lemma_pending_push(verif_rest, a);
                            lemma_pending_push(verif_rest.push(a), b);
                            lemma_wt_push(verif_rest, a);
                            lemma_wt_push(verif_rest.push(a), b);
                            assert(self.state@ =~= verif_rest.push(a).push(b));
                            assert(st_text(b) + (st_text(a) + pending(verif_rest)) =~= st_text(b) + st_text(a) + pending(verif_rest));
                        }
//@ after stmt @<self.state.push(IROutputState::Start(v.clone()));>@
                        proof { let b = self.state@.last(); lemma_pending_push(verif_rest, b); lemma_wt_push(verif_rest, b); assert(self.state@ =~= verif_rest.push(b)); }
//@ end
}

impl Stream {
// proved in unit `serloop` (same contract text)
//@ extract fn write from src/classic/clvm/__type_compatibility__.rs in impl Stream
//@ stub
//@ sigfile r contracts/stream_write.sig
//@ end
}
pub proof fn lemma_app3(a: Seq<u8>, b: Seq<u8>, c: Seq<u8>)
    ensures (a + b) + c == a + (b + c)
{ assert((a + b) + c =~= a + (b + c)); }

//@ note write_ir_to_stream (classic disassembler's text output): it appends exactly show(term) to a stream positioned at its end and terminates (a weight of the writer's state stack decreases with every chunk)
//@ extract fn write_ir_to_stream from src/classic/clvm_tools/ir/writer.rs
//@ replace-span R31 @<for b in IROutputIterator::new(ir_sexp) {>@ @<f.write(Bytes::new(Some(BytesFromType::String(b))));>@
    let ghost verif_d0 = stream_data(*f);
    let ghost verif_t = show(irv_r(&*ir_sexp));
    let mut verif_it = IROutputIterator::new(ir_sexp);
    proof { lemma_pending_one(verif_it.state@); assert(verif_d0 + verif_t =~= stream_data(*f) + pending(verif_it.state@)); }
    loop
        invariant_except_break
            stream_data(*f) + pending(verif_it.state@) == verif_d0 + verif_t,
        invariant
            stream_wf(*f), stream_at_end(*f), verif_d0.len() + verif_t.len() <= usize::MAX / 4,
        ensures
            stream_wf(*f), stream_at_end(*f), stream_data(*f) == verif_d0 + verif_t,
        decreases wt(verif_it.state@)
    {
        let ghost verif_before = pending(verif_it.state@);
        let verif_nx = verif_it.next();
        if verif_nx.is_none() { proof { assert(stream_data(*f) + Seq::<u8>::empty() =~= stream_data(*f)); } break; }
        let b = verif_nx.unwrap();
        proof {
            lemma_app3(stream_data(*f), sb(b), pending(verif_it.state@));
            assert((stream_data(*f) + verif_before).len() == stream_data(*f).len() + verif_before.len());
            assert(verif_before.len() == sb(b).len() + pending(verif_it.state@).len());
        }
        f.write(Bytes::new(Some(BytesFromType::String(b))));
//@ sig
    requires stream_wf(*old(f)), stream_at_end(*old(f)), stream_data(*old(f)).len() + show(irv(*ir_sexp)).len() <= usize::MAX / 4
    ensures stream_wf(*final(f)), stream_at_end(*final(f)), stream_data(*final(f)) == stream_data(*old(f)) + show(irv(*ir_sexp))
//@ end

}
fn main() {}
