#![feature(allocator_api)]
#![allow(unused_imports, dead_code, unused_variables, unused_mut, unused_parens)]
use vstd::prelude::*;
use vstd::arithmetic::power2::*;
use std::rc::Rc;
use std::borrow::Borrow;

verus! {
//@ include prelude/bigint.rs
//@ include spec/bytes.rs
//@ include prelude/misc.rs
//@ include prelude/bigint_bytes.rs
//@ include prelude/rc.rs
//@ include prelude/std.rs
//@ include units/inc/sexp_types.rs
//@ include spec/eval.rs
broadcast use {num_bigint::of_int_bi, num_bigint::bi_of_int};

// the CLVM value of an SExp in the fixed integer mode
pub open spec fn tv(s: SExp) -> Tree { tree_of(true, s) }

//@ extract fn bi_zero from src/classic/clvm/__type_compatibility__.rs
//@ stub
//@ replace R41 @<Number>@ => @<num_bigint::BigInt>@
//@ sig r
    ensures bi(r) == 0
//@ end

impl SExp {
//@ note atomize: integers and quoted strings become plain atoms with the same bytes; everything else is unchanged
//@ extract fn atomize from src/compiler/sexp.rs in impl SExp
//@ sig r
    ensures match *self {
        SExp::Integer(l, i) => r matches SExp::Atom(_, v) && v@ == u8n(bi(i)),
        SExp::QuotedString(l, _, a) => r matches SExp::Atom(_, v) && v@ == a@,
        _ => r == *self,
    }
//@ end
}

//@ note null_optimization: replacing (q) by () outside quoted data keeps the value of the code in every environment -- as an expression when spine is false, as an operand list when spine is true (the quote test is skipped at a spine position, so a caller holding an EXPRESSION must pass false)
//@ extract fn null_optimization from src/compiler/optimize/mod.rs
//@ canary descend_into_quote @<if b_empty {>@ => @<if b_empty || true {>@
//@ replace R7 @<(name == vec![1] || name == b"q")>@ => @<(verif_vec_is_single(&name, 1) || verif_vec_is_single(&name, b'q'))>@
//@ sig r
    requires !spine ==> wf_expr(tv(*sexp)), spine ==> wf_list(tv(*sexp)),
    ensures
        !spine ==> same_value(tv(*r.1), tv(*sexp)),
        spine ==> same_operands(tv(*r.1), tv(*sexp)),
        !(*sexp is Cons) ==> r.1 == sexp,
        !r.0 ==> r.1 == sexp,
        // at a spine position the pair is kept: its head is optimised as an expression, its tail as operands
        spine ==> (*sexp matches SExp::Cons(_, a, b) ==> (*r.1 matches SExp::Cons(_, a2, b2) && same_value(tv(*a2), tv(*a)) && same_operands(tv(*b2), tv(*b)) && (!(*a is Cons) ==> a2 == a))),
    decreases *sexp
//@ before stmt @<if let SExp::Cons(l, a, b) = sexp.borrow()>@
        proof { lemma_u8n_one(); broadcast use axiom_nil_evaluates_to_nil; }
//@ before stmt @<if b_empty {>@
                proof {
                    assert(name@ =~= seq![1u8] || name@ =~= seq![0x71u8]);
                    lemma_head_bytes(&**a, name@);
                    assert(name@ == seq![1u8]);     // 0x71 heads are excluded by wf_expr
                    assert(tv(*sexp) == Tree::Pair(Box::new(quote_atom()), Box::new(tv(**b))));
                    if b_empty {
                        lemma_empty_is_nil(&**b);
                        assert(tv(**b) == tnil());
                        assert forall|env: Tree| #[trigger] eval(tv(**b), env) == eval(tv(*sexp), env) by { }
                    }
                }
//@ before stmt @<let (oa, opt_a)>@
        proof {
            assert(tv(*sexp) == Tree::Pair(Box::new(tv(**a)), Box::new(tv(**b))));
            if !spine { assert(tv(**a) is Atom); assert(tv(**a) != quote_atom()); }
        }
//@ before stmt @<if oa || ob {>@
        proof {
            let res = Tree::Pair(Box::new(tvr(&*opt_a)), Box::new(tvr(&*opt_b)));
            if !spine {
                assert(opt_a == *a);
                assert forall|env: Tree| #[trigger] eval(res, env) == eval(tv(*sexp), env) by {
                    assert(eval_list(tv(*opt_b), env) == eval_list(tv(**b), env));
                    assert(eval(res, env) == op_apply(tv(**a), eval_list(tv(*opt_b), env)));
                    assert(eval(tv(*sexp), env) == op_apply(tv(**a), eval_list(tv(**b), env)));
                }
            } else {
                assert forall|env: Tree| #[trigger] eval_list(res, env) == eval_list(tv(*sexp), env) by {
                    assert(eval_list(tv(*opt_b), env) == eval_list(tv(**b), env));
                    assert(eval(tv(*opt_a), env) == eval(tv(**a), env));
                    assert(eval_list(res, env) == seq![eval(tv(*opt_a), env)] + eval_list(tv(*opt_b), env));
                    assert(eval_list(tv(*sexp), env) == seq![eval(tv(**a), env)] + eval_list(tv(**b), env));
                }
            }
        }
//@ end

//@ note null_optimization_of_code: generated code (an expression) keeps its value in every environment; a quoted constant is returned untouched
//@ extract fn null_optimization_of_code from src/compiler/optimize/mod.rs
//@ canary quote_test_dropped @<return (false, code);>@ => @<let _ = 0;>@
//@ replace R7 @<name == vec![1] || name == b"q">@ => @<verif_vec_is_single(&name, 1) || verif_vec_is_single(&name, b'q')>@
//@ sig r
    requires wf_expr(tv(*code))
    ensures same_value(tv(*r.1), tv(*code)), !r.0 ==> r.1 == code
//@ before stmt @<if let SExp::Cons(_, a, _) = code.borrow()>@
        proof { lemma_u8n_one(); }
        let ghost verif_code = code;
//@ replace R24 @<    null_optimization(code, true)>@ => @<    proof { lemma_not_quoted_code(&*code); } let verif_r = null_optimization(code, true); proof { lemma_code_from_operands(&*verif_code, &*verif_r.1); } verif_r>@
//@ end
// ASSUMED contracts (not under proof here): the two later passes keep the value of the code they are given.
// For remove_double_apply `spine == true` marks an EXPRESSION position (the opposite convention of null_optimization).
//@ extract fn remove_double_apply from src/compiler/optimize/double_apply.rs
//@ stub
//@ sig r
    ensures spine ==> same_value(tv(*r.1), tv(*sexp)), !r.0 ==> r.1 == sexp
//@ end
//@ extract fn brief_path_selection from src/compiler/optimize/brief.rs
//@ stub
//@ sig r
    ensures same_value(tv(*r.1), tv(*body)), !r.0 ==> r.1 == body
//@ end
//@ extract struct CompileErr from src/compiler/comptypes.rs
//@ end
//@ extract struct Strategy23 from src/compiler/optimize/above22.rs
//@ end
// R42: parameters the two functions below never use (allocator, runner, options, helper form) get a unit stand-in type
pub struct VerifUnused { pub x: u8 }

impl Strategy23 {
//@ note Strategy23::post_codegen_function_optimize (cl23+): the optimised body of every function computes the same value as the generated body, in every environment (given the assumed contracts of remove_double_apply and brief_path_selection)
//@ extract fn post_codegen_function_optimize from src/compiler/optimize/above22.rs in impl Optimization for Strategy23
//@ replace R42 @<&mut Allocator>@ => @<&mut VerifUnused>@
//@ replace R42 @<Rc<dyn TRunProgram>>@ => @<Rc<VerifUnused>>@
//@ replace R42 @<Rc<dyn CompilerOpts>>@ => @<Rc<VerifUnused>>@
//@ replace R42 @<Option<&HelperForm>>@ => @<Option<&VerifUnused>>@
//@ sig r
    requires wf_expr(tv(*code))
    ensures r matches Ok(x) && same_value(tv(*x), tv(*code))
//@ before tail
        proof { lemma_same_value_chain(tvr(&*code), tvr(&*result), tvr(&*dbl_result), tvr(&*brief_result)); }
//@ end
//@ note Strategy23::post_codegen_output_optimize (cl23+): the same for the whole emitted program
//@ extract fn post_codegen_output_optimize from src/compiler/optimize/above22.rs in impl Optimization for Strategy23
//@ replace R42 @<Rc<dyn CompilerOpts>>@ => @<Rc<VerifUnused>>@
//@ sig r
    requires wf_expr(tv(generated))
    ensures r matches Ok(x) && same_value(tv(x), tv(generated))
//@ before tail
        proof { lemma_same_value_chain(tvr(&generated), tvr(&*result), tvr(&*dbl_result), tvr(&*brief_result)); }
//@ end
}
pub proof fn lemma_same_value_chain(a: Tree, b: Tree, c: Tree, d: Tree)
    requires same_value(b, a), same_value(c, b), same_value(d, c)
    ensures same_value(d, a)
{
    assert forall|env: Tree| #[trigger] eval(d, env) == eval(a, env) by {
        assert(eval(b, env) == eval(a, env)); assert(eval(c, env) == eval(b, env)); assert(eval(d, env) == eval(c, env));
    }
}
// code whose operator is an atom other than the quote atom: well formed as an operand list too
pub proof fn lemma_not_quoted_code(code: &SExp)
    requires wf_expr(tv(*code)), *code matches SExp::Cons(_, a, _) ==> tv(*a) != quote_atom()
    ensures wf_list(tv(*code))
{
    match *code { SExp::Cons(_, a, b) => { assert(tv(*code) == Tree::Pair(Box::new(tv(*a)), Box::new(tv(*b)))); assert(tv(*a) is Atom); assert(wf_expr(tv(*a))); assert(wf_list(tv(*b))); } _ => { assert(tv(*code) is Atom); } }
}
// ... and what null_optimization returns for it at a spine position has the same value as an expression
pub proof fn lemma_code_from_operands(code: &SExp, res: &SExp)
    requires
        wf_expr(tv(*code)), *code matches SExp::Cons(_, a, _) ==> tv(*a) != quote_atom(),
        !(*code is Cons) ==> *res == *code,
        *code matches SExp::Cons(_, a, b) ==> (*res matches SExp::Cons(_, a2, b2) && same_operands(tv(*b2), tv(*b)) && (!(*a is Cons) ==> a2 == a)),
    ensures same_value(tv(*res), tv(*code))
{
    match (*code, *res) {
        (SExp::Cons(_, a, b), SExp::Cons(_, a2, b2)) => {
            assert(tv(*code) == Tree::Pair(Box::new(tv(*a)), Box::new(tv(*b))));
            assert(tv(*a) is Atom);
            assert(a2 == a);
            assert(tv(*res) == Tree::Pair(Box::new(tv(*a)), Box::new(tv(*b2))));
            assert forall|env: Tree| #[trigger] eval(tv(*res), env) == eval(tv(*code), env) by {
                assert(eval_list(tv(*b2), env) == eval_list(tv(*b), env));
            }
        }
        _ => {}
    }
}
pub proof fn lemma_u8n_one()
    ensures u8n(1) == seq![1u8], u8n(0x71) == seq![0x71u8]
{
    lemma_be_single(1u8); lemma_be_single(0x71u8);
    assert(be_signed(seq![1u8]) == 1);
    assert(be_signed(seq![0x71u8]) == 0x71);
    axiom_signed_unique(seq![1u8]);
    axiom_signed_unique(seq![0x71u8]);
}
// the head of a form: its atomised bytes are the bytes of its CLVM value unless it is the integer zero
pub open spec fn tvr(s: &SExp) -> Tree { tv(*s) }
pub proof fn lemma_empty_is_nil(b: &SExp)
    requires match *b { SExp::Atom(_, t) => t@.len() == 0, SExp::QuotedString(_, _, q) => q@.len() == 0, SExp::Integer(_, i) => bi(i) == 0, SExp::Nil(_) => true, _ => false }
    ensures tv(*b) == tnil()
{
    match *b {
        SExp::Atom(_, t) => { assert(t@ =~= Seq::<u8>::empty()); }
        SExp::QuotedString(_, _, q) => { assert(q@ =~= Seq::<u8>::empty()); }
        _ => {}
    }
}
pub proof fn lemma_head_bytes(a: &SExp, name: Seq<u8>)
    requires match *a { SExp::Integer(_, i) => name == u8n(bi(i)), SExp::QuotedString(_, _, v) => name == v@, SExp::Atom(_, v) => name == v@, _ => false },
        name == seq![1u8] || name == seq![0x71u8]
    ensures tv(*a) == Tree::Atom(name)
{
    lemma_u8n_one();
    match *a {
        SExp::Integer(_, i) => { if bi(i) == 0 { assert(u8n(0)[0] == 0u8); assert(name[0] != 0u8); } }
        _ => {}
    }
}
}
fn main() {}
