// E3 replay harness: executable transcriptions of the spec functions and small
// deterministic enumerators.  Used only after a verifier refuted an obligation,
// to produce a concrete input that reproduces on the real code.  Not a
// deciding step.
use num_bigint::BigInt;
use num_traits::{One, Zero};
use serde_json::{json, Value};
use std::panic;

mod specs;
mod searches;

fn main() {
    let args: Vec<String> = std::env::args().collect();
    panic::set_hook(Box::new(|_| {}));
    if args.get(1).map(|s| s.as_str()) == Some("child_include") {
        std::process::exit(searches::include_child(args.get(2).map(|s| s.as_str()).unwrap_or(""), args.get(3).map(|s| s.as_str()).unwrap_or("")));
    }
    if args.get(1).map(|s| s.as_str()) == Some("child_compile") {
        std::process::exit(searches::compile_child(args.get(2).map(|s| s.as_str()).unwrap_or("")));
    }
    let res: Value = match args.get(1).map(|s| s.as_str()) {
        Some("search") => searches::search(&args[2], args.get(3).and_then(|s| s.parse().ok()).unwrap_or(0)),
        Some("input") => searches::run_input(&args[2], &serde_json::from_str(&args[3]).unwrap_or(Value::Null)),
        Some("confirm") => searches::confirm(&args[2]),
        _ => json!({"found": false, "how": "usage: search <fn> <seed> | input <fn> <json> | confirm <finding>"}),
    };
    println!("{}", res);
    let _ = (BigInt::zero(), BigInt::one());
}
