use crate::specs::*;
use num_bigint::{BigInt, ToBigInt};
use serde_json::{json, Value};
use std::panic::catch_unwind;

fn big(v: &Value) -> BigInt { v.as_str().and_then(|s| s.parse().ok()).unwrap_or_else(|| 0.to_bigint().unwrap()) }
fn bytes(v: &Value) -> Vec<u8> { v.as_array().map(|a| a.iter().map(|x| x.as_u64().unwrap_or(0) as u8).collect()).unwrap_or_default() }

fn nf(how: &str) -> Value { json!({"found": false, "how": how}) }
fn hit(input: Value, expected: String, observed: String, how: &str) -> Value {
    json!({"found": true, "engine": "E3 enumerator on the real crate", "input": input, "expected": expected, "observed": observed, "how": how})
}

// ---- compose_paths: r == compose(p, q) for p, q >= 1
fn chk_compose_paths(p: &BigInt, q: &BigInt) -> Option<Value> {
    use chialisp::classic::clvm_tools::node_path::compose_paths;
    let (pp, qq) = (p.clone(), q.clone());
    let got = catch_unwind(move || compose_paths(&pp, &qq));
    let want = compose(p, q);
    match got {
        Ok(g) if g == want => None,
        Ok(g) => Some(hit(json!({"p": p.to_string(), "q": q.to_string()}), want.to_string(), g.to_string(), "compose_paths(p, q) vs compose spec")),
        Err(_) => Some(hit(json!({"p": p.to_string(), "q": q.to_string()}), want.to_string(), "panic".into(), "compose_paths(p, q) panicked")),
    }
}

// ---- deserialiser vs consensus: tool Ok(v) => consensus Ok(same bytes); consensus Err => tool Err
fn tool_deser(data: &[u8]) -> Option<Vec<u8>> {
    use chialisp::classic::clvm::__type_compatibility__::{Bytes, BytesFromType, Stream};
    use chialisp::classic::clvm::serialize::{sexp_from_stream, SimpleCreateCLVMObject};
    let d = data.to_vec();
    catch_unwind(move || {
        let mut a = clvmr::Allocator::new();
        let mut st = Stream::new(Some(Bytes::new(Some(BytesFromType::Raw(d)))));
        match sexp_from_stream(&mut a, &mut st, Box::new(SimpleCreateCLVMObject {})) {
            Ok(r) => clvmr::serde::node_to_bytes(&a, r.1).ok(),
            Err(_) => None,
        }
    }).unwrap_or(Some(b"<panic>".to_vec()))
}
fn consensus_deser(data: &[u8]) -> Option<Vec<u8>> {
    let mut a = clvmr::Allocator::new();
    match clvmr::serde::node_from_bytes(&mut a, data) {
        Ok(n) => clvmr::serde::node_to_bytes(&a, n).ok(),
        Err(_) => None,
    }
}
fn chk_deser(data: &[u8]) -> Option<Value> {
    let t = tool_deser(data);
    let c = consensus_deser(data);
    let bad = match (&t, &c) { (Some(tv), Some(cv)) => tv != cv, (Some(_), None) => true, _ => false };
    if bad {
        Some(hit(json!({"bytes": data}), format!("consensus: {:?}", c), format!("tool: {:?}", t), "sexp_from_stream vs clvmr node_from_bytes on the same bytes"))
    } else { None }
}
fn deser_inputs() -> Vec<Vec<u8>> {
    let mut v: Vec<Vec<u8>> = vec![];
    for b in 0u16..=0xff {
        for tail in [vec![], vec![0u8], vec![1u8, 0x41], vec![0, 1, 0x41], vec![0, 0, 1, 0x41], vec![0, 0, 0, 1, 0x41],
                     vec![0, 0, 0, 0, 1, 0x41], vec![0, 0, 0, 0, 0, 1, 0x41], vec![0, 0, 0, 0, 0, 0, 1, 0x41], vec![0x80, 0x80]] {
            let mut d = vec![b as u8];
            d.extend(tail);
            v.push(d);
        }
    }
    // every length class, exact / truncated
    for n in [0usize, 1, 0x3f, 0x40, 0x1fff, 0x2000, 0xfffff, 0x100000] {
        let mut a = clvmr::Allocator::new();
        let node = a.new_atom(&vec![0xaa; n]).unwrap();
        let enc = clvmr::serde::node_to_bytes(&a, node).unwrap();
        v.push(enc.clone());
        if enc.len() > 1 { v.push(enc[..enc.len() - 1].to_vec()); }
    }
    v
}

pub fn search(name: &str, _seed: u64) -> Value {
    match name {
        "atom_from_stream" | "sexp_from_stream" | "int_from_bytes" | "get_u32" | "read" => {
            for d in deser_inputs() { if let Some(v) = chk_deser(&d) { return v; } }
            nf("sexp_from_stream agrees with clvmr node_from_bytes on the enumerated byte strings")
        }
        "compose_paths" => {
            for p in 1..200 { for q in 1..200 {
                if let Some(v) = chk_compose_paths(&p.to_bigint().unwrap(), &q.to_bigint().unwrap()) { return v; }
            } }
            nf("compose_paths agrees with compose for all 1 <= p, q < 200")
        }
        _ => nf("no enumerator for this obligation"),
    }
}

pub fn run_input(name: &str, input: &Value) -> Value {
    match name {
        "atom_from_stream" | "sexp_from_stream" | "int_from_bytes" | "get_u32" | "read" => chk_deser(&bytes(&input["bytes"])).unwrap_or_else(|| nf("input does not violate the contract on this tree")),
        "compose_paths" => chk_compose_paths(&big(&input["p"]), &big(&input["q"])).unwrap_or_else(|| nf("input does not violate the contract on this tree")),
        _ => nf("no replayer for this obligation"),
    }
}

pub fn confirm(_id: &str) -> Value {
    nf("no such finding")
}
