use crate::specs::*;
use num_bigint::{BigInt, ToBigInt};
use serde_json::{json, Value};
use std::panic::catch_unwind;

fn big(v: &Value) -> BigInt { v.as_str().and_then(|s| s.parse().ok()).unwrap_or_else(|| 0.to_bigint().unwrap()) }
fn bytes(v: &Value) -> Vec<u8> { v.as_array().map(|a| a.iter().map(|x| x.as_u64().unwrap_or(0) as u8).collect()).unwrap_or_default() }

fn nf(how: &str) -> Value { json!({"found": false, "how": how}) }
fn hit(input: Value, expected: String, observed: String, how: &str) -> Value {
    json!({"found": true, "engine": "E3 enumerator on the real crate", "input": input, "expected": expected, "observed": observed, "how": how})
}

// ---- compose_paths: r == compose(p, q) for p, q >= 1
fn chk_compose_paths(p: &BigInt, q: &BigInt) -> Option<Value> {
    use chialisp::classic::clvm_tools::node_path::compose_paths;
    let (pp, qq) = (p.clone(), q.clone());
    let got = catch_unwind(move || compose_paths(&pp, &qq));
    let want = compose(p, q);
    match got {
        Ok(g) if g == want => None,
        Ok(g) => Some(hit(json!({"p": p.to_string(), "q": q.to_string()}), want.to_string(), g.to_string(), "compose_paths(p, q) vs compose spec")),
        Err(_) => Some(hit(json!({"p": p.to_string(), "q": q.to_string()}), want.to_string(), "panic".into(), "compose_paths(p, q) panicked")),
    }
}

// ---- deserialiser vs consensus: tool Ok(v) => consensus Ok(same bytes); consensus Err => tool Err
fn tool_deser(data: &[u8]) -> Option<Vec<u8>> {
    use chialisp::classic::clvm::__type_compatibility__::{Bytes, BytesFromType, Stream};
    use chialisp::classic::clvm::serialize::{sexp_from_stream, SimpleCreateCLVMObject};
    let d = data.to_vec();
    catch_unwind(move || {
        let mut a = clvmr::Allocator::new();
        let mut st = Stream::new(Some(Bytes::new(Some(BytesFromType::Raw(d)))));
        match sexp_from_stream(&mut a, &mut st, Box::new(SimpleCreateCLVMObject {})) {
            Ok(r) => clvmr::serde::node_to_bytes(&a, r.1).ok(),
            Err(_) => None,
        }
    }).unwrap_or(Some(b"<panic>".to_vec()))
}
fn consensus_deser(data: &[u8]) -> Option<Vec<u8>> {
    let mut a = clvmr::Allocator::new();
    match clvmr::serde::node_from_bytes(&mut a, data) {
        Ok(n) => clvmr::serde::node_to_bytes(&a, n).ok(),
        Err(_) => None,
    }
}
fn chk_deser(data: &[u8]) -> Option<Value> {
    let t = tool_deser(data);
    let c = consensus_deser(data);
    let bad = match (&t, &c) { (Some(tv), Some(cv)) => tv != cv, (Some(_), None) => true, _ => false };
    if bad {
        Some(hit(json!({"bytes": data}), format!("consensus: {:?}", c), format!("tool: {:?}", t), "sexp_from_stream vs clvmr node_from_bytes on the same bytes"))
    } else { None }
}
fn deser_inputs() -> Vec<Vec<u8>> {
    let mut v: Vec<Vec<u8>> = vec![];
    for b in 0u16..=0xff {
        for tail in [vec![], vec![0u8], vec![1u8, 0x41], vec![0, 1, 0x41], vec![0, 0, 1, 0x41], vec![0, 0, 0, 1, 0x41],
                     vec![0, 0, 0, 0, 1, 0x41], vec![0, 0, 0, 0, 0, 1, 0x41], vec![0, 0, 0, 0, 0, 0, 1, 0x41], vec![0x80, 0x80]] {
            let mut d = vec![b as u8];
            d.extend(tail);
            v.push(d);
        }
    }
    // every length class, exact / truncated
    for n in [0usize, 1, 0x3f, 0x40, 0x1fff, 0x2000, 0xfffff, 0x100000] {
        let mut a = clvmr::Allocator::new();
        let node = a.new_atom(&vec![0xaa; n]).unwrap();
        let enc = clvmr::serde::node_to_bytes(&a, node).unwrap();
        v.push(enc.clone());
        if enc.len() > 1 { v.push(enc[..enc.len() - 1].to_vec()); }
    }
    v
}

// ---- stepping evaluator vs consensus evaluator on (program, env) given as CLVM bytes
fn build_tree(a: &mut clvmr::Allocator, depth: usize, tag: &mut u8) -> clvmr::NodePtr {
    if depth == 0 { *tag = tag.wrapping_add(1); let t = [b'a' + (*tag % 26), *tag]; return a.new_atom(&t).unwrap(); }
    let l = build_tree(a, depth - 1, tag);
    let r = build_tree(a, depth - 1, tag);
    a.new_pair(l, r).unwrap()
}
fn comb(a: &mut clvmr::Allocator, n: usize, right: bool) -> clvmr::NodePtr {
    let mut t = a.new_atom(b"end").unwrap();
    for i in 0..n {
        let leaf = a.new_atom(&[b'A' + (i % 26) as u8, i as u8]).unwrap();
        t = if right { a.new_pair(leaf, t).unwrap() } else { a.new_pair(t, leaf).unwrap() };
    }
    t
}
fn step_vs_consensus(prog: &[u8], envsel: u8) -> Option<Value> {
    use chialisp::classic::clvm_tools::stages::stage_0::{DefaultProgramRunner, TRunProgram};
    use chialisp::compiler::clvm::{convert_from_clvm_rs, convert_to_clvm_rs, run};
    use chialisp::compiler::prims::prim_map;
    use chialisp::compiler::srcloc::Srcloc;
    use std::rc::Rc;
    let prog = prog.to_vec();
    let res = catch_unwind(move || {
        let mut a = clvmr::Allocator::new();
        let p = match clvmr::serde::node_from_bytes(&mut a, &prog) { Ok(p) => p, Err(_) => return None };
        let mut tag = 0u8;
        let env = match envsel { 0 => build_tree(&mut a, 4, &mut tag), 1 => comb(&mut a, 20, true), 2 => comb(&mut a, 20, false), _ => a.nil() };
        let runner = Rc::new(DefaultProgramRunner::new());
        let cons = runner.run_program(&mut a, p, env, None).ok().and_then(|r| clvmr::serde::node_to_bytes(&a, r.1).ok());
        let loc = Srcloc::start("*replay*");
        let sp = convert_from_clvm_rs(&mut a, loc.clone(), p).ok()?;
        let se = convert_from_clvm_rs(&mut a, loc, env).ok()?;
        let stepped = run(&mut a, runner, prim_map(), sp, se, None, Some(100000)).ok()
            .and_then(|v| convert_to_clvm_rs(&mut a, v).ok()).and_then(|n| clvmr::serde::node_to_bytes(&a, n).ok());
        Some((cons, stepped))
    });
    match res {
        Ok(Some((c, s))) if c != s => Some(hit(json!({"program_bytes": prog_hex(&c, &s), "env": envsel}), format!("consensus: {:?}", c), format!("stepper: {:?}", s), "compiler::clvm::run vs clvmr run_program on the same program and env")),
        Err(_) => Some(hit(json!({"env": envsel}), "no panic".into(), "panic".into(), "stepper panicked")),
        _ => None,
    }
}
fn prog_hex(_c: &Option<Vec<u8>>, _s: &Option<Vec<u8>>) -> String { String::new() }
fn stepper_programs() -> Vec<Vec<u8>> {
    let mut v: Vec<Vec<u8>> = vec![];
    // path atoms: one byte, two bytes (incl. non-minimal and sign-extended), three bytes
    for b in 0u16..=0xff { v.push(if b == 0 { vec![0x00] } else if b < 0x80 { vec![b as u8] } else { vec![0x81, b as u8] }); }
    for hi in [0x00u8, 0x01, 0x7f, 0x80, 0xff] { for lo in [0x00u8, 0x01, 0x02, 0x7f, 0x80, 0xfe, 0xff] { v.push(vec![0x82, hi, lo]); } }
    v.push(vec![0x83, 0x00, 0x00, 0x00]); v.push(vec![0x83, 0x00, 0xff, 0xff]); v.push(vec![0x83, 0xff, 0xff, 0xff]);
    // a few operator programs: (q . 1), (f 1), (r 1), (c 2 3), (i 2 5 7), (a 2 3), (+ 5 11)
    for hex in ["ff0101", "ff05ff0180", "ff06ff0180", "ff04ff02ff0380", "ff03ff02ff05ff0780", "ff02ff02ff0380", "ff10ff05ff0b80", "ff8200ffff0180", "ff01", "ff80ff0180"] {
        v.push((0..hex.len() / 2).map(|i| u8::from_str_radix(&hex[2 * i..2 * i + 2], 16).unwrap()).collect());
    }
    v
}

pub fn search(name: &str, _seed: u64) -> Value {
    match name {
        "choose_path" | "flatten_signed_int" | "truthy" | "atom_value" | "run_step" | "combine" | "eval_args" | "generate_argument_refs" => {
            for p in stepper_programs() { for e in 0..4u8 {
                if let Some(mut v) = step_vs_consensus(&p, e) { v["input"] = json!({"program": p, "env": e}); return v; }
            } }
            nf("stepper agrees with clvmr run_program on the enumerated programs x 4 environments")
        }
        "atom_from_stream" | "sexp_from_stream" | "int_from_bytes" | "get_u32" | "read" => {
            for d in deser_inputs() { if let Some(v) = chk_deser(&d) { return v; } }
            nf("sexp_from_stream agrees with clvmr node_from_bytes on the enumerated byte strings")
        }
        "compose_paths" => {
            for p in 1..200 { for q in 1..200 {
                if let Some(v) = chk_compose_paths(&p.to_bigint().unwrap(), &q.to_bigint().unwrap()) { return v; }
            } }
            nf("compose_paths agrees with compose for all 1 <= p, q < 200")
        }
        _ => nf("no enumerator for this obligation"),
    }
}

pub fn run_input(name: &str, input: &Value) -> Value {
    match name {
        "choose_path" | "flatten_signed_int" | "truthy" | "atom_value" | "run_step" | "combine" | "eval_args" | "generate_argument_refs" =>
            step_vs_consensus(&bytes(&input["program"]), input["env"].as_u64().unwrap_or(0) as u8).unwrap_or_else(|| nf("input does not violate the contract on this tree")),
        "atom_from_stream" | "sexp_from_stream" | "int_from_bytes" | "get_u32" | "read" => chk_deser(&bytes(&input["bytes"])).unwrap_or_else(|| nf("input does not violate the contract on this tree")),
        "compose_paths" => chk_compose_paths(&big(&input["p"]), &big(&input["q"])).unwrap_or_else(|| nf("input does not violate the contract on this tree")),
        _ => nf("no replayer for this obligation"),
    }
}

pub fn confirm(_id: &str) -> Value {
    nf("no such finding")
}
