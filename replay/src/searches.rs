use crate::specs::*;
use num_bigint::{BigInt, ToBigInt};
use serde_json::{json, Value};
use std::panic::catch_unwind;

fn big(v: &Value) -> BigInt { v.as_str().and_then(|s| s.parse().ok()).unwrap_or_else(|| 0.to_bigint().unwrap()) }
fn bytes(v: &Value) -> Vec<u8> { v.as_array().map(|a| a.iter().map(|x| x.as_u64().unwrap_or(0) as u8).collect()).unwrap_or_default() }

fn nf(how: &str) -> Value { json!({"found": false, "how": how}) }
fn hit(input: Value, expected: String, observed: String, how: &str) -> Value {
    json!({"found": true, "engine": "E3 enumerator on the real crate", "input": input, "expected": expected, "observed": observed, "how": how})
}

// ---- compose_paths: r == compose(p, q) for p, q >= 1
fn chk_compose_paths(p: &BigInt, q: &BigInt) -> Option<Value> {
    use chialisp::classic::clvm_tools::node_path::compose_paths;
    let (pp, qq) = (p.clone(), q.clone());
    let got = catch_unwind(move || compose_paths(&pp, &qq));
    let want = compose(p, q);
    match got {
        Ok(g) if g == want => None,
        Ok(g) => Some(hit(json!({"p": p.to_string(), "q": q.to_string()}), want.to_string(), g.to_string(), "compose_paths(p, q) vs compose spec")),
        Err(_) => Some(hit(json!({"p": p.to_string(), "q": q.to_string()}), want.to_string(), "panic".into(), "compose_paths(p, q) panicked")),
    }
}

pub fn search(name: &str, _seed: u64) -> Value {
    match name {
        "compose_paths" => {
            for p in 1..200 { for q in 1..200 {
                if let Some(v) = chk_compose_paths(&p.to_bigint().unwrap(), &q.to_bigint().unwrap()) { return v; }
            } }
            nf("compose_paths agrees with compose for all 1 <= p, q < 200")
        }
        _ => nf("no enumerator for this obligation"),
    }
}

pub fn run_input(name: &str, input: &Value) -> Value {
    match name {
        "compose_paths" => chk_compose_paths(&big(&input["p"]), &big(&input["q"])).unwrap_or_else(|| nf("input does not violate the contract on this tree")),
        _ => nf("no replayer for this obligation"),
    }
}

pub fn confirm(_id: &str) -> Value {
    nf("no such finding")
}
