use crate::specs::*;
use num_bigint::{BigInt, ToBigInt};
use serde_json::{json, Value};
use std::panic::catch_unwind;

fn big(v: &Value) -> BigInt { v.as_str().and_then(|s| s.parse().ok()).unwrap_or_else(|| 0.to_bigint().unwrap()) }
fn bytes(v: &Value) -> Vec<u8> { v.as_array().map(|a| a.iter().map(|x| x.as_u64().unwrap_or(0) as u8).collect()).unwrap_or_default() }

fn nf(how: &str) -> Value { json!({"found": false, "how": how}) }
fn hit(input: Value, expected: String, observed: String, how: &str) -> Value {
    json!({"found": true, "engine": "E3 enumerator on the real crate", "input": input, "expected": expected, "observed": observed, "how": how})
}

// ---- compose_paths: r == compose(p, q) for p, q >= 1
fn chk_compose_paths(p: &BigInt, q: &BigInt) -> Option<Value> {
    use chialisp::classic::clvm_tools::node_path::compose_paths;
    let (pp, qq) = (p.clone(), q.clone());
    let got = catch_unwind(move || compose_paths(&pp, &qq));
    let want = compose(p, q);
    match got {
        Ok(g) if g == want => None,
        Ok(g) => Some(hit(json!({"p": p.to_string(), "q": q.to_string()}), want.to_string(), g.to_string(), "compose_paths(p, q) vs compose spec")),
        Err(_) => Some(hit(json!({"p": p.to_string(), "q": q.to_string()}), want.to_string(), "panic".into(), "compose_paths(p, q) panicked")),
    }
}

// ---- deserialiser vs consensus: tool Ok(v) => consensus Ok(same bytes); consensus Err => tool Err
fn tool_deser(data: &[u8]) -> Option<Vec<u8>> {
    use chialisp::classic::clvm::__type_compatibility__::{Bytes, BytesFromType, Stream};
    use chialisp::classic::clvm::serialize::{sexp_from_stream, SimpleCreateCLVMObject};
    let d = data.to_vec();
    catch_unwind(move || {
        let mut a = clvmr::Allocator::new();
        let mut st = Stream::new(Some(Bytes::new(Some(BytesFromType::Raw(d)))));
        match sexp_from_stream(&mut a, &mut st, Box::new(SimpleCreateCLVMObject {})) {
            Ok(r) => clvmr::serde::node_to_bytes(&a, r.1).ok(),
            Err(_) => None,
        }
    }).unwrap_or(Some(b"<panic>".to_vec()))
}
fn consensus_deser(data: &[u8]) -> Option<Vec<u8>> {
    let mut a = clvmr::Allocator::new();
    match clvmr::serde::node_from_bytes(&mut a, data) {
        Ok(n) => clvmr::serde::node_to_bytes(&a, n).ok(),
        Err(_) => None,
    }
}
fn chk_deser(data: &[u8]) -> Option<Value> {
    let t = tool_deser(data);
    let c = consensus_deser(data);
    let bad = match (&t, &c) { (Some(tv), Some(cv)) => tv != cv, (Some(_), None) => true, _ => false };
    if bad {
        Some(hit(json!({"bytes": data}), format!("consensus: {:?}", c), format!("tool: {:?}", t), "sexp_from_stream vs clvmr node_from_bytes on the same bytes"))
    } else { None }
}
fn deser_inputs() -> Vec<Vec<u8>> {
    let mut v: Vec<Vec<u8>> = vec![];
    for b in 0u16..=0xff {
        for tail in [vec![], vec![0u8], vec![1u8, 0x41], vec![0, 1, 0x41], vec![0, 0, 1, 0x41], vec![0, 0, 0, 1, 0x41],
                     vec![0, 0, 0, 0, 1, 0x41], vec![0, 0, 0, 0, 0, 1, 0x41], vec![0, 0, 0, 0, 0, 0, 1, 0x41], vec![0x80, 0x80]] {
            let mut d = vec![b as u8];
            d.extend(tail);
            v.push(d);
        }
    }
    // every length class, exact / truncated
    for n in [0usize, 1, 0x3f, 0x40, 0x1fff, 0x2000, 0xfffff, 0x100000] {
        let mut a = clvmr::Allocator::new();
        let node = a.new_atom(&vec![0xaa; n]).unwrap();
        let enc = clvmr::serde::node_to_bytes(&a, node).unwrap();
        v.push(enc.clone());
        if enc.len() > 1 { v.push(enc[..enc.len() - 1].to_vec()); }
    }
    v
}

// ---- stepping evaluator vs consensus evaluator on (program, env) given as CLVM bytes
fn build_tree(a: &mut clvmr::Allocator, depth: usize, tag: &mut u8) -> clvmr::NodePtr {
    if depth == 0 { *tag = tag.wrapping_add(1); let t = [b'a' + (*tag % 26), *tag, (*tag).wrapping_mul(31)]; return a.new_atom(&t).unwrap(); }
    let l = build_tree(a, depth - 1, tag);
    let r = build_tree(a, depth - 1, tag);
    a.new_pair(l, r).unwrap()
}
fn comb(a: &mut clvmr::Allocator, n: usize, right: bool) -> clvmr::NodePtr {
    let mut t = a.new_atom(b"end").unwrap();
    for i in 0..n {
        let leaf = a.new_atom(&[b'A' + (i % 26) as u8, i as u8]).unwrap();
        t = if right { a.new_pair(leaf, t).unwrap() } else { a.new_pair(t, leaf).unwrap() };
    }
    t
}
fn step_vs_consensus(prog: &[u8], envsel: u8) -> Option<Value> {
    use chialisp::classic::clvm_tools::stages::stage_0::{DefaultProgramRunner, TRunProgram};
    use chialisp::compiler::clvm::{convert_from_clvm_rs, convert_to_clvm_rs, run};
    use chialisp::compiler::prims::prim_map;
    use chialisp::compiler::srcloc::Srcloc;
    use std::rc::Rc;
    let prog = prog.to_vec();
    let res = catch_unwind(move || {
        let mut a = clvmr::Allocator::new();
        let p = match clvmr::serde::node_from_bytes(&mut a, &prog) { Ok(p) => p, Err(_) => return None };
        let mut tag = 0u8;
        let env = match envsel { 0 => build_tree(&mut a, 4, &mut tag), 1 => comb(&mut a, 20, true), 2 => comb(&mut a, 20, false), 3 => build_tree(&mut a, 17, &mut tag), _ => a.nil() };
        let runner = Rc::new(DefaultProgramRunner::new());
        let cons = runner.run_program(&mut a, p, env, None).ok().and_then(|r| clvmr::serde::node_to_bytes(&a, r.1).ok());
        let loc = Srcloc::start("*replay*");
        let sp = convert_from_clvm_rs(&mut a, loc.clone(), p).ok()?;
        let se = convert_from_clvm_rs(&mut a, loc, env).ok()?;
        let stepped = run(&mut a, runner, prim_map(), sp, se, None, Some(100000)).ok()
            .and_then(|v| convert_to_clvm_rs(&mut a, v).ok()).and_then(|n| clvmr::serde::node_to_bytes(&a, n).ok());
        Some((cons, stepped))
    });
    match res {
        Ok(Some((c, s))) if c != s => Some(hit(json!({"program_bytes": prog_hex(&c, &s), "env": envsel}), format!("consensus: {:?}", c), format!("stepper: {:?}", s), "compiler::clvm::run vs clvmr run_program on the same program and env")),
        Err(_) => Some(hit(json!({"env": envsel}), "no panic".into(), "panic".into(), "stepper panicked")),
        _ => None,
    }
}
fn prog_hex(_c: &Option<Vec<u8>>, _s: &Option<Vec<u8>>) -> String { String::new() }
fn stepper_programs() -> Vec<Vec<u8>> {
    let mut v: Vec<Vec<u8>> = vec![];
    // path atoms: one byte, two bytes (incl. non-minimal and sign-extended), three bytes
    for b in 0u16..=0xff { v.push(if b == 0 { vec![0x00] } else if b < 0x80 { vec![b as u8] } else { vec![0x81, b as u8] }); }
    for hi in [0x00u8, 0x01, 0x7f, 0x80, 0xff] { for lo in [0x00u8, 0x01, 0x02, 0x7f, 0x80, 0xfe, 0xff] { v.push(vec![0x82, hi, lo]); } }
    v.push(vec![0x83, 0x00, 0x00, 0x00]); v.push(vec![0x83, 0x00, 0xff, 0xff]); v.push(vec![0x83, 0xff, 0xff, 0xff]);
    // a few operator programs: (q . 1), (f 1), (r 1), (c 2 3), (i 2 5 7), (a 2 3), (+ 5 11)
    for hex in ["ff0101", "ff05ff0180", "ff06ff0180", "ff04ff02ff0380", "ff03ff02ff05ff0780", "ff02ff02ff0380", "ff10ff05ff0b80", "ff8200ffff0180", "ff01", "ff80ff0180"] {
        v.push((0..hex.len() / 2).map(|i| u8::from_str_radix(&hex[2 * i..2 * i + 2], 16).unwrap()).collect());
    }
    v
}

// ---- classic optimiser: if R evaluates to v in E (consensus), optimise(R) evaluates to v in E
fn optimizer_vs_consensus(prog: &[u8], envsel: u8) -> Option<Value> {
    use chialisp::classic::clvm_tools::stages::stage_0::{DefaultProgramRunner, TRunProgram};
    use chialisp::classic::clvm_tools::stages::stage_2::optimize::optimize_sexp;
    use std::rc::Rc;
    let prog = prog.to_vec();
    let res = catch_unwind(move || {
        let mut a = clvmr::Allocator::new();
        let p = match clvmr::serde::node_from_bytes(&mut a, &prog) { Ok(p) => p, Err(_) => return None };
        let mut tag = 0u8;
        let env = match envsel { 0 => build_tree(&mut a, 4, &mut tag), 1 => comb(&mut a, 20, true), 2 => comb(&mut a, 20, false), _ => build_tree(&mut a, 17, &mut tag) };
        let runner = Rc::new(DefaultProgramRunner::new());
        let orig = runner.run_program(&mut a, p, env, None).ok().and_then(|r| clvmr::serde::node_to_bytes(&a, r.1).ok())?;
        let opt = match optimize_sexp(&mut a, p, runner.clone()) { Ok(o) => o, Err(e) => return Some((Some(orig), None, format!("optimizer rejected: {:?}", e))) };
        let optb = clvmr::serde::node_to_bytes(&a, opt).ok();
        let after = runner.run_program(&mut a, opt, env, None).ok().and_then(|r| clvmr::serde::node_to_bytes(&a, r.1).ok());
        Some((Some(orig), after, format!("optimised program bytes {:?}", optb)))
    });
    match res {
        Ok(Some((o, a, note))) if o != a => Some(hit(json!({}), format!("value of R in E: {:?}", o), format!("value of optimise(R) in E: {:?} ({})", a, note), "optimize_sexp then clvmr run_program vs clvmr run_program of the original")),
        Err(_) => Some(hit(json!({}), "no panic".into(), "panic".into(), "optimizer panicked")),
        _ => None,
    }
}
fn hexv(hex: &str) -> Vec<u8> { (0..hex.len() / 2).map(|i| u8::from_str_radix(&hex[2 * i..2 * i + 2], 16).unwrap()).collect() }
fn optimizer_programs() -> Vec<Vec<u8>> {
    let mut v: Vec<Vec<u8>> = vec![];
    // (f P), (r P), (a (q . P) 1), (a (q . (f P)) (c 1 1)) for path atoms P of various widths / bit patterns
    let mut paths: Vec<Vec<u8>> = vec![];
    for b in [1u8, 2, 3, 5, 6, 7, 0x3f, 0x40, 0x7f] { paths.push(vec![b]); }
    for b in [0x80u8, 0x81, 0xc0, 0xff] { paths.push(vec![0x81, b]); }
    for hi in [0x00u8, 0x01, 0x7f, 0x80, 0xfe, 0xff] { for lo in [0x00u8, 0x01, 0x7f, 0x80, 0xff] { if hi != 0 || lo != 0 { paths.push(vec![0x82, hi, lo]); } } }
    paths.push(vec![0x83, 0x00, 0xff, 0xff]); paths.push(vec![0x83, 0xff, 0xff, 0xff]); paths.push(vec![0x84, 0x00, 0x00, 0x00, 0x07]);
    for p in &paths {
        for op in [5u8, 6u8] { let mut x = vec![0xff, op, 0xff]; x.extend(p); x.push(0x80); v.push(x); }
        // (a (q . P) 1)
        let mut x = hexv("ff02ffff01"); x.extend(p); x.extend(hexv("ffff0180")); v.push(x);
        // (a (q . P) (c 1 1))  -- exercises sub_args / path_from_args
        let mut x = hexv("ff02ffff01"); x.extend(p); x.extend(hexv("ffff04ff01ff018080")); v.push(x);
    }
    for hex in ["ff02ffff0180ffff04ff01ff018080", "ff02ffff0100ffff04ff01ff018080", "ff0101", "ff04ffff0101ffff010280", "ff02ffff01ff05ff0280ffff04ff01ff018080", "ff05ffff04ff02ff038080", "ff06ffff04ff02ff038080"] { v.push(hexv(hex)); }
    v
}

// ---- Srcloc geometry
fn chk_advance(line: usize, col: usize, ch: u8) -> Option<Value> {
    use chialisp::compiler::srcloc::Srcloc;
    use std::rc::Rc;
    let l = Srcloc::new(Rc::new("*replay*".to_string()), line, col);
    let r = l.advance(ch);
    let want = if ch == 10 { (line + 1, 1) } else if ch == 9 { (line, ((col + 8) / 8) * 8) } else { (line, col + 1) };
    if (r.line, r.col) != want || r.until.is_some() || r.file != l.file {
        Some(hit(json!({"line": line, "col": col, "ch": ch}), format!("{:?}", want), format!("({}, {})", r.line, r.col), "Srcloc::advance vs advance_pos"))
    } else { None }
}
fn chk_combine(a: (usize, usize, Option<(usize, usize)>), b: (usize, usize, Option<(usize, usize)>)) -> Option<Value> {
    use chialisp::compiler::srcloc::{Srcloc, Until};
    use std::rc::Rc;
    let f = Rc::new("*replay*".to_string());
    let mk = |x: (usize, usize, Option<(usize, usize)>)| { let mut l = Srcloc::new(f.clone(), x.0, x.1); l.until = x.2.map(|u| Until { line: u.0, col: u.1 }); l };
    let (la, lb) = (mk(a), mk(b));
    let end = |l: &Srcloc| match &l.until { None => (l.line, l.col + 1), Some(u) => (u.line, u.col) };
    let r = la.ext(&lb);
    let start = std::cmp::min((la.line, la.col), (lb.line, lb.col));
    let hull = std::cmp::max(end(&la), end(&lb));
    if (r.line, r.col) != start || end(&r) > hull {
        Some(hit(json!({"a": format!("{:?}", a), "b": format!("{:?}", b)}), format!("start {:?}, end <= {:?}", start, hull), format!("start ({}, {}), end {:?}", r.line, r.col, end(&r)), "Srcloc::ext / combine_src_location vs hull spec"))
    } else { None }
}
// ---- CLVM <-> rich SExp conversion, hashes, equality
fn chk_convert(atom_or_tree: &[u8]) -> Option<Value> {
    use chialisp::compiler::clvm::{convert_from_clvm_rs, convert_to_clvm_rs, sha256tree, NewStyleIntConversion};
    use chialisp::compiler::srcloc::Srcloc;
    let data = atom_or_tree.to_vec();
    let res = catch_unwind(move || {
        for mode in [true, false] {
            let _g = NewStyleIntConversion::new(mode);
            let mut a = clvmr::Allocator::new();
            let n = match clvmr::serde::node_from_bytes(&mut a, &data) { Ok(n) => n, Err(_) => return None };
            let rich = match convert_from_clvm_rs(&mut a, Srcloc::start("*replay*"), n) { Ok(r) => r, Err(_) => continue };
            let back = match convert_to_clvm_rs(&mut a, rich.clone()) { Ok(b) => b, Err(_) => continue };
            let bytes_back = clvmr::serde::node_to_bytes(&a, back).unwrap();
            if bytes_back != data { return Some((mode, format!("round trip: {:?}", data), format!("round trip gave {:?} via {}", bytes_back, rich))); }
            let h_rich = sha256tree(rich.clone());
            let h_classic = chialisp::classic::clvm_tools::sha256tree::sha256tree(&mut a, n).data().clone();
            let h_cons = clvmr::serde::node_to_bytes(&a, n).ok().map(|_| chia_tree_hash(&a, n));
            if h_rich != h_classic || Some(h_rich.clone()) != h_cons { return Some((mode, "three tree hashes equal".into(), format!("rich {:?} classic {:?} consensus {:?}", &h_rich[..4], &h_classic[..4], h_cons.map(|h| h[..4].to_vec())))); }
        }
        None
    });
    match res {
        Ok(Some((mode, e, o))) => Some(hit(json!({"clvm_bytes": atom_or_tree, "int_mode_new": mode}), e, o, "convert_from_clvm_rs / convert_to_clvm_rs / sha256tree on the real crate")),
        Err(_) => Some(hit(json!({"clvm_bytes": atom_or_tree}), "no panic".into(), "panic".into(), "conversion panicked")),
        _ => None,
    }
}
fn chia_tree_hash(a: &clvmr::Allocator, n: clvmr::NodePtr) -> Vec<u8> {
    // consensus tree hash, straight from the definition with sha2 through clvmr's own hasher is not exported; recompute
    use clvmr::allocator::SExp;
    match a.sexp(n) {
        SExp::Atom => { let mut v = vec![1u8]; v.extend_from_slice(a.atom(n).as_ref()); sha256(&v) }
        SExp::Pair(l, r) => { let mut v = vec![2u8]; v.extend(chia_tree_hash(a, l)); v.extend(chia_tree_hash(a, r)); sha256(&v) }
    }
}
fn sha256(v: &[u8]) -> Vec<u8> {
    use chialisp::classic::clvm::__type_compatibility__::{sha256 as s, Bytes, BytesFromType};
    s(Bytes::new(Some(BytesFromType::Raw(v.to_vec())))).data().clone()
}
fn convert_inputs() -> Vec<Vec<u8>> {
    let mut atoms: Vec<Vec<u8>> = vec![vec![]];
    for b in 0u16..=0xff { atoms.push(vec![b as u8]); }
    for hi in [0x00u8, 0x01, 0x7f, 0x80, 0x81, 0xfe, 0xff] { for lo in [0x00u8, 0x01, 0x7f, 0x80, 0x81, 0xff] { atoms.push(vec![hi, lo]); } }
    for x in [[0x00u8, 0x00, 0x01], [0x00, 0x80, 0x00], [0xff, 0x80, 0x00], [0xff, 0xff, 0x80], [0xff, 0x7f, 0xff], [0x80, 0x00, 0x00], [0x68, 0x65, 0x6c]] { atoms.push(x.to_vec()); }
    let mut out = vec![];
    for at in &atoms {
        let mut a = clvmr::Allocator::new();
        let n = a.new_atom(at).unwrap();
        out.push(clvmr::serde::node_to_bytes(&a, n).unwrap());
    }
    // a few pairs
    for (x, y) in [(vec![0u8], vec![]), (vec![0xff, 0x80], vec![0x80]), (vec![1], vec![0, 0])] {
        let mut a = clvmr::Allocator::new();
        let l = a.new_atom(&x).unwrap(); let r = a.new_atom(&y).unwrap(); let p = a.new_pair(l, r).unwrap();
        out.push(clvmr::serde::node_to_bytes(&a, p).unwrap());
    }
    out
}

// ---- dependency listing: every file the compilation reads is listed, under the first matching search dir
fn deps_case(dialect: &str, shadow: bool) -> Option<Value> {
    use chialisp::compiler::compiler::DefaultCompilerOpts;
    use chialisp::compiler::comptypes::CompilerOpts;
    use chialisp::compiler::preprocessor::gather_dependencies;
    use std::rc::Rc;
    let base = std::env::temp_dir().join(format!("verif_replay_deps_{}_{}", std::process::id(), dialect.len() + shadow as usize));
    let d1 = base.join("first"); let d2 = base.join("second");
    let _ = std::fs::remove_dir_all(&base);
    std::fs::create_dir_all(&d1).ok()?; std::fs::create_dir_all(&d2).ok()?;
    // inc.clib and blob.bin live in `second`; with shadow=true a different inc.clib also lives in `first` (must win)
    std::fs::write(d2.join("inc.clib"), "((defconstant SECOND 2))").ok()?;
    std::fs::write(d2.join("deeper.clib"), "((defconstant DEEP 3))").ok()?;
    std::fs::write(d2.join("blob.bin"), [1u8, 2, 3]).ok()?;
    std::fs::write(d2.join("data.hex"), "ff0180").ok()?;
    if shadow { std::fs::write(d1.join("inc.clib"), "((defconstant FIRST 1))").ok()?; }
    let src = format!("(mod (X) (include {}) (include inc.clib) (embed-file blob bin blob.bin) (embed-file hx hex data.hex) (+ X 1))", dialect);
    let opts: Rc<dyn CompilerOpts> = Rc::new(DefaultCompilerOpts::new("main.clsp"));
    let opts = opts.set_search_paths(&[d1.to_string_lossy().to_string(), d2.to_string_lossy().to_string()]);
    let got = gather_dependencies(opts, "main.clsp", &src);
    let res = match got {
        Err(e) => Some(hit(json!({"source": src, "shadow": shadow}), "a dependency list".into(), format!("error {:?}", e.1), "gather_dependencies on a temp directory tree")),
        Ok(list) => {
            let names: Vec<String> = list.iter().map(|d| String::from_utf8_lossy(&d.name).to_string()).collect();
            let mut want: Vec<String> = vec![];
            if shadow { want.push(d1.join("inc.clib").to_string_lossy().to_string()); }
            else { want.push(d2.join("inc.clib").to_string_lossy().to_string()); }
            want.push(d2.join("blob.bin").to_string_lossy().to_string());
            want.push(d2.join("data.hex").to_string_lossy().to_string());
            let missing: Vec<&String> = want.iter().filter(|w| !names.contains(w)).collect();
            let wrong_shadow = shadow && names.contains(&d2.join("inc.clib").to_string_lossy().to_string());
            if !missing.is_empty() || wrong_shadow {
                Some(hit(json!({"source": src, "shadow": shadow, "dirs": ["first", "second"]}), format!("listing contains {:?}", want), format!("listing is {:?}", names), "gather_dependencies on a temp directory tree (files read: inc.clib [deeper.clib] blob.bin data.hex)"))
            } else { None }
        }
    };
    let _ = std::fs::remove_dir_all(&base);
    res
}

// ---- classic disassemble -> assemble round trip, every operator-set version
fn chk_disasm(clvm_bytes: &[u8]) -> Option<Value> {
    use chialisp::classic::clvm_tools::binutils::{assemble, disassemble};
    let data = clvm_bytes.to_vec();
    let res = catch_unwind(move || {
        for ver in [0usize, 1, 2] {
            let mut a = clvmr::Allocator::new();
            let n = match clvmr::serde::node_from_bytes(&mut a, &data) { Ok(n) => n, Err(_) => return None };
            let text = disassemble(&a, n, Some(ver));
            match assemble(&mut a, &text) {
                Err(e) => return Some((ver, text, format!("assembler rejected it: {:?}", e))),
                Ok(m) => { let back = clvmr::serde::node_to_bytes(&a, m).unwrap(); if back != data { return Some((ver, text, format!("re-assembled to {:?}", back))); } }
            }
        }
        None
    });
    match res {
        Ok(Some((ver, text, o))) => Some(hit(json!({"clvm_bytes": clvm_bytes, "version": ver}), format!("text {:?} assembles back to the same bytes", text), o, "binutils::disassemble then binutils::assemble")),
        Err(_) => Some(hit(json!({"clvm_bytes": clvm_bytes}), "no panic".into(), "panic".into(), "disassemble/assemble panicked")),
        _ => None,
    }
}
fn disasm_inputs() -> Vec<Vec<u8>> {
    let mut atoms: Vec<Vec<u8>> = vec![vec![]];
    for b in 0u16..=0xff { atoms.push(vec![b as u8]); }
    for hi in 0u16..=0xff { for lo in [0x00u8, 0x01, 0x22, 0x27, 0x5c, 0x61, 0x7f, 0x80, 0xff] { atoms.push(vec![hi as u8, lo]); } }
    for c in [b'"', b'\'', b'\\', b' ', b'#', b'(', b')', b'a', 0x00u8, 0x7f, 0x80] {
        atoms.push(vec![b'a', c, b'b']); atoms.push(vec![c, b'a', b'b']); atoms.push(vec![b'a', b'b', c]); atoms.push(vec![c, c, c]);
    }
    atoms.push(b"hello world".to_vec()); atoms.push(vec![0x13, 0xd6, 0x1f, 0x00]); atoms.push(vec![0xff; 5]); atoms.push(vec![0, 0, 0, 1]);
    let mut out = vec![];
    for at in &atoms {
        let mut a = clvmr::Allocator::new();
        let n = a.new_atom(at).unwrap();
        out.push(clvmr::serde::node_to_bytes(&a, n).unwrap());
        // also in operator position and as an argument
        let nil = a.nil();
        let l = a.new_pair(n, nil).unwrap();
        out.push(clvmr::serde::node_to_bytes(&a, l).unwrap());
        let ll = a.new_pair(l, n).unwrap();
        out.push(clvmr::serde::node_to_bytes(&a, ll).unwrap());
    }
    out
}

// ---- modern printer: printed text is read back to the same CLVM value by the modern reader and by the classic assembler
fn chk_modern_print(clvm_bytes: &[u8]) -> Option<Value> {
    use chialisp::classic::clvm_tools::binutils::assemble;
    use chialisp::compiler::clvm::{convert_from_clvm_rs, convert_to_clvm_rs};
    use chialisp::compiler::sexp::parse_sexp;
    use chialisp::compiler::srcloc::Srcloc;
    let data = clvm_bytes.to_vec();
    let res = catch_unwind(move || {
        let mut a = clvmr::Allocator::new();
        let n = match clvmr::serde::node_from_bytes(&mut a, &data) { Ok(n) => n, Err(_) => return None };
        let rich = convert_from_clvm_rs(&mut a, Srcloc::start("*replay*"), n).ok()?;
        let text = rich.to_string();
        let modern = parse_sexp(Srcloc::start("*replay*"), text.bytes()).ok().and_then(|v| v.first().cloned())
            .and_then(|s| convert_to_clvm_rs(&mut a, s).ok()).and_then(|m| clvmr::serde::node_to_bytes(&a, m).ok());
        if modern.as_ref() != Some(&data) { return Some((text, format!("modern reader gave {:?}", modern))); }
        let classic = assemble(&mut a, &text).ok().and_then(|m| clvmr::serde::node_to_bytes(&a, m).ok());
        if classic.as_ref() != Some(&data) { return Some((text, format!("classic assembler gave {:?}", classic))); }
        None
    });
    match res {
        Ok(Some((text, o))) => Some(hit(json!({"clvm_bytes": clvm_bytes}), format!("printed text {:?} reads back to the same bytes", text), o, "SExp Display then parse_sexp / binutils::assemble")),
        Err(_) => Some(hit(json!({"clvm_bytes": clvm_bytes}), "no panic".into(), "panic".into(), "modern print/read panicked")),
        _ => None,
    }
}

// ---- front ends never panic: all short texts over a hostile alphabet, all short byte strings
fn chk_no_panic_text(text: &[u8]) -> Option<Value> {
    use chialisp::classic::clvm_tools::binutils::assemble;
    use chialisp::compiler::sexp::parse_sexp;
    use chialisp::compiler::srcloc::Srcloc;
    let t1 = text.to_vec();
    if catch_unwind(move || { let _ = parse_sexp(Srcloc::start("*replay*"), t1.iter().copied()); }).is_err() {
        return Some(hit(json!({"text_bytes": text}), "result or error".into(), "panic".into(), "compiler::sexp::parse_sexp"));
    }
    let t2 = String::from_utf8_lossy(text).to_string();
    if catch_unwind(move || { let mut a = clvmr::Allocator::new(); let _ = assemble(&mut a, &t2); }).is_err() {
        return Some(hit(json!({"text_bytes": text}), "result or error".into(), "panic".into(), "binutils::assemble (read_ir + assemble_from_ir)"));
    }
    None
}
fn chk_no_panic_bytes(data: &[u8]) -> Option<Value> {
    let d = data.to_vec();
    let r = catch_unwind(move || tool_deser(&d));
    match r { Ok(Some(v)) if v == b"<panic>".to_vec() => Some(hit(json!({"bytes": data}), "result or error".into(), "panic".into(), "sexp_from_stream")), Err(_) => Some(hit(json!({"bytes": data}), "result or error".into(), "panic".into(), "sexp_from_stream")), _ => None }
}

// ---- C11: library entry point vs command-line tool path compile the same program
fn chk_entry_points(src: &str, optimize: bool) -> Option<Value> {
    use chialisp::classic::clvm_tools::clvmc::compile_clvm_text_maybe_opt;
    use chialisp::classic::clvm_tools::comp_input::RunAndCompileInputData;
    use chialisp::classic::platform::argparse::ArgumentValue;
    use chialisp::compiler::clvm::convert_to_clvm_rs;
    use chialisp::compiler::compiler::DefaultCompilerOpts;
    use chialisp::compiler::comptypes::CompilerOpts;
    use std::collections::HashMap;
    use std::rc::Rc;
    let src_s = src.to_string();
    let res = catch_unwind(move || {
        let mut a = clvmr::Allocator::new();
        let opts: Rc<dyn CompilerOpts> = Rc::new(DefaultCompilerOpts::new("*command*"));
        let mut syms = HashMap::new();
        let lib = compile_clvm_text_maybe_opt(&mut a, optimize, opts, &mut syms, &src_s, "*command*", false).ok()
            .and_then(|n| clvmr::serde::node_to_bytes(&a, n).ok());
        let mut args: HashMap<String, ArgumentValue> = HashMap::new();
        args.insert("path_or_code".to_string(), ArgumentValue::ArgString(None, src_s.clone()));
        if optimize { args.insert("optimize".to_string(), ArgumentValue::ArgBool(true)); }
        let tool = RunAndCompileInputData::new(&mut a, &args).ok().and_then(|d| { let mut s2 = HashMap::new(); d.compile_modern(&mut a, &mut s2).ok() })
            .and_then(|x| convert_to_clvm_rs(&mut a, x).ok()).and_then(|n| clvmr::serde::node_to_bytes(&a, n).ok());
        (lib, tool)
    });
    match res {
        Ok((l, t)) if l != t => Some(hit(json!({"source": src, "optimize": optimize}), format!("library entry: {:?}", l.map(|b| b.len())), format!("tool path: {:?}", t.map(|b| b.len())), "compile_clvm_text_maybe_opt vs RunAndCompileInputData::compile_modern (byte comparison)")),
        Err(_) => Some(hit(json!({"source": src}), "no panic".into(), "panic".into(), "entry point panicked")),
        _ => None,
    }
}

pub fn search(name: &str, seed: u64) -> Value {
    match name {
        "entry_points" => {
            let bodies = ["(mod (X) (defun f (A) (* A 2)) (f (+ X 1)))", "(mod (X Y) (defun-inline g (A B) (+ A B)) (let ((z (g X Y))) (* z z)))", "(mod (X) (defconstant K 7) (if X (+ K X) K))"];
            for d in ["*standard-cl-21*", "*standard-cl-22*", "*standard-cl-23*"] { for b in bodies { for o in [false, true] {
                let src = b.replacen("(mod (", &format!("(mod ("), 1);
                let src = { let idx = src.find(") ").unwrap(); format!("{} (include {}){}", &src[..idx + 1], d, &src[idx + 1..]) };
                if let Some(v) = chk_entry_points(&src, o) { return v; }
            } } }
            nf("library entry and tool path emit identical bytes for 3 programs x cl21/cl22/cl23 x optimize on/off")
        }
        "no_panic" => {
            let alpha: &[u8] = b"().\"'\\#;0xa-\n ";
            let n = alpha.len();
            let mut count = 0u64;
            for len in 0..=4usize {
                let total = n.pow(len as u32);
                for k in 0..total {
                    let mut t = Vec::with_capacity(len);
                    let mut kk = k;
                    for _ in 0..len { t.push(alpha[kk % n]); kk /= n; }
                    count += 1;
                    if let Some(v) = chk_no_panic_text(&t) { return v; }
                }
            }
            for a in 0u16..=255 { if let Some(v) = chk_no_panic_bytes(&[a as u8]) { return v; } for b in 0u16..=255 { if let Some(v) = chk_no_panic_bytes(&[a as u8, b as u8]) { return v; } } }
            let mut x = seed.wrapping_mul(6364136223846793005).wrapping_add(1442695040888963407);
            for _ in 0..20000 { x = x.wrapping_mul(6364136223846793005).wrapping_add(1442695040888963407); let d = [(x >> 8) as u8, (x >> 24) as u8, (x >> 40) as u8, (x >> 56) as u8]; if let Some(v) = chk_no_panic_bytes(&d[..3 + (x as usize & 1)]) { return v; } }
            nf(&format!("no panic: parse_sexp and assemble on all {} texts of <= 4 symbols over a 14-symbol alphabet (parens dot quotes backslash hash semicolon 0 x a minus newline space); sexp_from_stream on all 1- and 2-byte strings and 20000 seeded 3-4 byte strings", count))
        }
        "modern_print" | "printable" | "escape_quote" | "make_atom" => {
            for d in disasm_inputs() { if let Some(v) = chk_modern_print(&d) { return v; } }
            nf("modern printed text is read back identically by parse_sexp and by the classic assembler on the enumerated values")
        }
        "disassemble" | "ir_for_atom" | "has_oversized_sign_extension" | "consume_quoted" | "pybytes_repr" | "interpret_atom_value" | "assemble" => {
            for d in disasm_inputs() { if let Some(v) = chk_disasm(&d) { return v; } }
            nf("disassemble/assemble round trip holds for the enumerated atoms (all 1-byte, 2304 2-byte, special 3-byte) alone, as operator and as tail, versions 0..2")
        }
        "recurse_dependencies" | "gather_dependencies" | "read_new_file" | "deps" => {
            for dialect in ["*standard-cl-21*", "*standard-cl-23*"] { for shadow in [false, true] {
                if let Some(v) = deps_case(dialect, shadow) { return v; }
            } }
            nf("dependency listing contains every file read (include, nested include, embed-file bin/hex) and respects search-path order, in cl21 and cl23")
        }
        "advance" | "srcloc" | "combine_src_location" | "ext" | "add_onto" | "len" | "ending" | "src_location_max" | "src_location_min" | "from_pair" => {
            for col in 1..70usize { for ch in 0u16..=255 { if let Some(v) = chk_advance(3, col, ch as u8) { return v; } } }
            let locs: Vec<(usize, usize, Option<(usize, usize)>)> = { let mut v = vec![]; for l in 1..3usize { for c in 1..4usize { v.push((l, c, None)); for ul in l..3usize { for uc in 1..5usize { if (ul, uc) > (l, c) { v.push((l, c, Some((ul, uc)))); } } } } } v };
            for a in &locs { for b in &locs { if let Some(v) = chk_combine(*a, *b) { return v; } } }
            nf("Srcloc::advance agrees with advance_pos for cols 1..70 x all bytes; ext agrees with the hull spec on small locations")
        }
        "convert_from_clvm_rs" | "convert_to_clvm_rs" | "convert" | "sha256tree" | "sha256tree_from_atom" | "number_from_u8" | "u8_from_number" => {
            for d in convert_inputs() { if let Some(v) = chk_convert(&d) { return v; } }
            nf("conversion round trip and the three tree hashes agree on the enumerated values in both integer modes")
        }
        "path_optimizer" | "sub_args" | "path_from_args" | "optimize_sexp" | "path_number_from_u8" | "new" | "add" | "first" | "rest" | "as_path" | "seems_constant" => {
            for p in optimizer_programs() { for e in 0..4u8 {
                if let Some(mut v) = optimizer_vs_consensus(&p, e) { v["input"] = json!({"program": p, "env": e}); return v; }
            } }
            nf("optimize_sexp preserves the value of the enumerated programs x 4 environments (incl. a full tree of depth 17)")
        }
        "choose_path" | "flatten_signed_int" | "truthy" | "atom_value" | "run_step" | "combine" | "eval_args" | "generate_argument_refs" => {
            for p in stepper_programs() { for e in 0..5u8 {
                if let Some(mut v) = step_vs_consensus(&p, e) { v["input"] = json!({"program": p, "env": e}); return v; }
            } }
            nf("stepper agrees with clvmr run_program on the enumerated programs x 4 environments")
        }
        "atom_from_stream" | "sexp_from_stream" | "int_from_bytes" | "get_u32" | "read" => {
            for d in deser_inputs() { if let Some(v) = chk_deser(&d) { return v; } }
            nf("sexp_from_stream agrees with clvmr node_from_bytes on the enumerated byte strings")
        }
        "compose_paths" => {
            for p in 1..200 { for q in 1..200 {
                if let Some(v) = chk_compose_paths(&p.to_bigint().unwrap(), &q.to_bigint().unwrap()) { return v; }
            } }
            nf("compose_paths agrees with compose for all 1 <= p, q < 200")
        }
        _ => nf("no enumerator for this obligation"),
    }
}

pub fn run_input(name: &str, input: &Value) -> Value {
    match name {
        "modern_print" => chk_modern_print(&bytes(&input["clvm_bytes"])).unwrap_or_else(|| nf("input does not violate the contract on this tree")),
        "disassemble" | "ir_for_atom" | "consume_quoted" | "pybytes_repr" => chk_disasm(&bytes(&input["clvm_bytes"])).unwrap_or_else(|| nf("input does not violate the contract on this tree")),
        "advance" | "srcloc" => chk_advance(input["line"].as_u64().unwrap_or(1) as usize, input["col"].as_u64().unwrap_or(1) as usize, input["ch"].as_u64().unwrap_or(0) as u8).unwrap_or_else(|| nf("input does not violate the contract on this tree")),
        "convert_from_clvm_rs" | "convert_to_clvm_rs" | "convert" | "sha256tree" => chk_convert(&bytes(&input["clvm_bytes"])).unwrap_or_else(|| nf("input does not violate the contract on this tree")),
        "path_optimizer" | "sub_args" | "path_from_args" | "optimize_sexp" | "path_number_from_u8" | "new" | "add" | "first" | "rest" | "as_path" | "seems_constant" =>
            optimizer_vs_consensus(&bytes(&input["program"]), input["env"].as_u64().unwrap_or(0) as u8).unwrap_or_else(|| nf("input does not violate the contract on this tree")),
        "choose_path" | "flatten_signed_int" | "truthy" | "atom_value" | "run_step" | "combine" | "eval_args" | "generate_argument_refs" =>
            step_vs_consensus(&bytes(&input["program"]), input["env"].as_u64().unwrap_or(0) as u8).unwrap_or_else(|| nf("input does not violate the contract on this tree")),
        "atom_from_stream" | "sexp_from_stream" | "int_from_bytes" | "get_u32" | "read" => chk_deser(&bytes(&input["bytes"])).unwrap_or_else(|| nf("input does not violate the contract on this tree")),
        "compose_paths" => chk_compose_paths(&big(&input["p"]), &big(&input["q"])).unwrap_or_else(|| nf("input does not violate the contract on this tree")),
        _ => nf("no replayer for this obligation"),
    }
}

pub fn confirm(_id: &str) -> Value {
    nf("no such finding")
}
