use crate::specs::*;
use num_bigint::{BigInt, ToBigInt};
use serde_json::{json, Value};
use std::panic::catch_unwind;

fn big(v: &Value) -> BigInt { v.as_str().and_then(|s| s.parse().ok()).unwrap_or_else(|| 0.to_bigint().unwrap()) }
fn bytes(v: &Value) -> Vec<u8> { v.as_array().map(|a| a.iter().map(|x| x.as_u64().unwrap_or(0) as u8).collect()).unwrap_or_default() }

// inputs of recorded (open) known findings are skipped by the enumerators so that a DIFFERENT
// failure of the same check is still found; they are re-confirmed separately with `input`
fn thorough() -> bool { std::env::var("VERIF_TIER").map(|t| t == "thorough").unwrap_or(false) }
fn skip_list() -> Vec<Value> {
    std::env::var("VERIF_SKIP").ok().and_then(|s| serde_json::from_str::<Vec<Value>>(&s).ok()).unwrap_or_default()
}
fn skipped(input: &Value) -> bool { skip_list().iter().any(|k| k == input) }
fn nf(how: &str) -> Value { json!({"found": false, "how": how}) }
fn hit(input: Value, expected: String, observed: String, how: &str) -> Value {
    json!({"found": true, "engine": "E3 enumerator on the real crate", "input": input, "expected": expected, "observed": observed, "how": how})
}

// ---- compose_paths: r == compose(p, q) for p, q >= 1
fn chk_compose_paths(p: &BigInt, q: &BigInt) -> Option<Value> {
    use chialisp::classic::clvm_tools::node_path::compose_paths;
    let (pp, qq) = (p.clone(), q.clone());
    let got = catch_unwind(move || compose_paths(&pp, &qq));
    let want = compose(p, q);
    match got {
        Ok(g) if g == want => None,
        Ok(g) => Some(hit(json!({"p": p.to_string(), "q": q.to_string()}), want.to_string(), g.to_string(), "compose_paths(p, q) vs compose spec")),
        Err(_) => Some(hit(json!({"p": p.to_string(), "q": q.to_string()}), want.to_string(), "panic".into(), "compose_paths(p, q) panicked")),
    }
}

// ---- deserialiser vs consensus: tool Ok(v) => consensus Ok(same bytes); consensus Err => tool Err
fn tool_deser(data: &[u8]) -> Option<Vec<u8>> {
    use chialisp::classic::clvm::__type_compatibility__::{Bytes, BytesFromType, Stream};
    use chialisp::classic::clvm::serialize::{sexp_from_stream, SimpleCreateCLVMObject};
    let d = data.to_vec();
    catch_unwind(move || {
        let mut a = clvmr::Allocator::new();
        let mut st = Stream::new(Some(Bytes::new(Some(BytesFromType::Raw(d)))));
        match sexp_from_stream(&mut a, &mut st, Box::new(SimpleCreateCLVMObject {})) {
            Ok(r) => clvmr::serde::node_to_bytes(&a, r.1).ok(),
            Err(_) => None,
        }
    }).unwrap_or(Some(b"<panic>".to_vec()))
}
fn consensus_deser(data: &[u8]) -> Option<Vec<u8>> {
    let mut a = clvmr::Allocator::new();
    match clvmr::serde::node_from_bytes(&mut a, data) {
        Ok(n) => clvmr::serde::node_to_bytes(&a, n).ok(),
        Err(_) => None,
    }
}
fn chk_deser(data: &[u8]) -> Option<Value> {
    let t = tool_deser(data);
    let c = consensus_deser(data);
    let bad = match (&t, &c) { (Some(tv), Some(cv)) => tv != cv, (Some(_), None) => true, (None, Some(_)) => true, _ => false };
    if bad {
        Some(hit(json!({"bytes": data}), format!("consensus: {:?}", c), format!("tool: {:?}", t), "sexp_from_stream vs clvmr node_from_bytes on the same bytes"))
    } else { None }
}
// serialiser vs consensus serialiser for one atom length
fn chk_ser_len(n: usize) -> Option<Value> {
    use chialisp::classic::clvm::__type_compatibility__::Stream;
    use chialisp::classic::clvm::serialize::sexp_to_stream;
    let res = catch_unwind(move || {
        let mut a = clvmr::Allocator::new();
        let node = a.new_atom(&vec![0xaau8; n]).ok()?;
        let want = clvmr::serde::node_to_bytes(&a, node).ok()?;
        let mut st = Stream::new(None);
        sexp_to_stream(&mut a, node, &mut st);
        let got = st.get_value().data().clone();
        if got != want { Some((want[..want.len().min(6)].to_vec(), got[..got.len().min(6)].to_vec(), want.len(), got.len())) } else { None }
    });
    match res {
        Ok(Some((w, g, wl, gl))) => Some(hit(json!({"atom_length": n, "atom_fill": 170}), format!("consensus bytes start {:?} (total {})", w, wl), format!("tool bytes start {:?} (total {})", g, gl), "sexp_to_stream vs clvmr node_to_bytes")),
        Err(_) => Some(hit(json!({"atom_length": n}), "no panic".into(), "panic".into(), "serialiser panicked")),
        _ => None,
    }
}
// serialiser vs consensus serialiser on small trees (pair order, nesting)
fn chk_ser_tree(data: &[u8]) -> Option<Value> {
    use chialisp::classic::clvm::__type_compatibility__::Stream;
    use chialisp::classic::clvm::serialize::sexp_to_stream;
    let d = data.to_vec();
    let res = catch_unwind(move || {
        let mut a = clvmr::Allocator::new();
        let node = clvmr::serde::node_from_bytes(&mut a, &d).ok()?;
        let mut st = Stream::new(None);
        sexp_to_stream(&mut a, node, &mut st);
        let got = st.get_value().data().clone();
        if got != d { Some(got) } else { None }
    });
    match res {
        Ok(Some(g)) => Some(hit(json!({"clvm_bytes": data}), format!("consensus serialisation {:?}", data), format!("tool serialisation {:?}", g), "sexp_to_stream vs the canonical bytes of the same tree")),
        Err(_) => Some(hit(json!({"clvm_bytes": data}), "no panic".into(), "panic".into(), "serialiser panicked")),
        _ => None,
    }
}
fn deser_inputs() -> Vec<Vec<u8>> {
    let mut v: Vec<Vec<u8>> = vec![];
    for b in 0u16..=0xff {
        for tail in [vec![], vec![0u8], vec![1u8, 0x41], vec![0, 1, 0x41], vec![0, 0, 1, 0x41], vec![0, 0, 0, 1, 0x41],
                     vec![0, 0, 0, 0, 1, 0x41], vec![0, 0, 0, 0, 0, 1, 0x41], vec![0, 0, 0, 0, 0, 0, 1, 0x41], vec![0x80, 0x80]] {
            let mut d = vec![b as u8];
            d.extend(tail);
            v.push(d);
        }
    }
    // structure: every byte string of length <= 4 over a boundary alphabet (pairs with complete / truncated / malformed wings,
    // nested pairs, trailing bytes); seed C08-d returned the left wing of a pair whose right wing is broken
    let alpha: [u8; 11] = [0x00, 0x01, 0x05, 0x7f, 0x80, 0x81, 0x82, 0xbf, 0xc0, 0xfe, 0xff];
    for a0 in alpha { v.push(vec![a0]); for a1 in alpha { v.push(vec![a0, a1]); for a2 in alpha { v.push(vec![a0, a1, a2]); for a3 in alpha { v.push(vec![a0, a1, a2, a3]); } } } }
    for hex in ["ff8568656c6c6fc0", "ff8568656c6c6f8361", "ffff018568656c6c6fff02ff0380", "ffff018568656c6c6fff02ff03", "ffff018568656c6c6fff02", "ffffff01ff02ff03ff04ff0580", "ffff0102ffff0304ff0506"] {
        v.push((0..hex.len() / 2).map(|i| u8::from_str_radix(&hex[2 * i..2 * i + 2], 16).unwrap()).collect());
    }
    // every length class, exact / truncated
    for n in [0usize, 1, 0x3f, 0x40, 0x1fff, 0x2000, 0xfffff, 0x100000] {
        let mut a = clvmr::Allocator::new();
        let node = a.new_atom(&vec![0xaa; n]).unwrap();
        let enc = clvmr::serde::node_to_bytes(&a, node).unwrap();
        v.push(enc.clone());
        if enc.len() > 1 { v.push(enc[..enc.len() - 1].to_vec()); }
    }
    v
}

// ---- stepping evaluator vs consensus evaluator on (program, env) given as CLVM bytes
fn build_tree(a: &mut clvmr::Allocator, depth: usize, tag: &mut u8) -> clvmr::NodePtr {
    if depth == 0 { *tag = tag.wrapping_add(1); let t = [b'a' + (*tag % 26), *tag, (*tag).wrapping_mul(31)]; return a.new_atom(&t).unwrap(); }
    let l = build_tree(a, depth - 1, tag);
    let r = build_tree(a, depth - 1, tag);
    a.new_pair(l, r).unwrap()
}
fn comb(a: &mut clvmr::Allocator, n: usize, right: bool) -> clvmr::NodePtr {
    let mut t = a.new_atom(b"end").unwrap();
    for i in 0..n {
        let leaf = a.new_atom(&[b'A' + (i % 26) as u8, i as u8]).unwrap();
        t = if right { a.new_pair(leaf, t).unwrap() } else { a.new_pair(t, leaf).unwrap() };
    }
    t
}
fn step_vs_consensus(prog: &[u8], envsel: u8) -> Option<Value> {
    use chialisp::classic::clvm_tools::stages::stage_0::{DefaultProgramRunner, TRunProgram};
    use chialisp::compiler::clvm::{convert_from_clvm_rs, convert_to_clvm_rs, run};
    use chialisp::compiler::prims::prim_map;
    use chialisp::compiler::srcloc::Srcloc;
    use std::rc::Rc;
    let prog = prog.to_vec();
    let res = catch_unwind(move || {
        let mut a = clvmr::Allocator::new();
        let p = match clvmr::serde::node_from_bytes(&mut a, &prog) { Ok(p) => p, Err(_) => return None };
        let mut tag = 0u8;
        let env = match envsel { 0 => build_tree(&mut a, 4, &mut tag), 1 => comb(&mut a, 20, true), 2 => comb(&mut a, 20, false), 3 => build_tree(&mut a, 17, &mut tag), _ => a.nil() };
        let runner = Rc::new(DefaultProgramRunner::new());
        let cons = runner.run_program(&mut a, p, env, None).ok().and_then(|r| clvmr::serde::node_to_bytes(&a, r.1).ok());
        let loc = Srcloc::start("*replay*");
        let sp = convert_from_clvm_rs(&mut a, loc.clone(), p).ok()?;
        let se = convert_from_clvm_rs(&mut a, loc, env).ok()?;
        let stepped = run(&mut a, runner, prim_map(), sp, se, None, Some(100000)).ok()
            .and_then(|v| convert_to_clvm_rs(&mut a, v).ok()).and_then(|n| clvmr::serde::node_to_bytes(&a, n).ok());
        Some((cons, stepped))
    });
    match res {
        Ok(Some((c, s))) if c != s => Some(hit(json!({"program_bytes": prog_hex(&c, &s), "env": envsel}), format!("consensus: {:?}", c), format!("stepper: {:?}", s), "compiler::clvm::run vs clvmr run_program on the same program and env")),
        Err(_) => Some(hit(json!({"env": envsel}), "no panic".into(), "panic".into(), "stepper panicked")),
        _ => None,
    }
}
fn prog_hex(_c: &Option<Vec<u8>>, _s: &Option<Vec<u8>>) -> String { String::new() }
fn stepper_programs() -> Vec<Vec<u8>> {
    let mut v: Vec<Vec<u8>> = vec![];
    // path atoms: one byte, two bytes (incl. non-minimal and sign-extended), three bytes
    for b in 0u16..=0xff { v.push(if b == 0 { vec![0x00] } else if b < 0x80 { vec![b as u8] } else { vec![0x81, b as u8] }); }
    if thorough() { for hi in 0u16..=0xff { for lo in (0u16..=0xff).step_by(3) { v.push(vec![0x82, hi as u8, lo as u8]); } } }
    else { for hi in [0x00u8, 0x01, 0x7f, 0x80, 0xff] { for lo in [0x00u8, 0x01, 0x02, 0x7f, 0x80, 0xfe, 0xff] { v.push(vec![0x82, hi, lo]); } } }
    v.push(vec![0x83, 0x00, 0x00, 0x00]); v.push(vec![0x83, 0x00, 0xff, 0xff]); v.push(vec![0x83, 0xff, 0xff, 0xff]);
    // a few operator programs: (q . 1), (f 1), (r 1), (c 2 3), (i 2 5 7), (a 2 3), (+ 5 11)
    for hex in ["ff03ffff0100ffff0101ffff010280", "ff03ffff01820000ffff0101ffff010280", "ff03ffff0180ffff0101ffff010280", "ff03ffff10ffff0100ffff010080ffff0101ffff010280", "ff0101", "ff05ff0180", "ff06ff0180", "ff04ff02ff0380", "ff03ff02ff05ff0780", "ff02ff02ff0380", "ff10ff05ff0b80", "ff8200ffff0180", "ff01", "ff80ff0180"] {
        v.push((0..hex.len() / 2).map(|i| u8::from_str_radix(&hex[2 * i..2 * i + 2], 16).unwrap()).collect());
    }
    // every operator of the latest table, by opcode, with one and with two small operands (the stepping evaluator must hand each to the same operator)
    for (atom, name) in chialisp::classic::clvm::keyword_from_atom(2).iter() {
        if name == "q" || name == "a" || name == "x" || name == "softfork" { continue; }
        // small numbers, and operands that are pairs (the whole environment, quoted pairs): operators that take atoms must fail on them (seed C06-e answered = itself)
        for args in ["(q . 5)", "(q . 5) (q . 3)", "(q . 1000) (q . 7) (q . 13)", "1", "1 1", "(q . (1 . 2)) (q . (1 . 2))", "(q . 5) 1", "1 (q . 5)"] {
            let mut a = clvmr::Allocator::new();
            if let (Ok(op), Ok(rest)) = (a.new_atom(atom), chialisp::classic::clvm_tools::binutils::assemble(&mut a, &format!("({})", args))) {
                if let Ok(p) = a.new_pair(op, rest) { if let Ok(b) = clvmr::serde::node_to_bytes(&a, p) { v.push(b); } }
            }
        }
    }
    // every operator the stepping evaluator implements itself, with 0 .. arity+2 operands (each operand evaluates without error)
    for (op, first) in [("a", "(q . 2)"), ("i", "1"), ("c", "1"), ("f", "1"), ("r", "1"), ("q", "1")] { for n in 0..=5usize {
        let mut t = format!("({}", op);
        for k in 0..n { t.push(' '); t.push_str(if k == 0 { first } else { "1" }); }
        t.push(')');
        if let Some(b) = asm_bytes(&t) { v.push(b.clone()); if let Some(w) = asm_bytes(&format!("(c (q . 9) {})", t)) { v.push(w); } }
    } }
    // operator atoms spelled with redundant leading bytes (0x0004, 0x000001, 0xff..): the consensus evaluator knows no such operator
    // (finding F26: the stepping evaluator read the operator as a number, so 0x0004 consed and 0x0001 quoted)
    for (op, args) in [(1u8, ". 5"), (2, "(q . 1) ()"), (3, "1 (q . 5) (q . 6)"), (4, "1 1"), (5, "(q . (7 . 8))"), (6, "(q . (7 . 8))"), (7, "1"), (8, "(q . 7)"), (9, "1 1"), (11, "(q . 7)"), (16, "(q . 1) (q . 2)"), (17, "(q . 1) (q . 2)"), (29, "(q . 1) (q . 2)"), (60, "(q . 1) (q . 2)"), (0x80, "1"), (0xff, "1")] {
        for pre in ["00", "0000", "000000", "ff", "ffff"] {
            if let Some(b) = asm_bytes(&format!("(0x{}{:02x} {})", pre, op, args)) { v.push(b.clone()); if let Some(w) = asm_bytes(&format!("(c (q . 9) (0x{}{:02x} {}))", pre, op, args)) { v.push(w); } }
        }
    }
    // ((op) . operands): the consensus evaluator hands the operands to op unevaluated (finding F27: the stepping evaluator
    // ran (op) as a program to obtain an operator)
    for t in ["((16) 2 5)", "((4) 2 5)", "((5) (7 . 8))", "((6) (7 . 8))", "((q) . 5)", "((q) 5)", "((a) (q . 1) 7)", "((a) 1 7)", "((a) 1)", "((i) 0 5 6)", "((i) 1 5 6)", "((i) 1 5)",
              "(((16)) 2 5)", "((16 . 1) 2 5)", "((16 . 0) (q . 2) (q . 5))", "((11) 2 5)", "(c (q . 9) ((16) 2 5))", "((0x0004) 2 5)", "((\"+\") 2 5)", "((()) 2 5)", "((16))", "((4) 2)",
              "((16) 2 5 . 1)", "((a) 1 7 . 1)", "((4) 2 5 . 1)",
              // (op) must hold exactly one element (finding F27, second part: ((4 1) 2 3) is an error for the consensus evaluator)
              "((4 1) 2 3)", "((16 7 8) 2 3)", "((5 9) (7 . 8))", "((4 . 1) 2 3)", "((16 . (7 . 8)) 2 3)", "((a (q . 1)) 1 7)"] {
        if let Some(b) = asm_bytes(t) { v.push(b); }
    }
    v
}
fn asm_bytes(text: &str) -> Option<Vec<u8>> {
    let mut a = clvmr::Allocator::new();
    chialisp::classic::clvm_tools::binutils::assemble(&mut a, text).ok().and_then(|n| clvmr::serde::node_to_bytes(&a, n).ok())
}

// ---- classic optimiser: if R evaluates to v in E (consensus), optimise(R) evaluates to v in E
fn optimizer_vs_consensus(prog: &[u8], envsel: u8) -> Option<Value> {
    use chialisp::classic::clvm_tools::stages::stage_0::{DefaultProgramRunner, TRunProgram};
    use chialisp::classic::clvm_tools::stages::stage_2::optimize::optimize_sexp;
    use std::rc::Rc;
    let prog = prog.to_vec();
    let res = catch_unwind(move || {
        let mut a = clvmr::Allocator::new();
        let p = match clvmr::serde::node_from_bytes(&mut a, &prog) { Ok(p) => p, Err(_) => return None };
        let mut tag = 0u8;
        let env = match envsel { 0 => build_tree(&mut a, 4, &mut tag), 1 => comb(&mut a, 20, true), 2 => comb(&mut a, 20, false), 3 => build_tree(&mut a, 17, &mut tag), 4 => comb(&mut a, 80, true), _ => comb(&mut a, 80, false) };
        let runner = Rc::new(DefaultProgramRunner::new());
        let orig = runner.run_program(&mut a, p, env, None).ok().and_then(|r| clvmr::serde::node_to_bytes(&a, r.1).ok())?;
        let opt = match optimize_sexp(&mut a, p, runner.clone()) { Ok(o) => o, Err(e) => return Some((Some(orig), None, format!("optimizer rejected: {:?}", e))) };
        let optb = clvmr::serde::node_to_bytes(&a, opt).ok();
        let after = runner.run_program(&mut a, opt, env, None).ok().and_then(|r| clvmr::serde::node_to_bytes(&a, r.1).ok());
        Some((Some(orig), after, format!("optimised program bytes {:?}", optb)))
    });
    match res {
        Ok(Some((o, a, note))) if o != a => Some(hit(json!({}), format!("value of R in E: {:?}", o), format!("value of optimise(R) in E: {:?} ({})", a, note), "optimize_sexp then clvmr run_program vs clvmr run_program of the original")),
        Err(_) => Some(hit(json!({}), "no panic".into(), "panic".into(), "optimizer panicked")),
        _ => None,
    }
}
// the cl23+ path shortening on hand-written CLVM: (f / r chains over a number) keeps its value also when the number is
// zero or negative (its bytes then spell a large unsigned path, or nil)
fn brief_vs_consensus(text: &str, envsel: u8) -> Option<Value> {
    use chialisp::classic::clvm_tools::stages::stage_0::{DefaultProgramRunner, TRunProgram};
    use chialisp::compiler::clvm::convert_to_clvm_rs;
    use chialisp::compiler::optimize::brief::brief_path_selection;
    use chialisp::compiler::sexp::parse_sexp;
    use chialisp::compiler::srcloc::Srcloc;
    let t = text.to_string();
    let res = catch_unwind(move || {
        let mut a = clvmr::Allocator::new();
        let parsed = parse_sexp(Srcloc::start("*replay*"), t.bytes()).ok().and_then(|v| v.first().cloned())?;
        let (_, shortened) = brief_path_selection(parsed.clone());
        let (p, q) = (convert_to_clvm_rs(&mut a, parsed).ok()?, convert_to_clvm_rs(&mut a, shortened.clone()).ok()?);
        let mut tag = 0u8;
        let env = match envsel { 0 => build_tree(&mut a, 9, &mut tag), 1 => comb(&mut a, 20, true), _ => comb(&mut a, 20, false) };
        let runner = DefaultProgramRunner::new();
        let orig = runner.run_program(&mut a, p, env, None).ok().and_then(|r| clvmr::serde::node_to_bytes(&a, r.1).ok())?;
        let after = runner.run_program(&mut a, q, env, None).ok().and_then(|r| clvmr::serde::node_to_bytes(&a, r.1).ok());
        if after.as_ref() != Some(&orig) { Some((orig, after, shortened.to_string())) } else { None }
    });
    match res {
        Ok(Some((o, a, sh))) => Some(hit(json!({"modern_clvm": text, "env": envsel}), format!("value of R in E: {:?}", o), format!("brief_path_selection gives {} with value {:?}", sh, a), "brief_path_selection then clvmr run_program vs clvmr run_program of the original")),
        Err(_) => Some(hit(json!({"modern_clvm": text}), "no panic".into(), "panic".into(), "brief_path_selection panicked")),
        _ => None,
    }
}
// insert (include DIALECT) right after the mod's argument list
fn with_dialect(body: &str, d: &str) -> String {
    let start = body.find("(mod ").map(|i| i + 5).unwrap_or(0);
    let bytes = body.as_bytes();
    let mut i = start;
    while i < bytes.len() && bytes[i] == b' ' { i += 1; }
    let end = if i < bytes.len() && bytes[i] == b'(' {
        let mut depth = 0; let mut j = i;
        loop { if bytes[j] == b'(' { depth += 1; } else if bytes[j] == b')' { depth -= 1; if depth == 0 { break; } } j += 1; }
        j + 1
    } else { let mut j = i; while j < bytes.len() && bytes[j] != b' ' { j += 1; } j };
    format!("{} (include {}){}", &body[..end], d, &body[end..])
}
fn hexv(hex: &str) -> Vec<u8> { (0..hex.len() / 2).map(|i| u8::from_str_radix(&hex[2 * i..2 * i + 2], 16).unwrap()).collect() }
fn optimizer_programs() -> Vec<Vec<u8>> {
    let mut v: Vec<Vec<u8>> = vec![];
    // (f P), (r P), (a (q . P) 1), (a (q . (f P)) (c 1 1)) for path atoms P of various widths / bit patterns
    let mut paths: Vec<Vec<u8>> = vec![];
    for b in [1u8, 2, 3, 5, 6, 7, 0x3f, 0x40, 0x7f] { paths.push(vec![b]); }
    for b in [0x80u8, 0x81, 0xc0, 0xff] { paths.push(vec![0x81, b]); }
    for hi in [0x00u8, 0x01, 0x7f, 0x80, 0xfe, 0xff] { for lo in [0x00u8, 0x01, 0x7f, 0x80, 0xff] { if hi != 0 || lo != 0 { paths.push(vec![0x82, hi, lo]); } } }
    paths.push(vec![0x83, 0x00, 0xff, 0xff]); paths.push(vec![0x83, 0xff, 0xff, 0xff]); paths.push(vec![0x84, 0x00, 0x00, 0x00, 0x07]);
    // machine-word boundaries: 7-, 8- and 9-byte path atoms, top bit set and clear
    for w in [7usize, 8, 9] { for first in [0xffu8, 0x80, 0x7f, 0x01] { let mut p = vec![0x80 + w as u8, first]; for _ in 1..w { p.push(0xff); } paths.push(p); } }
    for p in &paths {
        for op in [5u8, 6u8] { let mut x = vec![0xff, op, 0xff]; x.extend(p); x.push(0x80); v.push(x); }
        // (a (q . P) 1)
        let mut x = hexv("ff02ffff01"); x.extend(p); x.extend(hexv("ffff0180")); v.push(x);
        // (a (q . P) (c 1 1))  -- exercises sub_args / path_from_args
        let mut x = hexv("ff02ffff01"); x.extend(p); x.extend(hexv("ffff04ff01ff018080")); v.push(x);
    }
    // (a (q . (c P1 P2)) N): re-rooting quoted code at an environment path N (seed C04-d composed the paths the wrong way round)
    for p1 in 2u8..8 { for p2 in 2u8..8 { for n in [2u8, 3, 5, 6, 7] {
        v.push(vec![0xff, 0x02, 0xff, 0xff, 0x01, 0xff, 0x04, 0xff, p1, 0xff, p2, 0x80, 0xff, n, 0x80]);
    } } }
    // an operator given as a one-element list applies to its operands as they are (finding F47: the optimisers read them as code)
    for t in ["((+) 2 3)", "(a (q . ((+) 2 3)) (c 5 7))", "(c ((concat) 2 3) 1)"] { if let Some(b) = asm_bytes(t) { v.push(b); } }
    for t in ["(a (q . (c 4 6)) (c 5 ()))", "(a (q . (c 2 5)) (c 7 (c 5 ())))", "(a (q . (f 5)) 3)", "(a (q . (r 6)) 5)"] { if let Some(b) = asm_bytes(t) { v.push(b); } }
    for hex in ["ff02ffff0180ffff04ff01ff018080", "ff02ffff0100ffff04ff01ff018080", "ff0101", "ff04ffff0101ffff010280", "ff02ffff01ff05ff0280ffff04ff01ff018080", "ff05ffff04ff02ff038080", "ff06ffff04ff02ff038080"] { v.push(hexv(hex)); }
    v
}

// ---- Srcloc geometry
fn chk_advance(line: usize, col: usize, ch: u8) -> Option<Value> {
    use chialisp::compiler::srcloc::Srcloc;
    use std::rc::Rc;
    let l = Srcloc::new(Rc::new("*replay*".to_string()), line, col);
    let r = l.advance(ch);
    let want = if ch == 10 { (line + 1, 1) } else if ch == 9 { (line, ((col + 8) / 8) * 8) } else { (line, col + 1) };
    if (r.line, r.col) != want || r.until.is_some() || r.file != l.file {
        Some(hit(json!({"line": line, "col": col, "ch": ch}), format!("{:?}", want), format!("({}, {})", r.line, r.col), "Srcloc::advance vs advance_pos"))
    } else { None }
}
fn chk_combine(a: (usize, usize, Option<(usize, usize)>), b: (usize, usize, Option<(usize, usize)>)) -> Option<Value> {
    use chialisp::compiler::srcloc::{Srcloc, Until};
    use std::rc::Rc;
    let f = Rc::new("*replay*".to_string());
    let mk = |x: (usize, usize, Option<(usize, usize)>)| { let mut l = Srcloc::new(f.clone(), x.0, x.1); l.until = x.2.map(|u| Until { line: u.0, col: u.1 }); l };
    let (la, lb) = (mk(a), mk(b));
    let end = |l: &Srcloc| match &l.until { None => (l.line, l.col + 1), Some(u) => (u.line, u.col) };
    let r = la.ext(&lb);
    let start = std::cmp::min((la.line, la.col), (lb.line, lb.col));
    let hull = std::cmp::max(end(&la), end(&lb));
    if (r.line, r.col) != start || end(&r) > hull {
        Some(hit(json!({"a": format!("{:?}", a), "b": format!("{:?}", b)}), format!("start {:?}, end <= {:?}", start, hull), format!("start ({}, {}), end {:?}", r.line, r.col, end(&r)), "Srcloc::ext / combine_src_location vs hull spec"))
    } else { None }
}
// ---- CLVM <-> rich SExp conversion, hashes, equality
fn chk_convert(atom_or_tree: &[u8]) -> Option<Value> {
    use chialisp::compiler::clvm::{convert_from_clvm_rs, convert_to_clvm_rs, sha256tree, NewStyleIntConversion};
    use chialisp::compiler::srcloc::Srcloc;
    let data = atom_or_tree.to_vec();
    let res = catch_unwind(move || {
        for mode in [true, false] {
            let _g = NewStyleIntConversion::new(mode);
            let mut a = clvmr::Allocator::new();
            let n = match clvmr::serde::node_from_bytes(&mut a, &data) { Ok(n) => n, Err(_) => return None };
            let rich = match convert_from_clvm_rs(&mut a, Srcloc::start("*replay*"), n) { Ok(r) => r, Err(_) => continue };
            let back = match convert_to_clvm_rs(&mut a, rich.clone()) { Ok(b) => b, Err(_) => continue };
            let bytes_back = clvmr::serde::node_to_bytes(&a, back).unwrap();
            if bytes_back != data { return Some((mode, format!("round trip: {:?}", data), format!("round trip gave {:?} via {}", bytes_back, rich))); }
            let h_rich = sha256tree(rich.clone());
            let h_classic = chialisp::classic::clvm_tools::sha256tree::sha256tree(&mut a, n).data().clone();
            let h_cons = clvmr::serde::node_to_bytes(&a, n).ok().map(|_| chia_tree_hash(&a, n));
            if h_rich != h_classic || Some(h_rich.clone()) != h_cons { return Some((mode, "three tree hashes equal".into(), format!("rich {:?} classic {:?} consensus {:?}", &h_rich[..4], &h_classic[..4], h_cons.map(|h| h[..4].to_vec())))); }
        }
        None
    });
    match res {
        Ok(Some((mode, e, o))) => Some(hit(json!({"clvm_bytes": atom_or_tree, "int_mode_new": mode}), e, o, "convert_from_clvm_rs / convert_to_clvm_rs / sha256tree on the real crate")),
        Err(_) => Some(hit(json!({"clvm_bytes": atom_or_tree}), "no panic".into(), "panic".into(), "conversion panicked")),
        _ => None,
    }
}
fn chia_tree_hash(a: &clvmr::Allocator, n: clvmr::NodePtr) -> Vec<u8> {
    // consensus tree hash, straight from the definition with sha2 through clvmr's own hasher is not exported; recompute
    use clvmr::allocator::SExp;
    match a.sexp(n) {
        SExp::Atom => { let mut v = vec![1u8]; v.extend_from_slice(a.atom(n).as_ref()); sha256(&v) }
        SExp::Pair(l, r) => { let mut v = vec![2u8]; v.extend(chia_tree_hash(a, l)); v.extend(chia_tree_hash(a, r)); sha256(&v) }
    }
}
fn sha256(v: &[u8]) -> Vec<u8> {
    use chialisp::classic::clvm::__type_compatibility__::{sha256 as s, Bytes, BytesFromType};
    s(Bytes::new(Some(BytesFromType::Raw(v.to_vec())))).data().clone()
}
fn convert_inputs() -> Vec<Vec<u8>> {
    let mut atoms: Vec<Vec<u8>> = vec![vec![]];
    for b in 0u16..=0xff { atoms.push(vec![b as u8]); }
    if thorough() { for hi in 0u16..=0xff { for lo in 0u16..=0xff { atoms.push(vec![hi as u8, lo as u8]); } } }
    else { for hi in [0x00u8, 0x01, 0x7f, 0x80, 0x81, 0xfe, 0xff] { for lo in [0x00u8, 0x01, 0x7f, 0x80, 0x81, 0xff] { atoms.push(vec![hi, lo]); } } }
    for x in [[0x00u8, 0x00, 0x01], [0x00, 0x80, 0x00], [0xff, 0x80, 0x00], [0xff, 0xff, 0x80], [0xff, 0x7f, 0xff], [0x80, 0x00, 0x00], [0x68, 0x65, 0x6c]] { atoms.push(x.to_vec()); }
    let mut out = vec![];
    for at in &atoms {
        let mut a = clvmr::Allocator::new();
        let n = a.new_atom(at).unwrap();
        out.push(clvmr::serde::node_to_bytes(&a, n).unwrap());
    }
    // a few pairs
    for (x, y) in [(vec![0u8], vec![]), (vec![0xff, 0x80], vec![0x80]), (vec![1], vec![0, 0])] {
        let mut a = clvmr::Allocator::new();
        let l = a.new_atom(&x).unwrap(); let r = a.new_atom(&y).unwrap(); let p = a.new_pair(l, r).unwrap();
        out.push(clvmr::serde::node_to_bytes(&a, p).unwrap());
    }
    out
}

// ---- dependency listing: every file the compilation reads is listed, under the first matching search dir
fn deps_case(dialect: &str, shadow: bool) -> Option<Value> {
    use chialisp::compiler::compiler::DefaultCompilerOpts;
    use chialisp::compiler::comptypes::CompilerOpts;
    use chialisp::compiler::preprocessor::gather_dependencies;
    use std::rc::Rc;
    let base = std::env::temp_dir().join(format!("verif_replay_deps_{}_{}", std::process::id(), dialect.len() + shadow as usize));
    let d1 = base.join("first"); let d2 = base.join("second");
    let _ = std::fs::remove_dir_all(&base);
    std::fs::create_dir_all(&d1).ok()?; std::fs::create_dir_all(&d2).ok()?;
    // inc.clib and blob.bin live in `second`; with shadow=true a different inc.clib also lives in `first` (must win)
    std::fs::write(d2.join("inc.clib"), "((defconstant SECOND 2))").ok()?;
    std::fs::write(d2.join("deeper.clib"), "((defconstant DEEP 3))").ok()?;
    std::fs::write(d2.join("blob.bin"), [1u8, 2, 3]).ok()?;
    std::fs::write(d2.join("data.hex"), "ff0180").ok()?;
    std::fs::write(d2.join("*starred*.clib"), "((defconstant STARRED 9))").ok()?;
    if shadow { std::fs::write(d1.join("inc.clib"), "((defconstant FIRST 1))").ok()?; }
    // deeper.clib is included only by a (mod ...) nested in the main expression (finding F52: read, but not listed)
    let src = format!("(mod (X) (include {}) (include inc.clib) (include *starred*.clib) (embed-file blob bin blob.bin) (embed-file hx hex data.hex) (+ X (a (mod (Z) (include deeper.clib) (+ Z DEEP)) (list X))))", dialect);
    let opts: Rc<dyn CompilerOpts> = Rc::new(DefaultCompilerOpts::new("main.clsp"));
    // the first directory is named again at the end: first match still decides
    let opts = opts.set_search_paths(&[d1.to_string_lossy().to_string(), d2.to_string_lossy().to_string(), d1.to_string_lossy().to_string()]);
    let got = gather_dependencies(opts, "main.clsp", &src);
    let res = match got {
        Err(e) => Some(hit(json!({"source": src, "shadow": shadow}), "a dependency list".into(), format!("error {:?}", e.1), "gather_dependencies on a temp directory tree")),
        Ok(list) => {
            let names: Vec<String> = list.iter().map(|d| String::from_utf8_lossy(&d.name).to_string()).collect();
            let mut want: Vec<String> = vec![];
            if shadow { want.push(d1.join("inc.clib").to_string_lossy().to_string()); }
            else { want.push(d2.join("inc.clib").to_string_lossy().to_string()); }
            want.push(d2.join("*starred*.clib").to_string_lossy().to_string());
            want.push(d2.join("blob.bin").to_string_lossy().to_string());
            want.push(d2.join("data.hex").to_string_lossy().to_string());
            want.push(d2.join("deeper.clib").to_string_lossy().to_string());
            let missing: Vec<&String> = want.iter().filter(|w| !names.contains(w)).collect();
            let pseudo_listed = names.iter().any(|n| n.starts_with('*'));
            let wrong_shadow = shadow && names.contains(&d2.join("inc.clib").to_string_lossy().to_string());
            if !missing.is_empty() || wrong_shadow || pseudo_listed {
                Some(hit(json!({"source": src, "shadow": shadow, "dirs": ["first", "second"]}), format!("listing contains {:?}", want), format!("listing is {:?}", names), "gather_dependencies on a temp directory tree (files read: inc.clib *starred*.clib blob.bin data.hex)"))
            } else { None }
        }
    };
    let _ = std::fs::remove_dir_all(&base);
    res
}

// a classic (sigil-free) program whose include file includes another file: if it compiles, the listing names both files
fn deps_classic_nested() -> Option<Value> {
    use chialisp::classic::clvm_tools::clvmc::compile_clvm_text_maybe_opt;
    use chialisp::compiler::compiler::DefaultCompilerOpts;
    use chialisp::compiler::comptypes::CompilerOpts;
    use chialisp::compiler::preprocessor::gather_dependencies;
    use std::collections::HashMap;
    use std::rc::Rc;
    let base = std::env::temp_dir().join(format!("verif_replay_depsc_{}", std::process::id()));
    let _ = std::fs::remove_dir_all(&base);
    std::fs::create_dir_all(&base).ok()?;
    std::fs::write(base.join("l1.clib"), "(\n  (include l2.clib)\n  (defun-inline one (X) (two X))\n)").ok()?;
    std::fs::write(base.join("l2.clib"), "(\n  (defun-inline two (X) (+ X 2))\n)").ok()?;
    let src = "(mod (X) (include l1.clib) (one X))";
    let dirs = [base.to_string_lossy().to_string()];
    let res = catch_unwind(move || {
        let mut a = clvmr::Allocator::new();
        let opts: Rc<dyn CompilerOpts> = Rc::new(DefaultCompilerOpts::new("main.clsp"));
        let opts = opts.set_search_paths(&dirs);
        let mut syms = HashMap::new();
        let compiled = compile_clvm_text_maybe_opt(&mut a, false, opts.clone(), &mut syms, src, "main.clsp", false).is_ok();
        let listing = gather_dependencies(opts, "main.clsp", src).map(|l| l.iter().map(|d| String::from_utf8_lossy(&d.name).to_string()).collect::<Vec<String>>()).map_err(|e| e.1);
        (compiled, listing)
    });
    let _ = std::fs::remove_dir_all(&base);
    match res {
        Ok((true, Ok(names))) if names.iter().any(|n| n.ends_with("l1.clib")) && names.iter().any(|n| n.ends_with("l2.clib")) => None,
        Ok((true, l)) => Some(hit(json!({"classic_nested_include": true}), "the program compiles (classic compiler), so the listing names l1.clib and l2.clib".into(), format!("listing: {:?}", l), "compile_clvm_text_maybe_opt vs gather_dependencies on a temp directory")),
        Err(_) => Some(hit(json!({"classic_nested_include": true}), "no panic".into(), "panic".into(), "compile / gather_dependencies panicked")),
        _ => None,
    }
}

// ---- classic disassemble -> assemble round trip, every operator-set version
fn chk_disasm(clvm_bytes: &[u8]) -> Option<Value> {
    use chialisp::classic::clvm_tools::binutils::{assemble, disassemble};
    let data = clvm_bytes.to_vec();
    let res = catch_unwind(move || {
        for ver in [0usize, 1, 2] {
            let mut a = clvmr::Allocator::new();
            let n = match clvmr::serde::node_from_bytes(&mut a, &data) { Ok(n) => n, Err(_) => return None };
            let text = disassemble(&a, n, Some(ver));
            match assemble(&mut a, &text) {
                Err(e) => return Some((ver, text, format!("assembler rejected it: {:?}", e))),
                Ok(m) => { let back = clvmr::serde::node_to_bytes(&a, m).unwrap(); if back != data { return Some((ver, text, format!("re-assembled to {:?}", back))); } }
            }
        }
        None
    });
    match res {
        Ok(Some((ver, text, o))) => Some(hit(json!({"clvm_bytes": clvm_bytes, "version": ver}), format!("text {:?} assembles back to the same bytes", text), o, "binutils::disassemble then binutils::assemble")),
        Err(_) => Some(hit(json!({"clvm_bytes": clvm_bytes}), "no panic".into(), "panic".into(), "disassemble/assemble panicked")),
        _ => None,
    }
}
fn disasm_inputs() -> Vec<Vec<u8>> {
    let mut atoms: Vec<Vec<u8>> = vec![vec![]];
    for b in 0u16..=0xff { atoms.push(vec![b as u8]); }
    if thorough() { for hi in 0u16..=0xff { for lo in 0u16..=0xff { atoms.push(vec![hi as u8, lo as u8]); } } }
    else { for hi in 0u16..=0xff { for lo in [0x00u8, 0x01, 0x22, 0x27, 0x5c, 0x61, 0x7f, 0x80, 0xff] { atoms.push(vec![hi as u8, lo]); } } }
    for c in [b'"', b'\'', b'\\', b' ', b'#', b'(', b')', b'a', 0x00u8, 0x7f, 0x80] {
        atoms.push(vec![b'a', c, b'b']); atoms.push(vec![c, b'a', b'b']); atoms.push(vec![b'a', b'b', c]); atoms.push(vec![c, c, c]);
    }
    for c in [b'\t', b'\n', b'\r', 0x0cu8, 0x0b, 0x1b, 0x7f] { atoms.push(vec![b'a', c, b'b']); atoms.push(vec![b'a', b'b', c]); atoms.push(vec![c, b'a', b'b', b'c']); atoms.push(vec![b'h', b'e', b'l', b'l', b'o', c, b'w']); }
    atoms.push(b"hello world".to_vec()); atoms.push(vec![0x13, 0xd6, 0x1f, 0x00]); atoms.push(vec![0xff; 5]); atoms.push(vec![0, 0, 0, 1]);
    let mut out = vec![];
    for at in &atoms {
        let mut a = clvmr::Allocator::new();
        let n = a.new_atom(at).unwrap();
        out.push(clvmr::serde::node_to_bytes(&a, n).unwrap());
        // also in operator position and as an argument
        let nil = a.nil();
        let l = a.new_pair(n, nil).unwrap();
        out.push(clvmr::serde::node_to_bytes(&a, l).unwrap());
        let ll = a.new_pair(l, n).unwrap();
        out.push(clvmr::serde::node_to_bytes(&a, ll).unwrap());
    }
    // structure: every tree with at most 5 leaves over {nil, 1, "abc", 0x00} (proper and improper lists, nil elements before atom tails,
    // lists inside tails, nested empty lists); seed C09-e dropped an atom tail that follows a nil element
    fn trees(a: &mut clvmr::Allocator, leaves: usize, kinds: &[clvmr::NodePtr], memo: &mut Vec<Vec<clvmr::NodePtr>>) {
        while memo.len() <= leaves { memo.push(vec![]); }
        if !memo[leaves].is_empty() { return; }
        if leaves == 1 { memo[1] = kinds.to_vec(); return; }
        let mut acc = vec![];
        for l in 1..leaves { trees(a, l, kinds, memo); trees(a, leaves - l, kinds, memo); let (ls, rs) = (memo[l].clone(), memo[leaves - l].clone()); for x in ls.iter() { for y in rs.iter() { if let Ok(p) = a.new_pair(*x, *y) { acc.push(p); } } } }
        memo[leaves] = acc;
    }
    {
        let mut a = clvmr::Allocator::new();
        let kinds = vec![a.nil(), a.new_atom(&[1]).unwrap(), a.new_atom(b"abc").unwrap(), a.new_atom(&[0]).unwrap()];
        let mut memo: Vec<Vec<clvmr::NodePtr>> = vec![vec![]];
        for k in 2..=5usize { trees(&mut a, k, &kinds, &mut memo); for n in memo[k].clone() { if let Ok(b) = clvmr::serde::node_to_bytes(&a, n) { out.push(b); } } }
    }
    out
}

// ---- modern printer: printed text is read back to the same CLVM value by the modern reader and by the classic assembler
fn chk_modern_print(clvm_bytes: &[u8]) -> Option<Value> {
    use chialisp::classic::clvm_tools::binutils::assemble;
    use chialisp::compiler::clvm::{convert_from_clvm_rs, convert_to_clvm_rs};
    use chialisp::compiler::sexp::parse_sexp;
    use chialisp::compiler::srcloc::Srcloc;
    let data = clvm_bytes.to_vec();
    let res = catch_unwind(move || {
        let mut a = clvmr::Allocator::new();
        let n = match clvmr::serde::node_from_bytes(&mut a, &data) { Ok(n) => n, Err(_) => return None };
        let rich = convert_from_clvm_rs(&mut a, Srcloc::start("*replay*"), n).ok()?;
        let text = rich.to_string();
        let modern = parse_sexp(Srcloc::start("*replay*"), text.bytes()).ok().and_then(|v| v.first().cloned())
            .and_then(|s| convert_to_clvm_rs(&mut a, s).ok()).and_then(|m| clvmr::serde::node_to_bytes(&a, m).ok());
        if modern.as_ref() != Some(&data) { return Some((text, format!("modern reader gave {:?}", modern))); }
        let classic = assemble(&mut a, &text).ok().and_then(|m| clvmr::serde::node_to_bytes(&a, m).ok());
        if classic.as_ref() != Some(&data) { return Some((text, format!("classic assembler gave {:?}", classic))); }
        None
    });
    match res {
        Ok(Some((text, o))) => Some(hit(json!({"clvm_bytes": clvm_bytes}), format!("printed text {:?} reads back to the same bytes", text), o, "SExp Display then parse_sexp / binutils::assemble")),
        Err(_) => Some(hit(json!({"clvm_bytes": clvm_bytes}), "no panic".into(), "panic".into(), "modern print/read panicked")),
        _ => None,
    }
}

// the program text printed for a compilation (what `run` shows) is read back, by the modern reader and by the classic assembler,
// to the bytes the library entry point emits for the same compilation
fn chk_modern_print_program(src: &str) -> Option<Value> {
    use chialisp::classic::clvm_tools::binutils::assemble;
    use chialisp::classic::clvm_tools::clvmc::compile_clvm_text_maybe_opt;
    use chialisp::classic::clvm_tools::comp_input::RunAndCompileInputData;
    use chialisp::classic::platform::argparse::ArgumentValue;
    use chialisp::compiler::clvm::{convert_to_clvm_rs, NewStyleIntConversion};
    use chialisp::compiler::compiler::DefaultCompilerOpts;
    use chialisp::compiler::comptypes::CompilerOpts;
    use chialisp::compiler::sexp::parse_sexp;
    use chialisp::compiler::srcloc::Srcloc;
    use std::collections::HashMap;
    use std::rc::Rc;
    let text_src = src.to_string();
    let res = catch_unwind(move || {
        let mut a = clvmr::Allocator::new();
        // the bytes the library / file-writing entry point emits
        let opts: Rc<dyn CompilerOpts> = Rc::new(DefaultCompilerOpts::new("*command*"));
        let mut syms = HashMap::new();
        let want = compile_clvm_text_maybe_opt(&mut a, false, opts, &mut syms, &text_src, "*command*", false).ok()
            .and_then(|n| clvmr::serde::node_to_bytes(&a, n).ok())?;
        // the text the command-line compiler prints (launch_tool: compile_modern(..).to_string())
        let mut args: HashMap<String, ArgumentValue> = HashMap::new();
        args.insert("path_or_code".to_string(), ArgumentValue::ArgString(None, text_src.clone()));
        let printed = RunAndCompileInputData::new(&mut a, &args).ok().and_then(|d| { let mut s2 = HashMap::new(); d.compile_modern(&mut a, &mut s2).ok() })?;
        let text = printed.to_string();
        let _mode = NewStyleIntConversion::new(true);
        let modern = parse_sexp(Srcloc::start("*replay*"), text.bytes()).ok().and_then(|v| v.first().cloned())
            .and_then(|s| convert_to_clvm_rs(&mut a, s).ok()).and_then(|m| clvmr::serde::node_to_bytes(&a, m).ok());
        if modern.as_ref() != Some(&want) { return Some((text, format!("modern reader gave {:?}, the library emits {:?}", modern, want))); }
        let classic = assemble(&mut a, &text).ok().and_then(|m| clvmr::serde::node_to_bytes(&a, m).ok());
        if classic.as_ref() != Some(&want) { return Some((text, format!("classic assembler (brun, opc) gave {:?}, the library emits {:?}", classic, want))); }
        None
    });
    match res {
        Ok(Some((text, o))) => Some(hit(json!({"program": src}), format!("printed program text {:?} reads back to the bytes the library emits", text), o, "compile_file -> SExp Display -> parse_sexp / binutils::assemble vs convert_to_clvm_rs")),
        Err(_) => Some(hit(json!({"program": src}), "no panic".into(), "panic".into(), "compile / print / read panicked")),
        _ => None,
    }
}

// a QuotedString constant (as the compiler keeps source strings and printable hex constants) printed by the modern
// printer is read back to the same bytes by the modern reader and by the classic assembler
fn chk_modern_print_quoted(kind: u8, body: &[u8]) -> Option<Value> {
    use chialisp::classic::clvm_tools::binutils::assemble;
    use chialisp::compiler::clvm::convert_to_clvm_rs;
    use chialisp::compiler::sexp::{parse_sexp, SExp};
    use chialisp::compiler::srcloc::Srcloc;
    use std::rc::Rc;
    let b = body.to_vec();
    let res = catch_unwind(move || {
        let mut a = clvmr::Allocator::new();
        let loc = Srcloc::start("*replay*");
        let v = Rc::new(SExp::Cons(loc.clone(), Rc::new(SExp::Integer(loc.clone(), num_bigint::BigInt::from(1))), Rc::new(SExp::QuotedString(loc.clone(), kind, b.clone()))));
        let want = convert_to_clvm_rs(&mut a, v.clone()).ok().and_then(|m| clvmr::serde::node_to_bytes(&a, m).ok())?;
        let text = v.to_string();
        let modern = parse_sexp(loc.clone(), text.bytes()).ok().and_then(|v| v.first().cloned())
            .and_then(|s| convert_to_clvm_rs(&mut a, s).ok()).and_then(|m| clvmr::serde::node_to_bytes(&a, m).ok());
        if modern.as_ref() != Some(&want) { return Some((text, format!("modern reader gave {:?}, the value is {:?}", modern, want))); }
        let classic = assemble(&mut a, &text).ok().and_then(|m| clvmr::serde::node_to_bytes(&a, m).ok());
        if classic.as_ref() != Some(&want) { return Some((text, format!("classic assembler gave {:?}, the value is {:?}", classic, want))); }
        None
    });
    match res {
        Ok(Some((text, o))) => Some(hit(json!({"quote_kind": kind, "string_bytes": body}), format!("printed text {:?} reads back to the same bytes", text), o, "SExp::QuotedString Display then parse_sexp / binutils::assemble")),
        Err(_) => Some(hit(json!({"quote_kind": kind, "string_bytes": body}), "no panic".into(), "panic".into(), "modern print/read panicked")),
        _ => None,
    }
}

// ---- front ends never panic: all short texts over a hostile alphabet, all short byte strings
// ---- watchdog for the no-panic sweep: the sweep runs in a child process that notes the input it is working on; the parent reports an
// input on which the child makes no progress (endless loop) or dies (abort, stack overflow) -- neither can be caught in-process
thread_local! { static PROGRESS: std::cell::RefCell<Option<(std::fs::File, u64)>> = std::cell::RefCell::new(None); }
fn progress_note(kind: &str, data: &[u8]) {
    use std::io::{Seek, SeekFrom, Write};
    PROGRESS.with(|p| { if let Some((f, n)) = p.borrow_mut().as_mut() {
        *n += 1;
        let line = format!("{} {} {}\n", n, kind, data.iter().map(|b| format!("{:02x}", b)).collect::<String>());
        let _ = f.seek(SeekFrom::Start(0)); let _ = f.write_all(line.as_bytes()); let _ = f.write_all(&[b' '; 64]);
    } });
}
fn no_panic_supervised(seed: u64) -> Option<Value> {
    use std::io::Read;
    let path = std::env::temp_dir().join(format!("verif_replay_progress_{}", std::process::id()));
    let _ = std::fs::write(&path, b"0 start \n");
    let exe = match std::env::current_exe() { Ok(e) => e, Err(_) => return None };
    let mut child = match std::process::Command::new(exe).args(["search", "no_panic", &seed.to_string()]).env("VERIF_NOPANIC_CHILD", &path)
        .stdout(std::process::Stdio::piped()).stderr(std::process::Stdio::null()).spawn() { Ok(c) => c, Err(_) => return None };
    let read_progress = || -> (u64, String, Vec<u8>) {
        let t = std::fs::read_to_string(&path).unwrap_or_default();
        let mut it = t.lines().next().unwrap_or("").split_whitespace();
        let n = it.next().and_then(|x| x.parse().ok()).unwrap_or(0);
        let kind = it.next().unwrap_or("").to_string();
        let hx = it.next().unwrap_or("");
        let data = (0..hx.len() / 2).filter_map(|i| u8::from_str_radix(&hx[2 * i..2 * i + 2], 16).ok()).collect();
        (n, kind, data)
    };
    let mut last = (0u64, std::time::Instant::now());
    let mut out = String::new();
    let verdict = loop {
        match child.try_wait() {
            Ok(Some(st)) => {
                if let Some(mut o) = child.stdout.take() { let _ = o.read_to_string(&mut out); }
                if st.code().is_some() { break None; }
                let (_, kind, data) = read_progress();
                break Some(hit(json!({"kind": kind, "text_bytes": data}), "result or error".into(), "the process died on a signal (abort / stack overflow)".into(), "no-panic sweep in a child process"));
            }
            Ok(None) => {
                let (n, kind, data) = read_progress();
                if n != last.0 { last = (n, std::time::Instant::now()); }
                else if last.1.elapsed().as_secs() >= 20 {
                    let _ = child.kill(); let _ = child.wait();
                    break Some(hit(json!({"kind": kind, "text_bytes": data}), "result or error".into(), "no return within 20 s (endless loop)".into(), "no-panic sweep in a child process"));
                }
                std::thread::sleep(std::time::Duration::from_millis(50));
            }
            Err(_) => break None,
        }
    };
    let _ = std::fs::remove_file(&path);
    match verdict {
        Some(v) => Some(v),
        None => out.lines().rev().find(|l| l.starts_with('{')).and_then(|l| serde_json::from_str::<Value>(l).ok()),
    }
}
fn chk_no_panic_text(text: &[u8]) -> Option<Value> {
    progress_note("text", text);
    use chialisp::classic::clvm_tools::binutils::assemble;
    use chialisp::compiler::sexp::parse_sexp;
    use chialisp::compiler::srcloc::Srcloc;
    let t1 = text.to_vec();
    if catch_unwind(move || { let _ = parse_sexp(Srcloc::start("*replay*"), t1.iter().copied()); }).is_err() {
        return Some(hit(json!({"text_bytes": text}), "result or error".into(), "panic".into(), "compiler::sexp::parse_sexp"));
    }
    let t2 = String::from_utf8_lossy(text).to_string();
    if catch_unwind(move || { let mut a = clvmr::Allocator::new(); let _ = assemble(&mut a, &t2); }).is_err() {
        return Some(hit(json!({"text_bytes": text}), "result or error".into(), "panic".into(), "binutils::assemble (read_ir + assemble_from_ir)"));
    }
    None
}
fn chk_no_panic_bytes(data: &[u8]) -> Option<Value> {
    progress_note("bytes", data);
    let d = data.to_vec();
    let r = catch_unwind(move || tool_deser(&d));
    match r { Ok(Some(v)) if v == b"<panic>".to_vec() => Some(hit(json!({"bytes": data}), "result or error".into(), "panic".into(), "sexp_from_stream")), Err(_) => Some(hit(json!({"bytes": data}), "result or error".into(), "panic".into(), "sexp_from_stream")), _ => None }
}


// ---- C14 / C18: degenerate include files (each case runs in a child process: a stack overflow cannot be caught in-process)
const INCLUDE_KINDS: &[&str] = &["empty", "spaces", "comment", "atom", "nil_form", "two_forms", "string", "diamond", "missing", "dir", "cycle1", "cycle2", "embed_sexp_empty", "embed_sexp_comment", "embed_sexp_two", "embed_hex_junk", "embed_hex_odd", "embed_bin_empty", "embed_missing"];
const INCLUDE_MODES: &[&str] = &["cl21", "cl23", "classic"];
pub fn include_child(kind: &str, mode: &str) -> i32 {
    use chialisp::classic::clvm_tools::clvmc::compile_clvm_text_maybe_opt;
    use chialisp::compiler::compiler::DefaultCompilerOpts;
    use chialisp::compiler::comptypes::CompilerOpts;
    use chialisp::compiler::preprocessor::gather_dependencies;
    use std::collections::HashMap;
    use std::rc::Rc;
    let base = std::env::temp_dir().join(format!("verif_replay_inc_{}_{}_{}", std::process::id(), kind, mode));
    let _ = std::fs::remove_dir_all(&base);
    if std::fs::create_dir_all(&base).is_err() { return 9; }
    let w = |n: &str, c: &str| { let _ = std::fs::write(base.join(n), c); };
    match kind {
        "empty" => w("inc.clib", ""),
        "spaces" => w("inc.clib", "  \n\t \n"),
        "comment" => w("inc.clib", "; nothing here\n"),
        "atom" => w("inc.clib", "hello"),
        "nil_form" => w("inc.clib", "()"),
        "two_forms" => w("inc.clib", "((defconstant K1 1)) ((defconstant K2 2))"),
        "string" => w("inc.clib", "\"just a string\""),
        "diamond" => { w("inc.clib", "((include left.clib) (include right.clib))"); w("left.clib", "((include shared.clib) (defconstant L 1))"); w("right.clib", "((include shared.clib) (defconstant R 2))"); w("shared.clib", "((defun-inline twice (A) (* A 2)))"); }
        "missing" => {}
        "dir" => { let _ = std::fs::create_dir_all(base.join("inc.clib")); }
        "cycle1" => w("inc.clib", "((include inc.clib))"),
        "cycle2" => { w("inc.clib", "((include other.clib))"); w("other.clib", "((include inc.clib))"); }
        "embed_sexp_empty" => w("data.bin", ""),
        "embed_sexp_comment" => w("data.bin", "; no form\n  "),
        "embed_sexp_two" => w("data.bin", "(1 2) (3 4)"),
        "embed_hex_junk" => w("data.bin", "zz not hex"),
        "embed_hex_odd" => w("data.bin", "ff018"),
        "embed_bin_empty" => w("data.bin", ""),
        "embed_missing" => {}
        _ => return 9,
    }
    let sigil = match mode { "cl21" => "(include *standard-cl-21*) ", "cl23" => "(include *standard-cl-23*) ", _ => "" };
    let src = if kind.starts_with("embed_") {
        let how = if kind.contains("sexp") { "sexp" } else if kind.contains("hex") { "hex" } else { "bin" };
        format!("(mod (X) {}(embed-file thing {} data.bin) (c X thing))", sigil, how)
    } else { format!("(mod (X) {}(include inc.clib) (+ X 1))", sigil) };
    let dirs = vec![base.to_string_lossy().to_string()];
    let r = catch_unwind(move || {
        let mut a = clvmr::Allocator::new();
        let opts: Rc<dyn CompilerOpts> = Rc::new(DefaultCompilerOpts::new("main.clsp"));
        let opts = opts.set_search_paths(&dirs);
        let mut syms = HashMap::new();
        let c = compile_clvm_text_maybe_opt(&mut a, false, opts.clone(), &mut syms, &src, "main.clsp", false).is_ok();
        let d = gather_dependencies(opts, "main.clsp", &src).is_ok();
        (c, d)
    });
    let _ = std::fs::remove_dir_all(&base);
    match r { Err(_) => 3, Ok(_) => 0 }
}
fn chk_include_case(kind: &str, mode: &str) -> Option<Value> {
    let input = json!({"include_file": kind, "mode": mode});
    let exe = match std::env::current_exe() { Ok(e) => e, Err(_) => return None };
    let out = std::process::Command::new(exe).args(["child_include", kind, mode]).stdout(std::process::Stdio::null()).stderr(std::process::Stdio::null()).status();
    let how = "compile_clvm_text_maybe_opt + gather_dependencies on (mod (X) [sigil] (include inc.clib) (+ X 1)) with the include file(s) of this kind in a scratch search directory, in a child process";
    match out {
        Ok(st) => match st.code() {
            Some(0) => None,
            Some(3) => Some(hit(input, "a result or an error".into(), "panic".into(), how)),
            Some(4) => Some(hit(input, "a diamond-shaped include graph compiles".into(), "compile error".into(), how)),
            Some(c) => Some(hit(input, "a result or an error".into(), format!("child exit code {}", c), how)),
            None => Some(hit(input, "a result or an error".into(), "process killed by a signal (stack overflow abort)".into(), how)),
        },
        Err(_) => None,
    }
}


// ---- C19 (bounded stress stand-in, used when the contract unit cannot decide): concurrent writers and readers of one output path
fn chk_atomic_write(rounds: usize) -> Option<Value> {
    use chialisp::util::gentle_overwrite;
    use std::sync::atomic::{AtomicBool, Ordering};
    use std::sync::Arc;
    let base = std::env::temp_dir().join(format!("verif_replay_atomic_{}", std::process::id()));
    let _ = std::fs::remove_dir_all(&base);
    if std::fs::create_dir_all(&base).is_err() { return None; }
    let out = base.join("out.hex").to_string_lossy().to_string();
    let payloads: Vec<String> = (0..4usize).map(|k| { let mut t = String::new(); for i in 0..(300_000 + 100_000 * k) { t.push((b'a' + ((i + k) % 23) as u8) as char); } t }).collect();
    let payloads = Arc::new(payloads);
    let _ = std::fs::write(&out, &payloads[0]);
    let mut problem: Option<String> = None;
    for round in 0..rounds {
        let stop = Arc::new(AtomicBool::new(false));
        let bad = Arc::new(std::sync::Mutex::new(None::<String>));
        let mut hs = vec![];
        for r in 0..2 {
            let (stop, bad, out, payloads) = (stop.clone(), bad.clone(), out.clone(), payloads.clone());
            hs.push(std::thread::spawn(move || { let _ = r; while !stop.load(Ordering::Relaxed) {
                if let Ok(t) = std::fs::read_to_string(&out) { if !payloads.iter().any(|p| *p == t) { *bad.lock().unwrap() = Some(format!("a reader saw {} bytes that are none of the complete payloads", t.len())); } }
            } }));
        }
        let mut ws = vec![];
        for w in 0..8usize {
            let (out, payloads, bad) = (out.clone(), payloads.clone(), bad.clone());
            ws.push(std::thread::spawn(move || { for i in 0..3usize {
                let p = &payloads[(w + i) % payloads.len()];
                if let Err(e) = gentle_overwrite("in.clsp", &out, p) { *bad.lock().unwrap() = Some(format!("writer {} failed although the directory is writable: {}", w, e)); }
            } }));
        }
        for w in ws { let _ = w.join(); }
        stop.store(true, Ordering::Relaxed);
        for h in hs { let _ = h.join(); }
        let seen: Option<String> = { let g = bad.lock().unwrap(); g.clone() };
        if let Some(b) = seen { problem = Some(format!("round {}: {}", round, b)); break; }
    }
    let _ = std::fs::remove_dir_all(&base);
    problem.map(|o| hit(json!({"schedule": "8 writer threads x 3 gentle_overwrite calls of 4 payloads (300-600 kB) on one path, 2 polling readers", "rounds": rounds}), "every read returns one complete payload and every writer succeeds".into(), o, "chialisp::util::gentle_overwrite under threads (bounded stress run, not a proof)"))
}


// ---- C14: the defmac extension functions with every argument count 0..4 and argument kinds (string, number, symbol, list)
fn chk_macro_ext(name: &str, args: &[&str]) -> Option<Value> {
    let src = format!("(mod (X) (include *standard-cl-23*) (defmac m () ({} {})) (m))", name, args.join(" "));
    let s2 = src.clone();
    match catch_unwind(move || compile_only(&s2)) {
        Err(_) => Some(hit(json!({"program": src}), "a result or an error".into(), "panic".into(), "compile_clvm_text_maybe_opt (strict dialect, defmac extension function)")),
        Ok(_) => None,
    }
}
// token-level mutations of valid programs: delete / duplicate / swap one token, truncate at every token
fn tokens_of(src: &str) -> Vec<String> {
    let mut out = vec![]; let mut cur = String::new();
    for ch in src.chars() {
        if ch == '(' || ch == ')' || ch == ' ' { if !cur.is_empty() { out.push(cur.clone()); cur.clear(); } if ch != ' ' { out.push(ch.to_string()); } } else { cur.push(ch); }
    }
    if !cur.is_empty() { out.push(cur); }
    out
}
fn chk_compile_no_panic(src: &str) -> Option<Value> {
    let s2 = src.to_string();
    match catch_unwind(move || { let _ = compile_only(&s2); }) {
        Err(_) => Some(hit(json!({"program": src}), "a result or an error".into(), "panic".into(), "compile_clvm_text_maybe_opt on a token-level mutation of a valid program")),
        Ok(_) => None,
    }
}

// ---- C19 (file-to-file compilation): the output path holds its previous state or the complete new contents, also when the compile fails
fn chk_compile_clvm_files() -> Option<Value> {
    use chialisp::classic::clvm_tools::clvmc::compile_clvm;
    use std::collections::HashMap;
    let base = std::env::temp_dir().join(format!("verif_replay_clvmc_{}", std::process::id()));
    let _ = std::fs::remove_dir_all(&base);
    if std::fs::create_dir_all(&base).is_err() { return None; }
    let p = |n: &str| base.join(n).to_string_lossy().to_string();
    let mut problem: Option<(String, String)> = None;
    // 1. a source that does not compile, output absent: the output stays absent
    let _ = std::fs::write(p("bad.clsp"), "(mod (X) (include *standard-cl-23*) (+ X undefined_name))");
    let r = catch_unwind(|| { let mut s = HashMap::new(); compile_clvm(&p("bad.clsp"), &p("bad.hex"), &[], &mut s) });
    if std::path::Path::new(&p("bad.hex")).exists() { problem = Some(("failing compile to an absent output path".into(), format!("the output path now exists with {:?} (compile returned {:?})", std::fs::read_to_string(p("bad.hex")).ok(), r.ok()))); }
    // 2. a source that does not compile, output present: the output keeps its contents
    if problem.is_none() {
        let _ = std::fs::write(p("bad2.clsp"), "(mod (X) (include *standard-cl-23*) (+ X undefined_name))");
        let _ = std::fs::write(p("bad2.hex"), "ff0180\n");
        // make the source newer than the output
        std::thread::sleep(std::time::Duration::from_millis(30));
        let _ = std::fs::write(p("bad2.clsp"), "(mod (X) (include *standard-cl-23*) (+ X undefined_name2))");
        let _ = catch_unwind(|| { let mut s = HashMap::new(); compile_clvm(&p("bad2.clsp"), &p("bad2.hex"), &[], &mut s) });
        let now = std::fs::read_to_string(p("bad2.hex")).ok();
        if now.as_deref() != Some("ff0180\n") { problem = Some(("failing compile over an existing output".into(), format!("the output now holds {:?}", now))); }
    }
    // 3. a good compile to an absent path while a reader polls: the reader sees the path absent or complete
    if problem.is_none() {
        let mut body = String::from("(mod (X) (include *standard-cl-21*) (list");
        for i in 0..400 { body.push_str(&format!(" (+ X {})", 1000000 + i)); }
        body.push_str("))");
        let _ = std::fs::write(p("good.clsp"), &body);
        let out = p("good.hex");
        let stop = std::sync::Arc::new(std::sync::atomic::AtomicBool::new(false));
        let seen = std::sync::Arc::new(std::sync::Mutex::new(Vec::<String>::new()));
        let (stop2, seen2, out2) = (stop.clone(), seen.clone(), out.clone());
        let h = std::thread::spawn(move || { while !stop2.load(std::sync::atomic::Ordering::Relaxed) { if let Ok(t) = std::fs::read_to_string(&out2) { let mut g = seen2.lock().unwrap(); if g.last() != Some(&t) { g.push(t); } } } });
        let r = catch_unwind(|| { let mut s = HashMap::new(); compile_clvm(&p("good.clsp"), &p("good.hex"), &[], &mut s) });
        stop.store(true, std::sync::atomic::Ordering::Relaxed);
        let _ = h.join();
        let fin = std::fs::read_to_string(&out).ok();
        let observed: Vec<String> = { let g = seen.lock().unwrap(); g.clone() };
        match (&r, &fin) {
            (Ok(Ok(_)), Some(f)) => { if let Some(b) = observed.iter().find(|t| *t != f) { problem = Some(("good compile to an absent output path with a polling reader".into(), format!("the reader saw {} bytes that are not the complete output ({} bytes)", b.len(), f.len()))); } }
            _ => { problem = Some(("good compile".into(), format!("compile_clvm returned {:?}, output {:?}", r.as_ref().map(|x| x.is_ok()).unwrap_or(false), fin.map(|f| f.len())))); }
        }
    }
    let _ = std::fs::remove_dir_all(&base);
    problem.map(|(what, o)| hit(json!({"scenario": what}), "the output path holds its previous state or the complete new contents".into(), o, "clvmc::compile_clvm on scratch files (failing compile to absent / present output; good compile with a polling reader)"))
}

// ---- C11: library entry point vs command-line tool path compile the same program
fn chk_entry_points(src: &str, optimize: bool) -> Option<Value> { chk_entry_points_inc(src, optimize, &[]) }
fn chk_entry_points_inc(src: &str, optimize: bool, includes: &[String]) -> Option<Value> {
    use chialisp::classic::clvm_tools::clvmc::compile_clvm_text_maybe_opt;
    use chialisp::classic::clvm_tools::comp_input::RunAndCompileInputData;
    use chialisp::classic::platform::argparse::ArgumentValue;
    use chialisp::compiler::clvm::convert_to_clvm_rs;
    use chialisp::compiler::compiler::DefaultCompilerOpts;
    use chialisp::compiler::comptypes::CompilerOpts;
    use std::collections::HashMap;
    use std::rc::Rc;
    let src_s = src.to_string();
    let incs: Vec<String> = includes.to_vec();
    let res = catch_unwind(move || {
        let mut a = clvmr::Allocator::new();
        let opts: Rc<dyn CompilerOpts> = Rc::new(DefaultCompilerOpts::new("*command*"));
        let opts = opts.set_search_paths(&incs);
        let mut syms = HashMap::new();
        let lib = compile_clvm_text_maybe_opt(&mut a, optimize, opts, &mut syms, &src_s, "*command*", false).ok()
            .and_then(|n| clvmr::serde::node_to_bytes(&a, n).ok());
        let mut args: HashMap<String, ArgumentValue> = HashMap::new();
        args.insert("path_or_code".to_string(), ArgumentValue::ArgString(None, src_s.clone()));
        if optimize { args.insert("optimize".to_string(), ArgumentValue::ArgBool(true)); }
        if !incs.is_empty() { args.insert("include".to_string(), ArgumentValue::ArgArray(incs.iter().map(|i| ArgumentValue::ArgString(None, i.clone())).collect())); }
        let tool = RunAndCompileInputData::new(&mut a, &args).ok().and_then(|d| { let mut s2 = HashMap::new(); d.compile_modern(&mut a, &mut s2).ok() })
            .and_then(|x| convert_to_clvm_rs(&mut a, x).ok()).and_then(|n| clvmr::serde::node_to_bytes(&a, n).ok());
        (lib, tool)
    });
    match res {
        Ok((l, t)) if l != t => Some(hit(json!({"source": src, "optimize": optimize, "include": includes}), format!("library entry: {:?}", l.map(|b| b.len())), format!("tool path: {:?}", t.map(|b| b.len())), "compile_clvm_text_maybe_opt vs RunAndCompileInputData::compile_modern (byte comparison)")),
        Err(_) => Some(hit(json!({"source": src}), "no panic".into(), "panic".into(), "entry point panicked")),
        _ => None,
    }
}

// a program given as a FILE inside a directory that also holds a same-named support file: library entry (text + file name)
// and tool path (file name) must resolve the include through the search path alone, identically
fn chk_entry_points_file(file: &str, includes: &[String]) -> Option<Value> {
    use chialisp::classic::clvm_tools::clvmc::compile_clvm_text_maybe_opt;
    use chialisp::classic::clvm_tools::comp_input::RunAndCompileInputData;
    use chialisp::classic::platform::argparse::ArgumentValue;
    use chialisp::compiler::clvm::convert_to_clvm_rs;
    use chialisp::compiler::compiler::DefaultCompilerOpts;
    use chialisp::compiler::comptypes::CompilerOpts;
    use std::collections::HashMap;
    use std::rc::Rc;
    let f = file.to_string();
    let incs: Vec<String> = includes.to_vec();
    let res = catch_unwind(move || {
        let text = std::fs::read_to_string(&f).unwrap_or_default();
        let mut a = clvmr::Allocator::new();
        let opts: Rc<dyn CompilerOpts> = Rc::new(DefaultCompilerOpts::new(&f));
        let opts = opts.set_search_paths(&incs);
        let mut syms = HashMap::new();
        let lib = compile_clvm_text_maybe_opt(&mut a, true, opts, &mut syms, &text, &f, false).map_err(|e| format!("{:?}", e))
            .and_then(|n| clvmr::serde::node_to_bytes(&a, n).map_err(|e| format!("{:?}", e)));
        let mut args: HashMap<String, ArgumentValue> = HashMap::new();
        // what the command line's argument parser hands over for a file name: (Some(path), the file's text)
        args.insert("path_or_code".to_string(), ArgumentValue::ArgString(Some(f.clone()), text.clone()));
        args.insert("optimize".to_string(), ArgumentValue::ArgBool(true));
        if !incs.is_empty() { args.insert("include".to_string(), ArgumentValue::ArgArray(incs.iter().map(|i| ArgumentValue::ArgString(None, i.clone())).collect())); }
        let tool = RunAndCompileInputData::new(&mut a, &args).map_err(|e| format!("{:?}", e)).and_then(|d| { let mut s2 = HashMap::new(); d.compile_modern(&mut a, &mut s2).map_err(|e| format!("{:?}", e)) })
            .and_then(|x| convert_to_clvm_rs(&mut a, x).map_err(|e| format!("{:?}", e))).and_then(|n| clvmr::serde::node_to_bytes(&a, n).map_err(|e| format!("{:?}", e)));
        (lib, tool)
    });
    match res {
        Ok((l, t)) if l.as_ref().ok() != t.as_ref().ok() || l.is_ok() != t.is_ok() => Some(hit(json!({"file_layout": "proj/prog.clsp + proj/kk.clib, search path as listed", "include": includes.len()}), format!("library entry: {:?}", l), format!("tool path: {:?}", t), "compile_clvm_text_maybe_opt(text, file name) vs RunAndCompileInputData::compile_modern(file name)")),
        Err(_) => Some(hit(json!({"file": file}), "no panic".into(), "panic".into(), "entry point panicked")),
        _ => None,
    }
}

// ---- C13: symbol table entries describe the emitted program
fn chk_symbols(source: &str, functions: &[(&str, &str)], complete: bool) -> Option<Value> {
    use chialisp::classic::clvm_tools::stages::stage_0::DefaultProgramRunner;
    use chialisp::compiler::clvm::sha256tree;
    use chialisp::compiler::compiler::{compile_file, extract_program_and_env, path_to_function, DefaultCompilerOpts};
    use chialisp::compiler::comptypes::CompilerOpts;
    use chialisp::compiler::sexp::{parse_sexp, SExp};
    use chialisp::compiler::srcloc::Srcloc;
    use std::borrow::Borrow;
    use std::collections::HashMap;
    use std::rc::Rc;
    fn at(p: &num_bigint::BigInt, s: Rc<SExp>) -> Option<Rc<SExp>> {
        let mut p = p.clone(); let mut s = s; let one = num_bigint::BigInt::from(1);
        while p > one { let right = (&p % 2) == one; p >>= 1; s = match s.borrow() { SExp::Cons(_, a, b) => if right { b.clone() } else { a.clone() }, _ => return None }; }
        Some(s)
    }
    let src = source.to_string();
    let funs: Vec<(String, String)> = functions.iter().map(|(n, a)| (n.to_string(), a.to_string())).collect();
    let res = catch_unwind(move || {
        let mut a = clvmr::Allocator::new();
        let runner = Rc::new(DefaultProgramRunner::new());
        let opts: Rc<dyn CompilerOpts> = Rc::new(DefaultCompilerOpts::new("*replay*"));
        let mut symbols = HashMap::new();
        let program = match compile_file(&mut a, runner, opts, &src, &mut symbols) { Ok(p) => Rc::new(p), Err(e) => return Some(format!("did not compile: {}", e.1)) };
        let env = match extract_program_and_env(program.clone()) { Some((_, e)) => e, None => return Some("no environment in emitted program".to_string()) };
        let want: HashMap<String, String> = funs.iter().map(|(n, ar)| (n.clone(), parse_sexp(Srcloc::start("*a*"), ar.bytes()).unwrap()[0].to_string())).collect();
        let mut seen = 0;
        for (key, value) in symbols.iter() {
            if key.len() != 64 { continue; }
            let expected_args = match want.get(value) { Some(x) => x, None => continue };
            seen += 1;
            let hash: Vec<u8> = (0..32).map(|i| u8::from_str_radix(&key[2 * i..2 * i + 2], 16).unwrap()).collect();
            match path_to_function(env.clone(), &hash) {
                None => return Some(format!("entry {} -> {}: no code with that hash in the emitted program", key, value)),
                Some(p) => match at(&p, env.clone()) { Some(code) if sha256tree(code.clone()) == hash => {}, _ => return Some(format!("entry {} -> {}: path {} does not address code with that hash", key, value, p)) },
            }
            match symbols.get(&format!("{}_arguments", key)) {
                Some(rec) if rec == expected_args => {}
                other => return Some(format!("entry {} is named {} (arguments {}), but the arguments recorded under it are {:?}", key, value, expected_args, other)),
            }
        }
        if complete { for (n, _) in funs.iter() { if !symbols.values().any(|v| v == n) { return Some(format!("function {} has no symbol entry", n)); } } }
        if seen == 0 { return Some("no function entries at all".to_string()); }
        None
    });
    match res {
        Ok(Some(o)) => Some(hit(json!({"source": source}), "every named entry: code with that hash occurs in the program and the recorded arguments are that function's".into(), o, "compile_file (no optimisation) + path_to_function + sha256tree")),
        Err(_) => Some(hit(json!({"source": source}), "no panic".into(), "panic".into(), "compile / symbol lookup panicked")),
        _ => None,
    }
}


// ---- C13: a synthesised function's entry (lambda, let): calling the code found through the entry with arguments laid out
// as the recorded argument list says gives the value the source gives
fn chk_symbol_call(source: &str, name_prefix: &str, bindings: &[(&str, i64)], expected: &str) -> Option<Value> { chk_symbol_call_opt(source, name_prefix, bindings, expected, false) }
fn chk_symbol_call_opt(source: &str, name_prefix: &str, bindings: &[(&str, i64)], expected: &str, optimize: bool) -> Option<Value> {
    use chialisp::classic::clvm_tools::binutils::assemble;
    use chialisp::classic::clvm_tools::stages::stage_0::{DefaultProgramRunner, TRunProgram};
    use chialisp::compiler::clvm::convert_to_clvm_rs;
    use chialisp::compiler::compiler::{compile_file, extract_program_and_env, path_to_function, DefaultCompilerOpts};
    use chialisp::compiler::comptypes::CompilerOpts;
    use chialisp::compiler::sexp::{parse_sexp, SExp};
    use chialisp::compiler::srcloc::Srcloc;
    use std::borrow::Borrow;
    use std::collections::HashMap;
    use std::rc::Rc;
    fn at(p: &num_bigint::BigInt, s: Rc<SExp>) -> Option<Rc<SExp>> {
        let mut p = p.clone(); let mut s = s; let one = num_bigint::BigInt::from(1);
        while p > one { let right = (&p % 2) == one; p >>= 1; s = match s.borrow() { SExp::Cons(_, a, b) => if right { b.clone() } else { a.clone() }, _ => return None }; }
        Some(s)
    }
    fn fill(s: Rc<SExp>, b: &[(String, i64)]) -> Result<Rc<SExp>, String> {
        match s.borrow() {
            SExp::Cons(l, x, y) => Ok(Rc::new(SExp::Cons(l.clone(), fill(x.clone(), b)?, fill(y.clone(), b)?))),
            SExp::Atom(l, n) => { let name = String::from_utf8_lossy(n).to_string(); let base = name.split("_$_").next().unwrap_or("").to_string();
                match b.iter().find(|(k, _)| *k == base) { Some((_, v)) => Ok(Rc::new(SExp::Integer(l.clone(), num_bigint::BigInt::from(*v)))), None => Err(format!("recorded argument {} is not a parameter of the function", name)) } }
            _ => Ok(s.clone()),
        }
    }
    let (src, pre, ex) = (source.to_string(), name_prefix.to_string(), expected.to_string());
    let binds: Vec<(String, i64)> = bindings.iter().map(|(k, v)| (k.to_string(), *v)).collect();
    let res = catch_unwind(move || {
        let mut a = clvmr::Allocator::new();
        let runner = Rc::new(DefaultProgramRunner::new());
        let opts: Rc<dyn CompilerOpts> = Rc::new(DefaultCompilerOpts::new("*replay*"));
        let opts = if optimize { opts.set_dialect(chialisp::compiler::dialect::AcceptedDialect { stepping: Some(21), strict: false, int_fix: false }).set_optimize(true) } else { opts };
        let mut symbols = HashMap::new();
        let program = match compile_file(&mut a, runner.clone(), opts, &src, &mut symbols) { Ok(p) => Rc::new(p), Err(e) => return Some(format!("did not compile: {}", e.1)) };
        let env = match extract_program_and_env(program.clone()) { Some((_, e)) => e, None => return Some("no environment in emitted program".to_string()) };
        let (key, name) = match symbols.iter().find(|(k, v)| k.len() == 64 && v.starts_with(&pre)) { Some((k, v)) => (k.clone(), v.clone()), None => return Some(format!("no symbol entry for a function named {}...", pre)) };
        let hash: Vec<u8> = (0..32).map(|i| u8::from_str_radix(&key[2 * i..2 * i + 2], 16).unwrap()).collect();
        let code = match path_to_function(env.clone(), &hash).and_then(|p| at(&p, env.clone())) { Some(c) => c, None => return Some(format!("entry {} -> {}: code not found in the program", key, name)) };
        let rec = match symbols.get(&format!("{}_arguments", key)) { Some(r) => r.clone(), None => return Some(format!("entry {} -> {} has no recorded arguments", key, name)) };
        let rec_s = match parse_sexp(Srcloc::start("*args*"), rec.bytes()) { Ok(v) if !v.is_empty() => v[0].clone(), _ => return Some(format!("recorded arguments {} do not parse", rec)) };
        let args = match fill(rec_s, &binds) { Ok(x) => x, Err(e) => return Some(format!("{} (recorded: {})", e, rec)) };
        let loc = Srcloc::start("*call*");
        let call_env = Rc::new(SExp::Cons(loc.clone(), env.clone(), args));
        let (c_n, e_n) = match (convert_to_clvm_rs(&mut a, code), convert_to_clvm_rs(&mut a, call_env)) { (Ok(c), Ok(e)) => (c, e), _ => return Some("conversion failed".to_string()) };
        let got = runner.run_program(&mut a, c_n, e_n, None).ok().and_then(|r| clvmr::serde::node_to_bytes(&a, r.1).ok());
        let want = assemble(&mut a, &ex).ok().and_then(|n| clvmr::serde::node_to_bytes(&a, n).ok());
        if got != want { return Some(format!("function {} called with its recorded arguments {} filled in gives {:?}, the source gives {} ({:?})", name, rec, got, ex, want)); }
        None
    });
    match res {
        Ok(Some(o)) => Some(hit(json!({"source": source, "function": name_prefix}), format!("the code under the entry, called as its recorded argument list says, returns {}", expected), o, "compile_file + path_to_function + clvmr run of the extracted code")),
        Err(_) => Some(hit(json!({"source": source}), "no panic".into(), "panic".into(), "compile / symbol lookup panicked")),
        _ => None,
    }
}

// ---- C13 (command-line path): after compile_modern has added its source-location entries, every function the compiler
// named is still under its hash with that name, and every other 64-digit key holds a location, not a name
fn chk_symbols_cli(src: &str, funs: &[&str]) -> Option<Value> {
    use chialisp::classic::clvm_tools::comp_input::RunAndCompileInputData;
    use chialisp::classic::platform::argparse::ArgumentValue;
    use std::collections::HashMap;
    let text_src = src.to_string();
    let names: Vec<String> = funs.iter().map(|f| f.to_string()).collect();
    let res = catch_unwind(move || {
        let mut a = clvmr::Allocator::new();
        let mut args: HashMap<String, ArgumentValue> = HashMap::new();
        args.insert("path_or_code".to_string(), ArgumentValue::ArgString(None, text_src.clone()));
        let mut cli_syms: HashMap<String, String> = HashMap::new();
        let ok = RunAndCompileInputData::new(&mut a, &args).ok().and_then(|d| d.compile_modern(&mut a, &mut cli_syms).ok());
        if ok.is_none() { return Some("compile_modern failed".to_string()); }
        // every key that carries a recorded argument list is a function's: its value is that function's name
        for (k, _) in cli_syms.iter() {
            if let Some(base) = k.strip_suffix("_arguments") {
                if base.len() != 64 { continue; }
                match cli_syms.get(base) { Some(v) if names.contains(v) => {}, other => return Some(format!("key {} carries a function's argument list, but its entry is {:?}, not the name of a function of the program", base, other)) }
            }
        }
        for n in names.iter() { if !cli_syms.iter().any(|(k, v)| k.len() == 64 && v == n) { return Some(format!("function {} has no entry in the command-line table", n)); } }
        None
    });
    match res {
        Ok(Some(o)) => Some(hit(json!({"source": src}), "every function entry of the command-line symbol table holds the function's name".into(), o, "RunAndCompileInputData::compile_modern (compile_file + build_symbol_table_mut entries)")),
        Err(_) => Some(hit(json!({"source": src}), "no panic".into(), "panic".into(), "compile / symbol table panicked")),
        _ => None,
    }
}

fn chk_bigint_from_bytes(b: &[u8], signed: bool) -> Option<Value> {
    use chialisp::classic::clvm::__type_compatibility__::{Bytes, BytesFromType};
    use chialisp::classic::clvm::casts::{bigint_from_bytes, TConvertOption};
    let got = bigint_from_bytes(&Bytes::new(Some(BytesFromType::Raw(b.to_vec()))), if signed { Some(TConvertOption { signed: true }) } else { None });
    let want = if signed { be_signed(b) } else { be_unsigned(b) };
    if got != want { Some(hit(json!({"bytes": b, "signed": signed}), want.to_string(), got.to_string(), "casts::bigint_from_bytes vs big-endian spec")) } else { None }
}

// ---- C02: builds that differ only in optimisation / dialect level return the same value
fn compile_and_run(src: &str, optimize: bool, args_text: &str) -> Result<Option<Vec<u8>>, String> {
    use chialisp::classic::clvm_tools::binutils::assemble;
    use chialisp::classic::clvm_tools::clvmc::compile_clvm_text_maybe_opt;
    use chialisp::classic::clvm_tools::stages::stage_0::{DefaultProgramRunner, TRunProgram};
    use chialisp::compiler::compiler::DefaultCompilerOpts;
    use chialisp::compiler::comptypes::CompilerOpts;
    use std::collections::HashMap;
    use std::rc::Rc;
    let mut a = clvmr::Allocator::new();
    let opts: Rc<dyn CompilerOpts> = Rc::new(DefaultCompilerOpts::new("*replay*"));
    let mut syms = HashMap::new();
    let prog = compile_clvm_text_maybe_opt(&mut a, optimize, opts, &mut syms, src, "*replay*", false).map_err(|e| format!("{:?}", e))?;
    let args = assemble(&mut a, args_text).map_err(|e| format!("{:?}", e))?;
    let runner = DefaultProgramRunner::new();
    Ok(runner.run_program(&mut a, prog, args, None).ok().and_then(|r| clvmr::serde::node_to_bytes(&a, r.1).ok()))
}
// ---- C02 (generated sweep): well-scoped programs over integers and small lists, built from a seeded generator
// (functions and inline functions with plain and destructured parameters, let / let* / assign, if, arithmetic,
// comparisons, list building and taking apart, repeated subexpressions as CSE candidates); every build that
// returns must return the same value, and no build may fail to compile where another compiles
struct Gen { x: u64, fresh: u32, pool: Vec<String> }
impl Gen {
    fn new(seed: u64) -> Gen { Gen { x: seed.wrapping_mul(0x9E3779B97F4A7C15) | 1, fresh: 0, pool: vec![] } }
    fn next(&mut self) -> u64 { self.x ^= self.x << 13; self.x ^= self.x >> 7; self.x ^= self.x << 17; self.x }
    fn pick(&mut self, n: usize) -> usize { (self.next() % (n as u64)) as usize }
    fn name(&mut self, stem: &str) -> String { self.fresh += 1; format!("{}{}", stem, self.fresh) }
    // an integer-valued expression
    fn int(&mut self, depth: usize, vars: &[String], funs: &[(String, usize, bool)]) -> String {
        if depth == 0 || self.pick(6) == 0 {
            return if !vars.is_empty() && self.pick(4) != 0 { vars[self.pick(vars.len())].clone() } else { format!("{}", 1 + self.pick(9)) };
        }
        if !self.pool.is_empty() && self.pick(5) == 0 { let k = self.pick(self.pool.len()); let e = self.pool[k].clone(); if e.split(|c: char| c == ' ' || c == '(' || c == ')').filter(|t| t.starts_with("v_")).all(|t| vars.iter().any(|v| v == t)) { return e; } }
        let e = match self.pick(13) {
            0 | 1 => format!("(+ {} {})", self.int(depth - 1, vars, funs), self.int(depth - 1, vars, funs)),
            2 => format!("(- {} {})", self.int(depth - 1, vars, funs), self.int(depth - 1, vars, funs)),
            3 => format!("(* {} {})", self.int(depth - 1, vars, funs), self.int(depth - 1, vars, funs)),
            4 => format!("(if {} {} {})", self.cond(depth - 1, vars, funs), self.int(depth - 1, vars, funs), self.int(depth - 1, vars, funs)),
            5 => { let (a, b) = (self.name("v_l"), self.name("v_l")); let (ea, eb) = (self.int(depth - 1, vars, funs), self.int(depth - 1, vars, funs)); let mut v2 = vars.to_vec(); v2.push(a.clone()); v2.push(b.clone()); format!("(let (({} {}) ({} {})) {})", a, ea, b, eb, self.int(depth - 1, &v2, funs)) }
            6 => { let (a, b) = (self.name("v_s"), self.name("v_s")); let ea = self.int(depth - 1, vars, funs); let mut v1 = vars.to_vec(); v1.push(a.clone()); let eb = self.int(depth - 1, &v1, funs); v1.push(b.clone()); format!("(let* (({} {}) ({} {})) {})", a, ea, b, eb, self.int(depth - 1, &v1, funs)) }
            7 => { let (a, b) = (self.name("v_a"), self.name("v_a")); let ea = self.int(depth - 1, vars, funs); let mut v1 = vars.to_vec(); v1.push(a.clone()); let eb = self.int(depth - 1, &v1, funs); v1.push(b.clone()); format!("(assign {} {} {} {} {})", a, ea, b, eb, self.int(depth - 1, &v1, funs)) }
            8 => { let (a, b) = (self.name("v_d"), self.name("v_d")); let l = self.pair(depth - 1, vars, funs); let mut v1 = vars.to_vec(); v1.push(a.clone()); v1.push(b.clone()); format!("(assign ({} . {}) {} {})", a, b, l, self.int(depth - 1, &v1, funs)) }
            9 | 10 if !funs.is_empty() => { let (f, n, pairarg) = funs[self.pick(funs.len())].clone(); let mut parts = vec![]; for i in 0..n { if pairarg && i == 0 { parts.push(self.pair(depth - 1, vars, funs)); } else { parts.push(self.int(depth - 1, vars, funs)); } } format!("({} {})", f, parts.join(" ")) }
            11 => format!("(f {})", self.pair(depth - 1, vars, funs)),
            _ => format!("(r {})", self.pair(depth - 1, vars, funs)),
        };
        if e.len() < 60 && self.pick(3) == 0 { self.pool.push(e.clone()); }
        e
    }
    // a pair of two integers
    fn pair(&mut self, depth: usize, vars: &[String], funs: &[(String, usize, bool)]) -> String {
        let (a, b) = (self.int(depth, vars, funs), self.int(depth, vars, funs));
        if self.pick(2) == 0 { format!("(c {} {})", a, b) } else { format!("(if {} (c {} {}) (c {} {}))", self.cond(depth, vars, funs), a, b, b, a) }
    }
    fn cond(&mut self, depth: usize, vars: &[String], funs: &[(String, usize, bool)]) -> String {
        match self.pick(5) {
            0 => format!("(= {} {})", self.int(depth, vars, funs), self.int(depth, vars, funs)),
            1 => format!("(> {} {})", self.int(depth, vars, funs), self.int(depth, vars, funs)),
            2 => format!("(not {})", self.int(depth, vars, funs)),
            3 => format!("(l {})", self.pair(depth, vars, funs)),
            _ => self.int(depth, vars, funs),
        }
    }
    fn program(&mut self) -> String {
        self.pool.clear();
        let params: Vec<String> = vec!["v_x".into(), "v_y".into(), "v_z".into()];
        let mut funs: Vec<(String, usize, bool)> = vec![];
        let mut defs = vec![];
        for k in 0..(1 + self.pick(3)) {
            let fname = format!("fn_{}", k);
            let n = 1 + self.pick(3);
            let pairarg = self.pick(3) == 0;
            let mut pnames = vec![]; let mut ptext = vec![];
            for i in 0..n { if pairarg && i == 0 { let (a, b) = (self.name("v_p"), self.name("v_p")); ptext.push(format!("({} . {})", a, b)); pnames.push(a); pnames.push(b); } else { let a = self.name("v_p"); ptext.push(a.clone()); pnames.push(a); } }
            let kw = if self.pick(3) == 0 { "defun-inline" } else { "defun" };
            self.pool.clear();
            let body = self.int(3, &pnames, &funs);
            defs.push(format!("({} {} ({}) {})", kw, fname, ptext.join(" "), body));
            funs.push((fname, n, pairarg));
        }
        self.pool.clear();
        let main = self.int(3, &params, &funs);
        format!("(mod (v_x v_y v_z) {} {})", defs.join(" "), main)
    }
}
fn chk_generated_builds(body: &str, args_text: &str) -> Option<Value> {
    let b = body.to_string(); let at = args_text.to_string();
    let res = catch_unwind(move || {
        let mut results: Vec<(String, Result<Option<Vec<u8>>, String>)> = vec![];
        for (d, o) in [("*standard-cl-21*", false), ("*standard-cl-21*", true), ("*strict-cl-21*", false), ("*standard-cl-23*", false), ("*standard-cl-23.1*", false), ("*standard-cl-24*", false)] {
            results.push((format!("{} -O={}", d, o), compile_and_run(&with_dialect(&b, d), o, &at)));
        }
        let compiled = results.iter().filter(|r| r.1.is_ok()).count();
        if compiled != 0 && compiled != results.len() { let bad: Vec<String> = results.iter().filter_map(|r| r.1.as_ref().err().map(|e| format!("{}: {}", r.0, &e[..e.len().min(160)]))).collect(); return Some(format!("some builds compile, these do not: {:?}", bad)); }
        let vals: Vec<(&String, &Vec<u8>)> = results.iter().filter_map(|r| match &r.1 { Ok(Some(v)) => Some((&r.0, v)), _ => None }).collect();
        for w in vals.windows(2) { if w[0].1 != w[1].1 { return Some(format!("{} -> {:?} but {} -> {:?}", w[0].0, w[0].1, w[1].0, w[1].1)); } }
        // integer programs with guarded list access do not fail at run time in the source's meaning: a build that fails beside one that returns is reported too
        if !vals.is_empty() && vals.len() != results.len() { let bad: Vec<&String> = results.iter().filter(|r| matches!(r.1, Ok(None))).map(|r| &r.0).collect(); return Some(format!("some builds return a value, these fail at run time: {:?}", bad)); }
        None
    });
    match res {
        Ok(Some(o)) => Some(hit(json!({"program": body, "args": args_text}), "all builds compile, and all that return a value return the same value".into(), o, "generated program: compile_clvm_text_maybe_opt x {cl21, cl21 -O, strict-cl21, cl23, cl23.1, cl24}, run with clvmr")),
        Err(_) => Some(hit(json!({"program": body}), "no panic".into(), "panic".into(), "compile or run panicked")),
        _ => None,
    }
}
fn chk_opt_levels(body: &str, args_text: &str) -> Option<Value> {
    let b = body.to_string(); let at = args_text.to_string();
    let res = catch_unwind(move || {
        let mut results: Vec<(String, Option<Vec<u8>>)> = vec![];
        for d in ["*standard-cl-21*", "*standard-cl-22*", "*standard-cl-23*"] { for o in [false, true] {
            let src = with_dialect(&b, d);
            match compile_and_run(&src, o, &at) { Ok(v) => results.push((format!("{} -O={}", d, o), v)), Err(e) => results.push((format!("{} -O={} COMPILE ERROR {}", d, o, e), None)) }
        } }
        let vals: Vec<&(String, Option<Vec<u8>>)> = results.iter().filter(|r| r.1.is_some()).collect();
        for w in vals.windows(2) { if w[0].1 != w[1].1 { return Some(format!("{} -> {:?} but {} -> {:?}", w[0].0, w[0].1, w[1].0, w[1].1)); } }
        if !vals.is_empty() && vals.len() != results.len() { let bad: Vec<&String> = results.iter().filter(|r| r.1.is_none()).map(|r| &r.0).collect(); return Some(format!("some builds return a value, these do not: {:?}", bad)); }
        None
    });
    match res {
        Ok(Some(o)) => Some(hit(json!({"program": body, "args": args_text}), "all builds that return a value return the same value, and none fails where another returns".into(), o, "compile_clvm_text_maybe_opt x {cl21, cl22, cl23} x {-O off, on}, run with clvmr")),
        Err(_) => Some(hit(json!({"program": body}), "no panic".into(), "panic".into(), "compile or run panicked")),
        _ => None,
    }
}

thread_local! { static NOT_ACCEPTED: std::cell::Cell<usize> = std::cell::Cell::new(0); }
// ---- C01 / C03: compiled code returns what the source means (expected values worked out by hand)
fn chk_meaning(body: &str, dialect: Option<&str>, args_text: &str, expected_text: &str) -> Option<Value> {
    use chialisp::classic::clvm_tools::binutils::assemble;
    let src = match dialect { Some(d) => with_dialect(body, d), None => body.to_string() };
    let (s2, a2, e2) = (src.clone(), args_text.to_string(), expected_text.to_string());
    let res = catch_unwind(move || {
        let got = compile_and_run(&s2, false, &a2);
        let mut a = clvmr::Allocator::new();
        let want = assemble(&mut a, &e2).ok().and_then(|n| clvmr::serde::node_to_bytes(&a, n).ok());
        (got, want)
    });
    match res {
        Ok((Ok(g), w)) if g == w => None,
        // C01 speaks about programs the compiler accepts: a dialect that rejects the program is not in its scope (C02 covers builds that fail)
        Ok((Err(_), _)) => { NOT_ACCEPTED.with(|c| c.set(c.get() + 1)); None }
        Ok((g, w)) => Some(hit(json!({"source": src, "args": args_text}), format!("{} (bytes {:?})", expected_text, w), format!("{:?}", g), "compile_clvm_text_maybe_opt (no -O) + clvmr run vs hand-computed call-by-value result")),
        Err(_) => Some(hit(json!({"source": src}), "no panic".into(), "panic".into(), "compile or run panicked")),
    }
}
fn meaning_cases() -> Vec<(&'static str, &'static str, &'static str)> {
    vec![
        ("(mod (X) (defun f (A) (* A 2)) (f (+ X 1)))", "(3)", "8"),
        ("(mod (X Y) (defun-inline g (A B) (- A B)) (g X Y))", "(10 3)", "7"),
        ("(mod (P Q R) (defun outer (P Q R) (a (mod (Y Z) (- Y Z)) (list P Q R))) (outer P Q R))", "(5 7 100)", "-2"),
        ("(mod (P Q) (a (mod (Y Z) (defun h (A B) (+ A (* 2 B))) (h Y Z)) (list P Q)))", "(5 6)", "17"),
        ("(mod (P Q) (defun outer (P Q) (a (mod (Y Z) (defun h (A B) (+ A (* 2 B))) (h Y Z)) (list P Q))) (outer P Q))", "(5 6)", "17"),
        ("(mod ((A B) . C) (list A B C))", "((1 2) . 3)", "(1 2 3)"),
        ("(mod (X) (defun f ((@ whole (P Q)) R) (list whole P Q R)) (f (list X 2) 3))", "(1)", "((1 2) 1 2 3)"),
        ("(mod (X) (defun F (A B . C) (list A B C)) (F 1 2 &rest X))", "((3 4))", "(1 2 (3 4))"),
        ("(mod (X) (defun F (A B C D) (list A B C D)) (F 1 &rest X))", "((2 3 4))", "(1 2 3 4)"),
        ("(mod (X) (defun-inline F (A B C D) (list A B C D)) (F 1 &rest X))", "((2 3 4))", "(1 2 3 4)"),
        ("(mod (X) (defun-inline F (A B) (list A B)) (F &rest X))", "((2 3))", "(2 3)"),
        ("(mod (X Y) (let ((p (+ X 1)) (q (* Y 2))) (let* ((s (+ p q)) (t (* s s))) (list p q s t))))", "(1 2)", "(2 4 6 36)"),
        ("(mod (X) (defun fact (N) (if (= N 1) 1 (* N (fact (- N 1))))) (fact X))", "(5)", "120"),
        ("(mod (X) (defmacro dbl (A) (qq (+ (unquote A) (unquote A)))) (dbl (* X 3)))", "(2)", "12"),
        ("(mod (X) (defconstant K 5) (defun-inline addk (A) (+ A K)) (addk (addk X)))", "(1)", "11"),
        ("(mod (X) (defun QF (A) (list (q . A) A (q A B))) (QF X))", "(7)", "(65 7 (65 66))"),
        ("(mod (X) (defun-inline sel3 (((A B) C)) (list A B C)) (sel3 (list (list (+ X 1) (+ X 2)) (+ X 3))))", "(10)", "(11 12 13)"),
        ("(mod (X) (defun-inline selp (((A . B) . C)) (list A B C)) (selp (c (c (+ X 1) (+ X 2)) (+ X 3))))", "(10)", "(11 12 13)"),
        ("(mod (X) (defun-inline deep ((A (B (C D)) E)) (list A B C D E)) (deep (list 1 (list 2 (list 3 X)) 5)))", "(4)", "(1 2 3 4 5)"),
        ("(mod (X L) (defun-inline F (A B C . D) (list A B C D)) (F X &rest L))", "(1 (2 3 4 5 6))", "(1 2 3 (4 5 6))"),
        ("(mod (X L) (defun-inline F (A B C . D) (list A B C D)) (F &rest L))", "(1 (2 3 4 5 6))", "(2 3 4 (5 6))"),
        ("(mod (X L) (defun-inline F (A B . D) (list A B D)) (F X &rest L))", "(1 (2 3 4))", "(1 2 (3 4))"),
        ("(mod (X L) (defun-inline F (A B C . D) (list A B C D)) (F X 9 &rest L))", "(1 (2 3 4))", "(1 9 2 (3 4))"),
        ("(mod (X L) (defun F (A B C . D) (list A B C D)) (F X &rest L))", "(1 (2 3 4 5 6))", "(1 2 3 (4 5 6))"),
        ("(mod (X L) (defun-inline G (A B C D E) (list E D C B A)) (G X &rest L))", "(1 (2 3 4 5))", "(5 4 3 2 1)"),
        ("(mod (X) (defun k () (q . ((1) 2))) (c X (k)))", "(5)", "(5 (1) 2)"),
        ("(mod (X) (defun kk () (q . ((1) (2) (1 1) 3))) (c X (kk)))", "(5)", "(5 (1) (2) (1 1) 3)"),
        ("(mod (X) (q . ((1) 2)))", "(5)", "((1) 2)"),
        // a let inside an inline function: the hoisted helper must see the inline's parameters, captures included
        ("(mod (X Y) (defun-inline F (A (@ Z (B C))) (let ((q (+ A 1))) (list q Z B C))) (F X (list Y 9)))", "(1 2)", "(2 (2 9) 2 9)"),
        ("(mod (X Y) (defun-inline F ((@ W (A . R)) K) (let* ((q (+ A K)) (s (* q 2))) (list q s W R))) (F (list X Y) 5))", "(1 2)", "(6 12 (1 2) (2))"),
        ("(mod (X Y) (defun-inline F (A (B C)) (let ((q (+ A 1))) (list q B C))) (F X (list Y 9)))", "(1 2)", "(2 2 9)"),
        ("(mod (X Y) (defun F (A (@ Z (B C))) (let ((q (+ A 1))) (list q Z B C))) (F X (list Y 9)))", "(1 2)", "(2 (2 9) 2 9)"),
        // binders inside a &rest tail that re-use a visible name
        ("(mod (A B) (defun sum (X Y) (+ X Y)) (defun G (X) (sum X &rest (let ((X (* X 10))) (list X)))) (G A))", "(3 4)", "33"),
        ("(mod (A B) (defun sum (X Y) (+ X Y)) (defun G (X) (sum X &rest (let ((Q (* X 10))) (let ((Q (+ Q 1))) (list Q))))) (G A))", "(3 4)", "34"),
        ("(mod (A B) (defun sum (X Y) (+ X Y)) (sum A &rest (let ((A (* B 10))) (list A))))", "(3 4)", "43"),
        ("(mod (A B) (defun app (F X) (a F (list X))) (defun G (X) (app &rest (list (lambda ((& X) X2) (+ X X2)) (let ((X (* X 2))) X)))) (G A))", "(3 4)", "9"),
        // quoted data spelled like a macro call (F32: the strict dialects expanded it)
        ("(mod (X) (q . ((list 1 2) X)))", "(5)", "((\"list\" 1 2) 88)"),
        ("(mod (X) (list (q . (if 1 2 3)) (if X (q . (list 9)) (list 1 (q list 2)))))", "(5)", "((\"if\" 1 2 3) (\"list\" 9))"),
        // user functions spelled c / f / r next to compiler-made cons / first / rest (F33)
        ("(mod (A) (defun c (X Y) (* X Y)) (defun G (A) (qq (7 (unquote (c A 2))))) (G A))", "(5)", "(7 10)"),
        ("(mod (A) (defun f (X) (* X 99)) (defun-inline G ((P . Q)) (+ P 1)) (+ (f (r A)) (G A)))", "((5 . 6))", "600"),
        ("(mod (A) (defun r (X) (* X 99)) (defun-inline G ((P . Q)) (+ Q 1)) (+ (r (f A)) (G A)))", "((5 . 6))", "502"),
        ("(mod (A) (defun c (X Y) (* X Y)) (defun G (A) (let ((B (+ A 1))) (let ((C (c B 2))) (+ C B)))) (G A))", "(5)", "18"),
        ("(mod (A) (defun r (X) (* X 2)) (defun G (A) (let ((B (+ A 1))) (* B (r 3)))) (G A))", "(5)", "36"),
        ("(mod (A) (defun r (X) (* X 2)) (defun G (A) (assign-lambda B (+ A 1) (* B (r 3)))) (G A))", "(5)", "36"),
        // qq: unquotes below a form headed by 1, and in tail position (F34)
        ("(mod (X) (qq (1 (unquote X))))", "(50)", "(1 50)"),
        ("(mod (X) (qq (7 . (unquote X))))", "(50)", "(7 . 50)"),
        ("(mod (X) (qq ((unquote X) (8 (unquote (+ X 1))) . 9)))", "(50)", "(50 (8 51) . 9)"),
        ("(mod (X) (qq (7 8 . 9)))", "(50)", "(7 8 . 9)"),
        // a parameter spelled q / quote is a name like any other (F37)
        ("(mod (A) (defun F (q x) (+ q x)) (F A 2))", "(10)", "12"),
        ("(mod (A) (defun-inline F (quote x) (- quote x)) (F A 2))", "(10)", "8"),
        // a binding expression that opens its own scope re-using a sibling's name (seed C01-d swapped the renaming passes)
        ("(mod (A) (assign X (+ A 1) Y (let ((X (* A 2))) (+ X 1)) (+ X Y)))", "(5)", "17"),
        ("(mod (A) (defun F (A) (assign X (+ A 1) Y (assign X (* A 10) (+ X 1)) (c X Y))) (F A))", "(5)", "(6 . 51)"),
        ("(mod (A) (defun-inline F (A) (assign X (+ A 1) Y (let ((X (* X 10))) (+ X 1)) (c X Y))) (F A))", "(5)", "(6 . 61)"),
        ("(mod (A) (defun G (A) (assign N (+ A 1) R (a (lambda ((& A) N) (* A N)) (c 7 ())) (c N (c R ())))) (G A))", "(5)", "(6 35)"),
        // lambdas in every dialect (the withdrawn repair 57c15dc made each of them fail to compile in cl23.1 / cl24)
        ("(mod (X) (defun g (X) (c (a (lambda ((& X) Z) (+ 1 (* Z Z X))) (list 3)) (a (lambda ((& X) Z) (+ 2 (* Z Z X))) (list 4)))) (g X))", "(5)", "(46 . 82)"),
        ("(mod (X) (a (lambda ((& X) Z) (+ X Z)) (list 3)))", "(5)", "8"),
    ]
}
const ALL_DIALECTS: [&str; 6] = ["*standard-cl-21*", "*strict-cl-21*", "*standard-cl-22*", "*standard-cl-23*", "*standard-cl-23.1*", "*standard-cl-24*"];


// ---- C16 (open case): the residual the REPL reduces (mod (X) EXPR) to, compiled with the same definitions, agrees with the
// original program on every argument for which the original returns a value
fn chk_repl_open(defs: &[&str], expr: &str, argsets: &[&str]) -> Option<Value> {
    use chialisp::classic::clvm_tools::stages::stage_0::DefaultProgramRunner;
    use chialisp::compiler::compiler::DefaultCompilerOpts;
    use chialisp::compiler::repl::Repl;
    use std::rc::Rc;
    let defs_v: Vec<String> = defs.iter().map(|d| d.to_string()).collect();
    let ex = expr.to_string();
    let argv: Vec<String> = argsets.iter().map(|d| d.to_string()).collect();
    let res = catch_unwind(move || {
        let mut a = clvmr::Allocator::new();
        let opts = Rc::new(DefaultCompilerOpts::new("*repl*"));
        let runner = Rc::new(DefaultProgramRunner::new());
        let mut repl = Repl::new(opts, runner);
        for d in defs_v.iter() { if repl.process_line(&mut a, d.clone()).is_err() { return None; } }
        let residual = match repl.process_line(&mut a, format!("(mod (X) {})", ex)) { Ok(Some(r)) => r.to_sexp().to_string(), _ => return None };
        let orig = with_dialect(&format!("(mod (X) {} {})", defs_v.join(" "), ex), "*standard-cl-21*");
        let resid = with_dialect(&format!("(mod (X) {} {})", defs_v.join(" "), residual), "*standard-cl-21*");
        for at in argv.iter() {
            let want = match compile_and_run(&orig, false, at) { Ok(Some(w)) => w, _ => continue };
            let got = compile_and_run(&resid, false, at);
            if got != Ok(Some(want.clone())) { return Some((residual, at.clone(), format!("original program returns {:?}, residual program gives {:?}", want, got))); }
        }
        None
    });
    match res {
        Ok(Some((residual, at, o))) => Some(hit(json!({"definitions": defs, "expression": expr, "args": at}), format!("compiling the residual {} agrees with the original", residual), o, "Repl::process_line on (mod (X) expr) vs compile + clvmr run (cl21)")),
        Err(_) => Some(hit(json!({"definitions": defs, "expression": expr}), "no panic".into(), "panic".into(), "REPL / compile panicked")),
        _ => None,
    }
}

// ---- C16: a constant the REPL reduces an expression to equals what the compiled program returns
fn chk_repl(defs: &[&str], expr: &str) -> Option<Value> {
    use chialisp::classic::clvm_tools::binutils::assemble;
    use chialisp::classic::clvm_tools::stages::stage_0::DefaultProgramRunner;
    use chialisp::compiler::compiler::DefaultCompilerOpts;
    use chialisp::compiler::repl::Repl;
    use std::rc::Rc;
    let defs_v: Vec<String> = defs.iter().map(|d| d.to_string()).collect();
    let ex = expr.to_string();
    let res = catch_unwind(move || {
        let mut a = clvmr::Allocator::new();
        let opts = Rc::new(DefaultCompilerOpts::new("*repl*"));
        let runner = Rc::new(DefaultProgramRunner::new());
        let mut repl = Repl::new(opts, runner);
        for d in defs_v.iter() { if repl.process_line(&mut a, d.clone()).is_err() { return None; } }
        let r = match repl.process_line(&mut a, ex.clone()) { Ok(Some(r)) => r.to_sexp().to_string(), _ => return None };
        // the REPL answers constants as a quoted value (q . v) or a bare atom
        let repl_val = assemble(&mut a, &r).ok().and_then(|n| match a.sexp(n) { clvmr::allocator::SExp::Pair(h, t) if a.atom(h).as_ref() == [1u8] => Some(t), clvmr::allocator::SExp::Atom => Some(n), _ => None })
            .and_then(|n| clvmr::serde::node_to_bytes(&a, n).ok());
        let prog = format!("(mod () (include *standard-cl-21*) {} {})", defs_v.join(" "), ex);
        let compiled = compile_and_run(&prog, false, "()").ok().flatten();
        Some((r, repl_val, compiled))
    });
    match res {
        Ok(Some((text, rv, cv))) if rv.is_some() && cv.is_some() && rv != cv => Some(hit(json!({"definitions": defs, "expression": expr}), format!("compiled program returns {:?}", cv), format!("REPL answered {} = {:?}", text, rv), "compiler::repl::Repl::process_line vs compile + clvmr run of the same definitions and expression")),
        Err(_) => Some(hit(json!({"expression": expr}), "no panic".into(), "panic".into(), "REPL panicked")),
        _ => None,
    }
}

// ---- C10: ill-scoped programs are rejected with an error naming the culprit; the repaired twin compiles
fn compile_only(src: &str) -> Result<(), String> {
    use chialisp::classic::clvm_tools::clvmc::compile_clvm_text_maybe_opt;
    use chialisp::compiler::compiler::DefaultCompilerOpts;
    use chialisp::compiler::comptypes::CompilerOpts;
    use std::collections::HashMap;
    use std::rc::Rc;
    let mut a = clvmr::Allocator::new();
    let opts: Rc<dyn CompilerOpts> = Rc::new(DefaultCompilerOpts::new("*replay*"));
    let mut syms = HashMap::new();
    compile_clvm_text_maybe_opt(&mut a, false, opts, &mut syms, src, "*replay*", false).map(|_| ()).map_err(|e| format!("{:?}", e))
}
// compile in a child process: Ok(()) / Err(message) / Err("<killed ...>") when the compiler overflows its stack, panics or does not return in 120 s
pub fn compile_child(src: &str) -> i32 {
    let s = src.to_string();
    match catch_unwind(move || compile_only(&s)) { Ok(Ok(())) => 0, Ok(Err(e)) => { println!("{}", e); 1 }, Err(_) => 3 }
}
fn compile_in_child(src: &str) -> Result<(), String> { compile_in_child_limit(src, 120) }
fn compile_in_child_limit(src: &str, limit_secs: u64) -> Result<(), String> {
    use std::io::Read;
    let exe = std::env::current_exe().map_err(|e| format!("<no exe {}>", e))?;
    let mut child = std::process::Command::new(exe).args(["child_compile", src]).stdout(std::process::Stdio::piped()).stderr(std::process::Stdio::null()).spawn().map_err(|e| format!("<spawn {}>", e))?;
    let t0 = std::time::Instant::now();
    loop {
        match child.try_wait() {
            Ok(Some(st)) => {
                let mut out = String::new();
                if let Some(mut o) = child.stdout.take() { let _ = o.read_to_string(&mut out); }
                return match st.code() { Some(0) => Ok(()), Some(1) => Err(out), Some(3) => Err("<killed: the compiler panicked>".to_string()), Some(c) => Err(format!("<killed: exit code {}>", c)), None => Err("<killed: the compiler process died on a signal (stack overflow)>".to_string()) };
            }
            Ok(None) => { if t0.elapsed().as_secs() > limit_secs { let _ = child.kill(); let _ = child.wait(); return Err(format!("<killed: the compiler did not return within {} s>", limit_secs)); } std::thread::sleep(std::time::Duration::from_millis(20)); }
            Err(e) => return Err(format!("<wait {}>", e)),
        }
    }
}
fn chk_scope(bad: &str, names: &str, good: &str) -> Option<Value> {
    let (b, g, n) = (bad.to_string(), good.to_string(), names.to_string());
    let res = catch_unwind(move || {
        match compile_in_child(&b) {
            Ok(()) => return Some(format!("ill-scoped program compiled")),
            Err(e) => { if !n.split('|').any(|x| e.contains(x)) { return Some(format!("error does not name any of {:?}: {}", n, e)); } }
        }
        if let Err(e) = compile_only(&g) { return Some(format!("repaired twin does not compile: {}", e)); }
        None
    });
    match res {
        Ok(Some(o)) => Some(hit(json!({"ill_scoped": bad, "repaired": good}), format!("rejected with an error naming {}; repaired twin compiles", names), o, "compile_clvm_text_maybe_opt")),
        Err(_) => Some(hit(json!({"ill_scoped": bad}), "error".into(), "panic".into(), "compiler panicked")),
        _ => None,
    }
}

// ---- C12: the debugger ends with the consensus result (or a failure exactly when consensus fails); rows are consecutive
fn chk_cldb(prog_bytes: &[u8], envsel: u8) -> Option<Value> {
    use chialisp::classic::clvm_tools::stages::stage_0::{DefaultProgramRunner, TRunProgram};
    use chialisp::compiler::cldb::{CldbNoOverride, CldbRun, CldbRunEnv};
    use chialisp::compiler::clvm::{convert_from_clvm_rs, start_step};
    use chialisp::compiler::prims::prim_map;
    use chialisp::compiler::srcloc::Srcloc;
    use std::collections::HashMap;
    use std::rc::Rc;
    let prog = prog_bytes.to_vec();
    let res = catch_unwind(move || {
        let mut a = clvmr::Allocator::new();
        let p = match clvmr::serde::node_from_bytes(&mut a, &prog) { Ok(p) => p, Err(_) => return None };
        let mut tag = 0u8;
        let env = match envsel { 0 => build_tree(&mut a, 4, &mut tag), 1 => comb(&mut a, 20, true), _ => a.nil() };
        let runner = Rc::new(DefaultProgramRunner::new());
        let cons = runner.run_program(&mut a, p, env, None).ok().and_then(|r| clvmr::serde::node_to_bytes(&a, r.1).ok());
        let loc = Srcloc::start("*replay*");
        let sp = convert_from_clvm_rs(&mut a, loc.clone(), p).ok()?;
        let se = convert_from_clvm_rs(&mut a, loc, env).ok()?;
        let cenv = CldbRunEnv::new(None, Rc::new(vec![]), Box::new(CldbNoOverride::new_symbols(HashMap::new())));
        let mut run = CldbRun::new(runner, prim_map(), Box::new(cenv), start_step(sp, se));
        let mut rows: Vec<i64> = vec![];
        let mut failure = false;
        let mut steps = 0;
        let mut false_row: Option<String> = None;
        while !run.is_ended() && steps < 200000 {
            steps += 1;
            if let Some(out) = run.step(&mut a) {
                if let Some(r) = out.get("Row") { rows.push(r.parse().unwrap_or(-1)); }
                if out.contains_key("Failure") { failure = true; }
                // a row that reports an operator, its arguments and a value must be true of the consensus evaluator
                if let (Some(op), Some(args), Some(val)) = (out.get("Operator"), out.get("Arguments"), out.get("Value")) {
                    if false_row.is_none() && op.chars().all(|c| c.is_ascii_digit()) {
                        let mut b = clvmr::Allocator::new();
                        let parsed = chialisp::classic::clvm_tools::binutils::assemble(&mut b, args).ok().and_then(|n| {
                            let mut items = vec![]; let mut cur = n;
                            loop { match b.sexp(cur) { clvmr::allocator::SExp::Pair(f, r) => { items.push(f); cur = r; } clvmr::allocator::SExp::Atom => break } }
                            Some(items)
                        });
                        let want = chialisp::classic::clvm_tools::binutils::assemble(&mut b, val).ok().and_then(|n| clvmr::serde::node_to_bytes(&b, n).ok());
                        if let (Some(items), Some(want)) = (parsed, want) {
                            let texts: Vec<String> = items.iter().map(|i| format!("(q . {})", chialisp::classic::clvm_tools::binutils::disassemble(&b, *i, Some(0)))).collect();
                            let call = format!("({} {})", op, texts.join(" "));
                            if let Ok(cn) = chialisp::classic::clvm_tools::binutils::assemble(&mut b, &call) {
                                let nil = b.nil();
                                let r2 = Rc::new(DefaultProgramRunner::new());
                                let got = r2.run_program(&mut b, cn, nil, None).ok().and_then(|r| clvmr::serde::node_to_bytes(&b, r.1).ok());
                                if got.is_some() && got != Some(want) { false_row = Some(format!("row {}: operator {} on arguments {} is reported with value {}, the consensus evaluator gives {:?}", out.get("Row").cloned().unwrap_or_default(), op, args, val, got)); }
                            }
                        }
                    }
                }
            }
        }
        if let Some(fr) = false_row { return Some((cons, None, false, vec![-7], true)).map(|mut x: (Option<Vec<u8>>, Option<Vec<u8>>, bool, Vec<i64>, bool)| { x.1 = Some(fr.clone().into_bytes()); x }); }
        let fin = run.final_result().and_then(|v| chialisp::compiler::clvm::convert_to_clvm_rs(&mut a, v).ok()).and_then(|n| clvmr::serde::node_to_bytes(&a, n).ok());
        Some((cons, fin, failure, rows, run.is_ended()))
    });
    match res {
        Ok(Some((_cons, Some(msg), _, rows, _))) if rows == vec![-7] => Some(hit(json!({"program": prog_bytes, "env": envsel}), "every row that reports operator, arguments and value is true of the consensus evaluator".into(), String::from_utf8_lossy(&msg).to_string(), "CldbRun::step rows vs clvmr run_program of (operator . quoted arguments)")),
        Ok(Some((cons, fin, failure, rows, ended))) => {
            let consecutive = rows.iter().enumerate().all(|(i, r)| *r == rows[0] + i as i64);
            let agree = match (&cons, &fin) { (Some(c), Some(f)) => c == f && !failure, (None, _) => failure || fin.is_none(), (Some(_), None) => false };
            if !ended || !agree || !consecutive {
                Some(hit(json!({"program": prog_bytes, "env": envsel}), format!("consensus result {:?}; rows consecutive", cons), format!("debugger final {:?} failure={} ended={} rows={:?}", fin, failure, ended, &rows[..rows.len().min(12)]), "CldbRun::step to the end vs clvmr run_program"))
            } else { None }
        }
        Err(_) => Some(hit(json!({"program": prog_bytes}), "no panic".into(), "panic".into(), "debugger panicked")),
        _ => None,
    }
}

// ---- C15: reader locations address the token text; byte-at-a-time == whole
fn pos_table(text: &[u8]) -> Vec<(usize, usize)> {
    // position (line, col) of every byte offset, plus the position after the last byte
    let mut v = Vec::with_capacity(text.len() + 1);
    let (mut line, mut col) = (1usize, 1usize);
    for &b in text { v.push((line, col)); if b == b'\n' { line += 1; col = 1; } else if b == b'\t' { col = ((col + 8) / 8) * 8; } else { col += 1; } }
    v.push((line, col));
    v
}
fn leaves(s: &chialisp::compiler::sexp::SExp, out: &mut Vec<(chialisp::compiler::srcloc::Srcloc, String)>, lists: &mut Vec<chialisp::compiler::srcloc::Srcloc>) {
    use chialisp::compiler::sexp::SExp;
    match s { SExp::Cons(l, a, b) => { lists.push(l.clone()); leaves(a, out, lists); leaves(b, out, lists); } SExp::Nil(_) => {} other => out.push((other.loc(), other.to_string())) }
}
fn chk_reader(text: &[u8]) -> Option<Value> {
    use chialisp::compiler::sexp::{parse_sexp, ParsePartialResult};
    use chialisp::compiler::srcloc::Srcloc;
    let t = text.to_vec();
    let res = catch_unwind(move || {
        let whole = parse_sexp(Srcloc::start("*r*"), t.iter().copied());
        let mut ppr = ParsePartialResult::new(Srcloc::start("*r*"));
        let mut inc_err = None;
        for b in t.iter() { if let Err(e) = ppr.push(*b) { inc_err = Some(e); break; } }
        let inc = match inc_err { Some(e) => Err(e), None => ppr.finalize() };
        match (&whole, &inc) {
            (Ok(a), Ok(b)) => { if format!("{:?}", a) != format!("{:?}", b) { return Some("byte-at-a-time result differs from whole-text result".to_string()); } }
            (Err(a), Err(b)) => { if a != b { return Some(format!("byte-at-a-time error {:?} differs from whole-text error {:?}", b, a)); } }
            _ => return Some("byte-at-a-time and whole-text parsing disagree on success".to_string()),
        }
        let pos = pos_table(&t);
        let off_of = |p: (usize, usize)| pos.iter().position(|q| *q == p);
        let is_delim = |b: u8| b == b' ' || b == b'\t' || b == b'\n' || b == b'\r' || b == b'(' || b == b')';
        match whole {
            Err((l, _)) => { if off_of((l.line, l.col)).is_none() { return Some(format!("error location {}:{} is outside the text", l.line, l.col)); } None }
            Ok(forms) => {
                for f in forms.iter() {
                    let mut lv = vec![]; let mut lists = vec![];
                    leaves(f, &mut lv, &mut lists);
                    for (l, shown) in lv.iter() {
                        let start = match off_of((l.line, l.col)) { Some(o) => o, None => return Some(format!("leaf {} at {}:{} is outside the text", shown, l.line, l.col)) };
                        let end = match &l.until { Some(u) => match off_of((u.line, u.col)) { Some(o) => o, None => return Some(format!("leaf {} ends at {}:{}, outside the text", shown, u.line, u.col)) }, None => start + 1 };
                        if start >= t.len() || end > t.len() || end <= start { return Some(format!("leaf {} has empty or inverted extent {}..{}", shown, start, end)); }
                        let quoted = t[start] == b'"' || t[start] == b'\'';
                        if is_delim(t[start]) { return Some(format!("leaf {} starts on a delimiter at offset {}", shown, start)); }
                        // a dot that is not inside a word (it follows a delimiter or a closing quote) is the tail marker: the tail may start right behind it
                        let after_tail_dot = start > 0 && t[start - 1] == b'.' && (start < 2 || is_delim(t[start - 2]) || t[start - 2] == b'"' || t[start - 2] == b'\'');
                        if start > 0 && !is_delim(t[start - 1]) && t[start - 1] != b'"' && t[start - 1] != b'\'' && !quoted && !after_tail_dot { return Some(format!("leaf {} starts inside a token (offset {})", shown, start)); }
                        if !quoted {
                            let ends_tok = |b: u8| b == b' ' || b == b'\t' || b == b'\n' || b == b'\r' || b == b')';
                            let ws = |b: u8| b == b' ' || b == b'\t' || b == b'\n' || b == b'\r';
                            if t[start..end].iter().any(|b| ws(*b)) { return Some(format!("leaf {} extent {}..{} spans white space", shown, start, end)); }
                            if end < t.len() && !ends_tok(t[end]) { return Some(format!("leaf {} extent {}..{} stops inside its token", shown, start, end)); }
                        } else if t[end - 1] != t[start] { return Some(format!("quoted leaf {} extent {}..{} does not end at its closing quote", shown, start, end)); }
                    }
                    let first_open = t.iter().position(|b| *b == b'(');
                    let last_close = t.iter().rposition(|b| *b == b')');
                    // C15 quantifies over tab-free texts: after a tab a list's extent is computed in columns the text has no byte at
                    // (a thorough run flagged ((\t)) -- a demand beyond the property, corrected here); leaves are still checked
                    if t.contains(&b'\t') { continue; }
                    // "within the text of the list" is taken in (line, column) order: from the first opening parenthesis to just behind the last
                    // closing one (an empty list spread over two lines is given a two-column extent on its first line: inside, though
                    // not a byte position -- a thorough run had demanded byte positions for both ends, more than C15 states)
                    let lo = first_open.map(|o| pos[o]);
                    let hi = last_close.map(|c| { let (l, cc) = pos[c]; (l, cc + 1) });
                    for l in lists.iter() {
                        let st = (l.line, l.col);
                        let en = match &l.until { Some(u) => (u.line, u.col), None => (l.line, l.col + 1) };
                        match (lo, hi) { (Some(lo), Some(hi)) if st >= lo && en <= hi && st <= en => {}, _ => return Some(format!("list location {}:{} .. {:?} is not within the parentheses of the text", l.line, l.col, l.until)) }
                    }
                }
                None
            }
        }
    });
    match res {
        Ok(Some(o)) => Some(hit(json!({"text_bytes": text, "text": String::from_utf8_lossy(text)}), "every leaf location addresses exactly its token, lists lie within the parentheses, byte-at-a-time == whole".into(), o, "compiler::sexp::parse_sexp + ParsePartialResult")),
        Err(_) => Some(hit(json!({"text_bytes": text}), "no panic".into(), "panic".into(), "reader panicked")),
        _ => None,
    }
}

// ---- C20 at run time: the real tables are mutually inverse per version, monotone, and agree with prims()
fn chk_tables() -> Option<Value> {
    use chialisp::classic::clvm::{keyword_from_atom, keyword_to_atom};
    for v in 0..=2usize {
        let (from, to) = (keyword_from_atom(v), keyword_to_atom(v));
        for (atom, name) in from.iter() { if to.get(name) != Some(atom) { return Some(hit(json!({"version": v, "opcode": atom, "name": name}), "name maps back to the opcode".into(), format!("{:?}", to.get(name)), "keyword_from_atom / keyword_to_atom")); } }
        for (name, atom) in to.iter() { if from.get(atom) != Some(name) { return Some(hit(json!({"version": v, "name": name, "opcode": atom}), "opcode maps back to the name".into(), format!("{:?}", from.get(atom)), "keyword_to_atom / keyword_from_atom")); } }
        if v > 0 { for (atom, name) in keyword_from_atom(v - 1).iter() { if from.get(atom) != Some(name) { return Some(hit(json!({"version": v, "opcode": atom, "name": name}), "later version keeps the entry".into(), format!("{:?}", from.get(atom)), "version monotonicity")); } } }
    }
    // every operator of a version's table is implemented by the evaluator the tools select for that version (exhaustive over the tables):
    // a one-operator program may fail on its (missing) arguments, but never as an unimplemented operator
    {
        use chialisp::classic::clvm_tools::stages::stage_0::{DefaultProgramRunner, RunProgramOption, TRunProgram};
        for v in 0..=2usize { for (atom, name) in keyword_from_atom(v).iter() {
            if name == "q" || name == "a" { continue; }
            let mut a = clvmr::Allocator::new();
            let op = match a.new_atom(atom) { Ok(o) => o, Err(_) => continue };
            let nil = a.nil();
            let prog = match a.new_pair(op, nil) { Ok(p) => p, Err(_) => continue };
            let r = DefaultProgramRunner::new().run_program(&mut a, prog, nil, Some(RunProgramOption { operators_version: v, ..Default::default() }));
            if let Err(e) = r { let m = format!("{:?} / {}", e, e); if m.contains("nimplemented") { return Some(hit(json!({"version": v, "name": name, "opcode": atom}), "the evaluator selected for this operator version implements the operator".into(), m, "DefaultProgramRunner::run_program on (op) with operators_version = v")); } }
        } }
        for (name, val) in chialisp::compiler::prims::prims() {
            let n = String::from_utf8_lossy(&name).to_string();
            if n == "q" || n == "a" { continue; }
            let code = match &val { chialisp::compiler::sexp::SExp::Integer(_, i) => i.to_signed_bytes_be(), _ => continue };
            let mut a = clvmr::Allocator::new();
            let op = match a.new_atom(&code) { Ok(o) => o, Err(_) => continue };
            let nil = a.nil();
            let prog = match a.new_pair(op, nil) { Ok(p) => p, Err(_) => continue };
            let r = DefaultProgramRunner::new().run_program(&mut a, prog, nil, None);
            if let Err(e) = r { let m = format!("{:?} / {}", e, e); if m.contains("nimplemented") { return Some(hit(json!({"operator": n, "opcode": code}), "the default evaluator (used by the stepping evaluator, cldb, the repl and compile-time evaluation) implements every modern primitive".into(), m, "DefaultProgramRunner::run_program on (op) with the default options")); } }
        }
    }
    let to2 = keyword_to_atom(2);
    for (name, val) in chialisp::compiler::prims::prims() {
        let n = String::from_utf8_lossy(&name).to_string();
        let code = match &val { chialisp::compiler::sexp::SExp::Integer(_, i) => i.to_signed_bytes_be(), _ => vec![] };
        if to2.get(&n) != Some(&code) { return Some(hit(json!({"operator": n}), format!("classic opcode {:?}", to2.get(&n)), format!("modern compiler opcode {:?}", code), "compiler::prims::prims vs keyword_to_atom(2)")); }
    }
    None
}

// ---- C07: SExp equality holds exactly when the CLVM encodings are identical (all pairs over a set of leaf forms incl. non-minimal encodings)
fn chk_sexp_equality() -> Option<Value> {
    use chialisp::compiler::clvm::convert_to_clvm_rs;
    use chialisp::compiler::sexp::SExp;
    use chialisp::compiler::srcloc::Srcloc;
    use std::rc::Rc;
    let res = catch_unwind(|| {
        let loc = Srcloc::start("*eq*");
        let mut leaves: Vec<SExp> = vec![SExp::Nil(loc.clone())];
        for n in [-129i64, -128, -2, -1, 0, 1, 2, 127, 128, 255, 256, 258] { leaves.push(SExp::Integer(loc.clone(), num_bigint::BigInt::from(n))); }
        for b in [vec![], vec![0u8], vec![1], vec![0, 1], vec![0xff], vec![0xff, 0xff], vec![0xff, 0x80], vec![0x80], vec![0, 0x80], vec![1, 2], vec![0, 1, 2], vec![b'a']] {
            leaves.push(SExp::Atom(loc.clone(), b.clone())); leaves.push(SExp::QuotedString(loc.clone(), b'"', b.clone()));
        }
        let mut vals: Vec<Rc<SExp>> = leaves.iter().map(|l| Rc::new(l.clone())).collect();
        for l in leaves.iter().take(8) { vals.push(Rc::new(SExp::Cons(loc.clone(), Rc::new(l.clone()), Rc::new(SExp::Nil(loc.clone()))))); vals.push(Rc::new(SExp::Cons(loc.clone(), Rc::new(SExp::Atom(loc.clone(), vec![9])), Rc::new(l.clone())))); }
        let mut a = clvmr::Allocator::new();
        let enc: Vec<Option<Vec<u8>>> = vals.iter().map(|v| convert_to_clvm_rs(&mut a, v.clone()).ok().and_then(|n| clvmr::serde::node_to_bytes(&a, n).ok())).collect();
        for i in 0..vals.len() { for j in 0..vals.len() {
            let eq = *vals[i] == *vals[j];
            let same = enc[i].is_some() && enc[i] == enc[j];
            if eq != same { return Some((format!("{:?}", vals[i]), format!("{:?}", vals[j]), eq, enc[i].clone(), enc[j].clone())); }
        } }
        None
    });
    match res {
        Ok(Some((x, y, eq, ex, ey))) => Some(hit(json!({"left": x, "right": y}), format!("== holds exactly when the encodings {:?} and {:?} are identical", ex, ey), format!("== returned {}", eq), "SExp == SExp vs convert_to_clvm_rs + node_to_bytes, all pairs of the enumerated values")),
        Err(_) => Some(hit(json!({}), "no panic".into(), "panic".into(), "SExp equality panicked")),
        _ => None,
    }
}

// ---- C05: same source, same options => same bytes and the same user-visible symbols, whatever was
// compiled before in the process and whichever thread compiles
fn compile_bytes_and_symbols(src: &str) -> Result<(Vec<u8>, Vec<(String, String)>), String> {
    use chialisp::classic::clvm_tools::clvmc::compile_clvm_text;
    use chialisp::compiler::compiler::DefaultCompilerOpts;
    use chialisp::compiler::comptypes::CompilerOpts;
    use std::collections::HashMap;
    use std::rc::Rc;
    let mut a = clvmr::Allocator::new();
    let opts: Rc<dyn CompilerOpts> = Rc::new(DefaultCompilerOpts::new("*replay*"));
    let mut syms = HashMap::new();
    let n = compile_clvm_text(&mut a, opts, &mut syms, src, "*replay*", true).map_err(|e| format!("{:?}", e))?;
    let bytes = clvmr::serde::node_to_bytes(&a, n).map_err(|e| format!("{:?}", e))?;
    let mut user: Vec<(String, String)> = syms.into_iter().filter(|(k, v)| !k.contains("_$_") && !v.contains("_$_")).collect();
    user.sort();
    Ok((bytes, user))
}
fn determinism_programs() -> Vec<String> {
    let mut v: Vec<String> = vec![];
    // programs that define a macro / constant / function of the same name differently: nothing may leak from one compilation into the next
    for d in ["*standard-cl-23*", "*strict-cl-21*", "*standard-cl-21*"] {
        for k in [2, 3] {
            v.push(format!("(mod (X) (include {}) (defmac scale (N) (* {} N)) (+ X (scale 7)))", d, k));
            v.push(format!("(mod (X) (include {}) (defmacro twice (N) (qq (* {} (unquote N)))) (defconstant KK {}) (defun-inline hh (A) (+ A {})) (+ (twice X) KK (hh X)))", d, k, k, k));
        }
    }
    for (b, _, _) in meaning_cases() { for d in ["*standard-cl-21*", "*standard-cl-22*", "*standard-cl-23*"] { v.push(with_dialect(b, d)); } }
    // nested assign forms with many de-inlining choices of nearly equal size (from the generator of the repository's cse_regression test)
    v.push(with_dialect("(mod (a1) (defun defined-fun (a1) (assign v3 (assign v1 (17 a1 (18 (17 (16 (17 a1 (q . -76)) (q . -99)) a1) a1)) (16 v1 (17 (17 (17 (17 a1 (18 (q . 77) (18 (17 v1 v1) a1))) (q . -111)) (q . -103)) v1))) v5 (assign v0 (18 (q . -114) (16 (18 (18 a1 (18 (18 (q . -60) a1) a1)) a1) a1)) v4 (18 v0 (16 v0 a1)) (18 (18 v0 (17 (16 (q . 53) (18 (q . 115) (16 (q . -124) (17 v4 (17 (q . 103) (17 v4 (q . 103))))))) v4)) a1)) v6 (assign v2 (16 (q . -42) (18 (q . -77) (17 (17 a1 a1) a1))) (18 (16 (17 (q . 26) (18 a1 (18 (q . -95) (q . 50)))) v2) v3)) v6)) (defined-fun a1))", "*standard-cl-23*"));
    v.push(with_dialect("(mod (a1) (defun defined-fun (a1) (assign v0 (17 a1 (16 a1 (18 (17 (17 (q . -25) (17 (18 (q . 59) (16 (q . -34) (q . 36))) a1)) a1) a1))) v2 (assign v3 (16 (q . 51) a1) (16 (16 (18 (18 v3 (17 (q . 110) (16 v3 (17 (16 (q . 124) (q . 44)) a1)))) (q . -121)) a1) (q . -21))) v4 (17 v2 (16 (q . -31) (18 v2 (q . -25)))) v5 (17 a1 (16 (17 (17 v0 (18 (17 (q . 110) (17 (18 (q . -34) (q . 95)) v2)) v2)) a1) (q . 83))) v6 (assign v1 (17 (17 (18 (18 (q . 50) (17 a1 a1)) (q . 20)) a1) (q . 42)) (16 (16 (18 v5 (17 v5 v4)) v1) (q . -75))) v6)) (defined-fun a1))", "*standard-cl-23*"));
    for d in ["*standard-cl-21*", "*standard-cl-22*", "*standard-cl-23*"] {
        v.push(with_dialect("(mod (A B) (defun G (X) (lambda ((& X) Z) (+ X Z))) (a (G A) (list B)))", d));
        v.push(with_dialect("(mod (X Y) (defun F (M N) (let ((S (+ M N)) (T (* M N))) (list (* S S) (* T T) (+ (* S S) (* T T)) (sha256 (* S S) (* T T))))) (F X Y))", d));
        v.push(with_dialect("(mod (X) (defun H (A) (assign p (+ A 1) q (* p p) r (- q p) (list p q r (+ q r) (+ q r)))) (H X))", d));
        v.push(with_dialect("(mod (X) (defun QF (A) (list (q . A) A (q A B))) (QF X))", d));
        v.push(with_dialect("(mod (X Y) (defun M (A B) (list (* (+ A 1) (+ A 1)) (* (+ B 2) (+ B 2)) (- (+ A 1) (+ B 2)) (sha256 (+ A 1) (+ B 2)) (* (- A B) (- A B)) (+ (- A B) 3))) (M X Y))", d));
    }
    v
}
fn chk_determinism() -> Option<Value> {
    let progs = determinism_programs();
    // first pass: every program once
    let first: Vec<Result<(Vec<u8>, Vec<(String, String)>), String>> = progs.iter().map(|p| catch_unwind({ let p = p.clone(); move || compile_bytes_and_symbols(&p) }).unwrap_or(Err("panic".into()))).collect();
    // second pass in reverse order (different history, a failed compile in between), third pass on another thread
    let _ = catch_unwind(|| compile_bytes_and_symbols("(mod (X) (include *standard-cl-23*) (+ X undefined_name))"));
    for (i, p) in progs.iter().enumerate().rev() {
        if skipped(&json!({"source": p})) { continue; }
        let again = catch_unwind({ let p = p.clone(); move || compile_bytes_and_symbols(&p) }).unwrap_or(Err("panic".into()));
        if again.is_err() && first[i].is_err() { continue; }
        if again != first[i] { return Some(hit(json!({"source": p}), format!("first: {}", first[i].as_ref().map(|x| x.0.iter().map(|b| format!("{:02x}", b)).collect::<String>()).unwrap_or_default()), format!("again: {}", again.as_ref().map(|x| x.0.iter().map(|b| format!("{:02x}", b)).collect::<String>()).unwrap_or_default()), "compile_clvm_text twice in one process: bytes or user-visible symbols differ")); }
    }
    // the same program several more times in a row: every HashMap / HashSet the compiler makes hashes with fresh keys, so an
    // output that depends on the walk order of one shows up here (the withdrawn repair d8eda92 made the cl23 de-inliner do that)
    for (i, p) in progs.iter().enumerate() {
        if skipped(&json!({"source": p})) || !(p.contains("cl-23") || p.contains("cl-24")) { continue; }
        for _ in 0..4 {
            let again = catch_unwind({ let p = p.clone(); move || compile_bytes_and_symbols(&p) }).unwrap_or(Err("panic".into()));
            if again.is_err() && first[i].is_err() { continue; }
            if again != first[i] { return Some(hit(json!({"source": p}), format!("first: {:?}", first[i].as_ref().map(|x| x.0.len())), format!("a later compilation of the same text differs: {:?}", again.as_ref().map(|x| x.0.len())), "compile_clvm_text five times in one process")); }
        }
    }
    // every program on a thread of its own (no per-thread history at all), in reverse order
    for (i, p) in progs.iter().enumerate().rev() {
        if skipped(&json!({"source": p})) { continue; }
        let p2 = p.clone();
        let alone = std::thread::spawn(move || catch_unwind(move || compile_bytes_and_symbols(&p2)).unwrap_or(Err("panic".into()))).join().unwrap_or(Err("thread died".into()));
        if alone.is_err() && first[i].is_err() { continue; }
        if alone != first[i] { return Some(hit(json!({"source": p}), format!("{:?}", first[i].as_ref().map(|x| (x.0.len(), x.1.len()))), format!("{:?}", alone.as_ref().map(|x| (x.0.len(), x.1.len()))), "compile_clvm_text on a fresh thread vs in sequence")); }
    }
    None
}

// one recorded program: compiled, then again after an unrelated compilation that draws generated names
fn chk_determinism_one(src: &str) -> Option<Value> {
    let p = src.to_string();
    let first = catch_unwind({ let p = p.clone(); move || compile_bytes_and_symbols(&p) }).unwrap_or(Err("panic".into()));
    let _ = catch_unwind(|| compile_bytes_and_symbols("(mod (X Y) (include *standard-cl-21*) (defun F (M N) (let ((S (+ M N)) (T (* M N))) (list S T))) (F X Y))"));
    let again = catch_unwind({ let p = p.clone(); move || compile_bytes_and_symbols(&p) }).unwrap_or(Err("panic".into()));
    if again.is_err() && first.is_err() { return None; }
    if again != first { return Some(hit(json!({"source": src}), format!("first: {:?}", first.as_ref().map(|x| x.0.len())), format!("again differs: {:?}", again.as_ref().map(|x| x.0.len())), "compile_clvm_text twice in one process, another compilation in between")); }
    None
}

pub fn search(name: &str, seed: u64) -> Value {
    match name {
        "determinism" => {
            chk_determinism().unwrap_or_else(|| nf(&format!("{} programs (cl21/cl22/cl23; functions, inlines, lets, assign, lambdas with captures, CSE candidates) compile to identical bytes and user-visible symbols when compiled again after other (also failed) compilations and each on a fresh thread of its own (incl. programs that define a macro / constant / inline of the same name differently)", determinism_programs().len())))
        }
        "tables" | "prims_agree_with_kw" | "builders_select_same_rows_and_are_monotone" | "opcodes_pairwise_distinct" | "names_pairwise_distinct" | "selectors_agree" | "kw_rows_known_to_modern_compiler" | "stepper_constants_agree" => {
            chk_tables().unwrap_or_else(|| nf("run-time tables are mutually inverse per version, monotone, and agree with prims(); every operator of every version's table and every modern primitive is implemented by the evaluator selected for it (one-operator program per name, exhaustive)"))
        }
        "reader_locs" | "unit:makeatom" | "unit:readerstep" => {
            let toks: Vec<&[u8]> = vec![b"(", b")", b" ", b"\t", b"\n", b"ab", b"x", b"12", b"0x1f", b"\"q s\"", b"'p'", b".", b";c\n"];
            let n = toks.len();
            let maxlen = if thorough() { 5 } else { 4 };
            let mut count = 0u64;
            for len in 1..=maxlen { for k in 0..n.pow(len as u32) {
                let mut t: Vec<u8> = vec![]; let mut kk = k;
                for _ in 0..len { t.extend_from_slice(toks[kk % n]); kk /= n; }
                count += 1;
                if let Some(v) = chk_reader(&t) { return v; }
            } }
            for t in [&b"(abcdef\tx yy)"[..], &b"(a\n\t(b c)\n  d)"[..], &b"       \t(q 1 2)"[..], &b"(\"a\\\"b\" c)"[..]] { if let Some(v) = chk_reader(t) { return v; } }
            // #-prefixed operator names: every node is located in the text that was read (finding F54: the operator table's pseudo-file)
            for t in ["(#a x)", "#c ", "(#q . 1)", "(x (#sha256 y) #+ )", "(#notanop x)"] {
                let parsed = catch_unwind(|| chialisp::compiler::sexp::parse_sexp(chialisp::compiler::srcloc::Srcloc::start("*replay-text*"), t.bytes()));
                if let Ok(Ok(forms)) = parsed {
                    fn files(s: &chialisp::compiler::sexp::SExp, out: &mut Vec<String>) { out.push(s.loc().file.to_string()); if let chialisp::compiler::sexp::SExp::Cons(_, a, b) = s { files(a, out); files(b, out); } }
                    let mut fs = vec![]; for f in forms.iter() { files(f, &mut fs); }
                    if let Some(bad) = fs.iter().find(|f| f.as_str() != "*replay-text*") { return hit(json!({"text": t}), "every node located in *replay-text*".into(), format!("a node is located in {}", bad), "parse_sexp, file name of every node's location"); }
                }
            }
            nf(&format!("reader locations and byte-at-a-time parsing agree with an independent position table on all {} texts of <= {} tokens over 13 token kinds (+ 4 tab / multi-line texts); every node of 5 texts with #-prefixed operator names is located in the text read", count, maxlen))
        }
        "cldb" => {
            let mut progs = stepper_programs();
            for hex in ["ff10ffff0105ffff010b80", "ff02ffff01ff10ff02ffff010180ffff04ffff0107ff808080", "ff03ffff0101ffff0102ffff010380", "ff08ffff010580", "ff0bffff0183666f6f80", "ff12ffff0103ffff10ffff0102ffff01038080"] { progs.push(hexv(hex)); }
            for t in ["(c 5 (i 2 (q . 1) (q . 2)))", "(c (i 2 (q . 1) (q . 2)) 5)", "(+ (i 2 (q . 10) (q . 20)) (f 1))", "(c (a (q . (+ 2 5)) 1) (q . 77))", "(i (i 2 () (q . 1)) (q . 8) (q . 9))"] { if let Some(b) = asm_bytes(t) { progs.push(b); } }
            for p in progs.iter() { for e in 0..3u8 { if skipped(&json!({"program": p, "env": e})) { continue; } if let Some(v) = chk_cldb(p, e) { return v; } } }
            nf("debugger runs to the consensus result (or fails exactly when consensus fails) with consecutive rows, and every row with operator, arguments and value is true of the consensus evaluator, on the enumerated programs x 3 environments (recorded findings skipped)")
        }
        "scoping" => {
            let cases: Vec<(&str, &str, &str)> = vec![
                ("(mod (X) (include *standard-cl-23*) (+ X undefined_thing))", "undefined_thing", "(mod (X) (include *standard-cl-23*) (+ X 1))"),
                ("(mod (X) (include *standard-cl-23*) (defun f (A) (+ A missing_name)) (f X))", "missing_name", "(mod (X) (include *standard-cl-23*) (defun f (A) (+ A 1)) (f X))"),
                ("(mod (X) (include *standard-cl-21*) (defun f (A) (+ A 1)) (defun f (A) (+ A 2)) (f X))", "f", "(mod (X) (include *standard-cl-21*) (defun f (A) (+ A 1)) (defun g (A) (+ A 2)) (f X))"),
                ("(mod (X) (include *standard-cl-21*) (defun-inline f (A) (+ A 1)) (defun f (A) (+ A 2)) (f X))", "f", "(mod (X) (include *standard-cl-21*) (defun-inline f (A) (+ A 1)) (defun g (A) (+ A 2)) (f X))"),
                ("(mod (X) (include *standard-cl-21*) (defun-inline f (A) (f (- A 1))) (f X))", "f|recurs", "(mod (X) (include *standard-cl-21*) (defun f (A) (if A (f (- A 1)) 0)) (f X))"),
                ("(mod (X) (include *standard-cl-21*) (defun-inline f (A) (g (- A 1))) (defun-inline g (A) (f (+ A 2))) (f X))", "f|g|recurs", "(mod (X) (include *standard-cl-21*) (defun-inline f (A) (g (- A 1))) (defun g (A) (if A (f (+ A 2)) 0)) (f X))"),
                ("(mod (X) (include *standard-cl-21*) (assign v1 (+ v2 1) v2 (+ v1 1) (* v1 v2)))", "v1|v2|deadlock|ircular", "(mod (X) (include *standard-cl-21*) (assign v1 (+ X 1) v2 (+ v1 1) (* v1 v2)))"),
                ("(mod (X) (include *standard-cl-21*) (assign yy (+ yy X) (* yy 2)))", "yy|deadlock|ircular", "(mod (X) (include *standard-cl-21*) (assign yy (+ 1 X) (* yy 2)))"),
                ("(mod (X) (include *standard-cl-21*) (assign (pp . qq) (c X pp) zz (+ X 1) (* zz 2)))", "pp|deadlock|ircular", "(mod (X) (include *standard-cl-21*) (assign (pp . qq) (c X 1) zz (+ X 1) (* zz 2)))"),
                ("(mod (X) (include *standard-cl-21*) (assign v1 (+ X 1) v1 (+ X 2) (* v1 v1)))", "v1|uplicate|multiple", "(mod (X) (include *standard-cl-21*) (assign v1 (+ X 1) v2 (+ X 2) (* v1 v2)))"),
                // redefinition under the optimising dialects (tree shaking runs before code generation there)
                ("(mod (X) (include *standard-cl-23*) (defun f (A) (+ A 1)) (defun f (A) (- A 1)) (f X))", "f", "(mod (X) (include *standard-cl-23*) (defun f (A) (+ A 1)) (defun g (A) (- A 1)) (f X))"),
                ("(mod (X) (include *standard-cl-24*) (defun f (A) (+ A 1)) (defun-inline f (A) (- A 1)) (f X))", "f", "(mod (X) (include *standard-cl-24*) (defun f (A) (+ A 1)) (defun-inline g (A) (- A 1)) (f X))"),
                ("(mod (X) (include *standard-cl-23.1*) (defun-inline f (A) (+ A 1)) (defun f (A) (- A 1)) (f X))", "f", "(mod (X) (include *standard-cl-23.1*) (defun-inline f (A) (+ A 1)) (defun g (A) (- A 1)) (f X))"),
                // inline cycles whose back edge is in argument position (under if / +), lengths 2 and 3
                ("(mod (X) (include *standard-cl-21*) (defun-inline EVEN (N) (if N (ODD (- N 1)) 1)) (defun-inline ODD (N) (if N (EVEN (- N 1)) ())) (EVEN X))", "EVEN|ODD|recurs", "(mod (X) (include *standard-cl-21*) (defun-inline EVEN (N) (if N (ODD (- N 1)) 1)) (defun ODD (N) (if N (EVEN (- N 1)) ())) (EVEN X))"),
                ("(mod (X) (include *standard-cl-23*) (defun-inline EVEN (N) (if N (ODD (- N 1)) 1)) (defun-inline ODD (N) (if N (EVEN (- N 1)) ())) (EVEN X))", "EVEN|ODD|recurs", "(mod (X) (include *standard-cl-23*) (defun-inline EVEN (N) (if N (ODD (- N 1)) 1)) (defun ODD (N) (if N (EVEN (- N 1)) ())) (EVEN X))"),
                ("(mod (X) (include *standard-cl-21*) (defun-inline p1 (N) (+ 1 (p2 N))) (defun-inline p2 (N) (+ 2 (p3 N))) (defun-inline p3 (N) (+ 3 (p1 N))) (p1 X))", "p1|p2|p3|recurs", "(mod (X) (include *standard-cl-21*) (defun-inline p1 (N) (+ 1 (p2 N))) (defun-inline p2 (N) (+ 2 (p3 N))) (defun p3 (N) (if N (+ 3 (p1 (- N 1))) 0)) (p1 X))"),
                ("(mod (X) (include *standard-cl-21*) (defun-inline s1 (N) (* 2 (s1 (- N 1)))) (s1 X))", "s1|recurs", "(mod (X) (include *standard-cl-21*) (defun s1 (N) (if N (* 2 (s1 (- N 1))) 1)) (s1 X))"),
            ];
            for (bad, names, good) in cases.iter() { if let Some(v) = chk_scope(bad, names, good) { return v; } }
            // an unbound identifier that is not plain ASCII (finding F28: strictness is only applied to `printable` atoms)
            let more: Vec<(&str, &str, &str)> = vec![
                ("(mod (X) (include *standard-cl-23*) (+ X \u{fc}nbound))", "nbound", "(mod (X) (include *standard-cl-23*) (+ X 1))"),
                ("(mod (X) (include *strict-cl-21*) (+ X und\u{e9}fined))", "fined", "(mod (X) (include *strict-cl-21*) (+ X 1))"),
                ("(mod (X) (include *standard-cl-23*) (defun f (A) (+ A \u{3b1})) (f X))", "Unbound", "(mod (X) (include *standard-cl-23*) (defun f (A) (+ A 1)) (f X))"),
                ("(mod (X) (include *standard-cl-24*) (+ X \u{fc}nbound))", "nbound", "(mod (X) (include *standard-cl-24*) (+ X 1))"),
                ("(mod (X) (include *standard-cl-23.1*) (defun f (A) (+ A \u{3b1})) (f X))", "Unbound", "(mod (X) (include *standard-cl-23.1*) (defun f (A) (+ A 1)) (f X))"),
                // an unbound name in a macro template, in each strict dialect (finding F44: cl23+ emit it as a constant)
                ("(mod (X) (include *strict-cl-21*) (defmacro M (A) (qq (+ YY (unquote A)))) (M X))", "YY", "(mod (X) (include *strict-cl-21*) (defmacro M (A) (qq (+ 1 (unquote A)))) (M X))"),
                ("(mod (X) (include *standard-cl-23*) (defmacro M (A) (qq (+ YY (unquote A)))) (M X))", "YY", "(mod (X) (include *standard-cl-23*) (defmacro M (A) (qq (+ 1 (unquote A)))) (M X))"),
                ("(mod (X) (include *standard-cl-23.1*) (defmacro M (A) (qq (+ YY (unquote A)))) (M X))", "YY", "(mod (X) (include *standard-cl-23.1*) (defmacro M (A) (qq (+ 1 (unquote A)))) (M X))"),
                ("(mod (X) (include *standard-cl-24*) (defmacro M (A) (qq (+ YY (unquote A)))) (M X))", "YY", "(mod (X) (include *standard-cl-24*) (defmacro M (A) (qq (+ 1 (unquote A)))) (M X))"),
                ("(mod (X) (include *standard-cl-23*) (defmac M (A) (qq (+ YY (unquote A)))) (M X))", "YY", "(mod (X) (include *standard-cl-23*) (defmac M (A) (qq (+ 1 (unquote A)))) (M X))"),
                // an inline function whose body names a parameter of the program, not one of its own (finding F45: accepted when called from the main expression)
                ("(mod (X) (include *standard-cl-23*) (defun-inline F (A) (+ A X)) (F 1))", "X", "(mod (X) (include *standard-cl-23*) (defun-inline F (A) (+ A 1)) (F 1))"),
                ("(mod (X) (include *strict-cl-21*) (defun-inline F (A) (+ A X)) (F 1))", "X", "(mod (X) (include *strict-cl-21*) (defun-inline F (A) (+ A 1)) (F 1))"),
                ("(mod (X) (include *standard-cl-23*) (defun-inline F (A) (+ A X)) (defun G (Q) (F Q)) (G 1))", "X", "(mod (X) (include *standard-cl-23*) (defun-inline F (A) (+ A 1)) (defun G (Q) (F Q)) (G 1))"),
            ];
            for (bad, names, good) in more.iter() { if skipped(&json!({"ill_scoped": bad, "repaired": good})) { continue; } if let Some(v) = chk_scope(bad, names, good) { return v; } }
            nf("25 ill-scoped programs (unbound names in macro templates under every strict dialect, an inline body naming a parameter of the program) (redefinitions of a reachable function also under cl23 / cl23.1 / cl24), each compiled in a child process (unbound name in main / in defun under a strict dialect, duplicate defun, inline+defun of one name, direct and mutual inline recursion with the back edge in head and in argument position (cycles of 1, 2 and 3), cyclic assign incl. self-reference, duplicate assign binding) are rejected with an error naming the culprit, and each repaired twin compiles")
        }
        "repl" => {
            let cases: Vec<(Vec<&str>, &str)> = vec![
                (vec![], "(+ 1 2)"),
                (vec!["(defun fact (N) (if (= N 1) 1 (* N (fact (- N 1)))))"], "(fact 5)"),
                (vec!["(defun-inline tup (A B) (c A B))", "(defun sum (L) (if L (+ (f L) (sum (r L))) 0))"], "(sum (list 1 2 3 4))"),
                (vec![], "(assign (V1 V2 V3) (list 1 2 3) V3)"),
                (vec![], "(assign (V1 V2 V3 V4) (list 1 2 3 4) (list V4 V3 V2 V1))"),
                (vec![], "(assign (V1 (V2 V3) . V4) (list 1 (list 2 3) 4 5) (list V1 V2 V3 V4))"),
                (vec!["(defun F (A B . C) (list A B C))"], "(F 1 2 3 4)"),
                (vec!["(defun G ((@ whole (P Q)) R) (list whole P Q R))"], "(G (list 1 2) 3)"),
                (vec!["(defconstant K 7)", "(defun addk (A) (+ A K))"], "(addk (addk 1))"),
                (vec!["(defun H (A (@ Z (B C))) (if A Z (list B C)))"], "(H 1 (q 2 3 4))"),
                (vec!["(defun H (A (@ Z (B C))) (if A Z (list B C)))"], "(H 1 (q 2 3 . 99))"),
                (vec!["(defun H (A (@ Z (B C))) (if A Z (list B C)))"], "(H () (q 2 3 4))"),
                (vec![], "(let ((pa 5) (pb 6)) (let* ((pc (+ pa pb)) (pd (* pc pc))) (list pa pb pc pd)))"),
                // a repeated parameter name binds its first occurrence (as in compiled code)
                (vec!["(defun F2 (A A) A)"], "(F2 1 2)"),
                (vec!["(defun G2 ((@ A (A B))) (list A B))"], "(G2 (list 1 2))"),
                (vec!["(defun H2 ((A B) (B C)) (list A B C))"], "(H2 (list 1 2) (list 3 4))"),
                (vec!["(defun F3 ((A B A) C) (list A B C))"], "(F3 (list 1 2 3) 4)"),
                (vec!["(defun mk (X) (list X (+ X 1) (+ X 2)))", "(defun-inline G3 ((P Q P)) (- P Q))"], "(G3 (mk 10))"),
                (vec!["(defun F4 ((A B A) C) (list A B C))"], "(F4 (q 1 2 3) 4)"),
                // operators whose opcode is the byte of another operator's name
                (vec!["(defun M5 (A B) (if A (% B 3) 0))"], "(M5 1 5)"),
                (vec![], "(% 17 5)"),
                // a let-bound variable under an if inside a function
                (vec!["(defun L5 (A) (let ((B (+ A 1))) (if B (* B 2) 0)))"], "(L5 10)"),
                (vec!["(defun L6 (A) (let ((B (+ A 1))) (* B 2)))"], "(L6 10)"),
                // boolean casts used for their value (seed C16-d reduced (not (not x)) to x)
                (vec![], "(not (not 5))"),
                (vec![], "(not (not (list 1 2)))"),
                (vec!["(defun to-bool (X) (not (not X)))"], "(to-bool 5)"),
                (vec!["(defun flag-bit (X Y) (logior (not (not X)) Y))"], "(flag-bit 2 4)"),
                (vec!["(defun nz (X) (+ 10 (not (not X)) (not X)))"], "(nz (q 7 8))"),
                // raw i with an empty-string condition and branches that do not reduce (seed C16-e took "" for true)
                (vec![], "(a (i \"\" (lambda (x) (+ x 1)) (lambda (x) (* x 2))) (list 5))"),
                (vec!["(defconstant NOTHING \"\")", "(defun pick (flag) (i flag (lambda (x) (+ x 1)) (lambda (x) (* x 2))))"], "(a (pick NOTHING) (list 5))"),
                (vec![], "(a (i () (lambda (x) (+ x 1)) (lambda (x) (* x 2))) (list 5))"),
                // the bare environment reference inside a function
                (vec!["(defun WA (A B) @)"], "(WA 3 4)"),
            ];
            for (d, e) in cases.iter() { if skipped(&json!({"definitions": d, "expression": e})) { continue; } if let Some(v) = chk_repl(d, e) { return v; } }
            let open_args = ["((1 2))", "((7 8 9))", "(((5 6) 11))"];
            let open_cases: Vec<(Vec<&str>, &str)> = vec![
                (vec!["(defun swap ((a . b)) (c b a))", "(defun g (n p) (if n (swap p) 0))"], "(g 1 X)"),
                (vec!["(defun len (l) (if l (+ 1 (len (r l))) 0))", "(defun swap ((a . b)) (c b a))", "(defun g (n p) (if n (swap p) 0))"], "(g 1 X)"),
                // helpers that happen to be spelled like CLVM operators must not capture the evaluator's own projections
                (vec!["(defun f (l) (if l (+ 1 (f (r l))) 0))", "(defun swap ((a . b)) (c b a))", "(defun g (n p) (if n (swap p) 0))"], "(g 1 X)"),
                (vec!["(defun r (x) (c x x))", "(defun second ((a b)) b)", "(defun g (n p) (if n (second p) 0))"], "(g 1 X)"),
                (vec!["(defun c (x y) (+ x y))", "(defun second ((a b)) b)", "(defun g (n p) (if n (second p) 0))"], "(g 1 X)"),
                (vec!["(defun-inline pair (a b) (c a b))", "(defun g (n p) (if n (pair (f p) (r p)) 0))"], "(g 1 X)"),
                (vec!["(defun sum3 ((a b c)) (+ a b c))", "(defun g (n p) (if n (sum3 p) 0))"], "(g 2 X)"),
                // direct calls (no if in between): the projections come from create_argument_captures
                (vec!["(defun first-of ((a . b)) a)", "(defun f (x) 99)"], "(first-of X)"),
                (vec!["(defun second-of ((a b)) b)", "(defun r (x) 98)"], "(+ 1 (second-of X))"),
                (vec!["(defun pairup (a b) (list a b))", "(defun c (x y) 97)", "(defun both ((@ w (a b))) (pairup w a))"], "(both X)"),
                (vec!["(defun flag-bit (P Q) (logior (not (not P)) Q))"], "(flag-bit (f X) 4)"),
                (vec!["(defun tb (P) (not (not P)))"], "(c (tb X) (tb (f X)))"),
                (vec![], "(i \"\" (* (f X) 100) (+ (f X) 1))"),
                (vec!["(defun-inline sel (cc p q) (i cc p q))"], "(sel \"\" (list (f X)) (c (f X) (f X)))"),
                (vec![], "(i 0 (* (f X) 100) (+ (f X) 1))"),
            ];
            for (d, e) in open_cases.iter() { if let Some(v) = chk_repl_open(d, e, &open_args) { return v; } }
            nf("32 closed REPL sessions and 15 open ones (raw i with an empty-string condition and branches that do not reduce; boolean casts used for their value, the bare @ inside a function) (residual compiled and compared on 3 argument trees, incl. helpers spelled like the operators f / r / c) (arithmetic, recursion, inline, assign destructuring of 3/4/nested patterns, rest args, @ capture, constants, let/let*) reduce to the constant the compiled cl21 program returns")
        }
        "classic_meaning" | "symbol_table_for_tree" | "unit:inlinesel" | "unit:symtable" => {
            // programs without a dialect sigil go through the classic (CLVM-hosted) compiler
            let cases: Vec<(&str, &str, &str)> = vec![
                ("(mod (X) (defun ff1 (A) (* A 2)) (ff1 (+ X 1)))", "(3)", "8"),
                ("(mod (X Y) (defun-inline g (A B) (- A B)) (g X Y))", "(10 3)", "7"),
                ("(mod ((A B) . C) (list A B C))", "((1 2) . 3)", "(1 2 3)"),
                ("(mod (X) (defun fact (N) (if (= N 1) 1 (* N (fact (- N 1))))) (fact X))", "(5)", "120"),
                ("(mod (X) (defmacro dbl (A) (qq (+ (unquote A) (unquote A)))) (dbl (* X 3)))", "(2)", "12"),
                ("(mod (X) (defconstant K 5) (defun-inline addk (A) (+ A K)) (addk (addk X)))", "(1)", "11"),
                ("(mod (A B C D E F G H I J) (defun pick (A B C D E F G H I J) (list J I (+ A J) (* B I))) (pick A B C D E F G H I J))", "(1 2 3 4 5 6 7 8 9 10)", "(10 9 11 18)"),
                ("(mod (L) (defun len (L) (if L (+ 1 (len (r L))) 0)) (defun sum (L) (if L (+ (f L) (sum (r L))) 0)) (c (len L) (sum L)))", "((1 2 3))", "(3 . 6)"),
                ("(mod (X) (defun-inline sel3 (((A B) C)) (list A B C)) (sel3 (list (list (+ X 1) (+ X 2)) (+ X 3))))", "(10)", "(11 12 13)"),
                ("(mod (X) (defun-inline selp (((A . B) . C)) (list A B C)) (selp (c (c (+ X 1) (+ X 2)) (+ X 3))))", "(10)", "(11 12 13)"),
                ("(mod (X) (defun-inline deep ((A (B (C D)) E)) (list A B C D E)) (deep (list 1 (list 2 (list 3 X)) 5)))", "(4)", "(1 2 3 4 5)"),
                // a capture whose name is spelled again inside its own pattern means the whole captured value
                ("(mod (X Y) (defun F (@ A (A B)) (c B A)) (F X Y))", "(100 (200 300))", "((200 300) 100 (200 300))"),
                ("(mod (P (@ Q (R Q))) (list P Q R))", "(1 (2 3))", "(1 (2 3) 2)"),
                // a capture below another capture in an inline function's parameters (finding F30: it was bound to the outer capture's value)
                ("(mod (X) (defun-inline F ((A (@ inner (B C)))) (list A inner B C)) (F X))", "((101 (102 103)))", "(101 (102 103) 102 103)"),
                ("(mod (X) (defun-inline F ((@ whole (A (@ in2 (B (@ in3 (C D))))))) (list whole A in2 B in3 C D)) (F X))", "((101 (102 (103 104))))", "((101 (102 (103 104))) 101 (102 (103 104)) 102 (103 104) 103 104)"),
                ("(mod (X Y) (defun-inline F (P (Q (@ Z (R S)))) (list P Q Z R S)) (F X Y))", "(5 (7 (8 9)))", "(5 7 (8 9) 8 9)"),
                // a literal 1 (the same atom as q for the classic reader) in front of a parameter in an inline body (seed C03-e stopped substituting after it)
                ("(mod (X Y) (defun-inline F (A B) (+ 1 (* A B))) (F X Y))", "(7 3)", "22"),
                ("(mod (X) (defun-inline inc (N) (+ 1 N)) (inc (inc X)))", "(7)", "9"),
                ("(mod (X Y) (defun-inline F (A B) (if A 1 B)) (F X Y))", "(0 3)", "3"),
                ("(mod (X Y) (defun-inline F ((A B)) (- 1 A B)) (F (list X Y)))", "(7 3)", "-9"),
                ("(mod (X Y) (defun-inline F (A B) (list A 1 B)) (F X Y))", "(7 3)", "(7 1 3)"),
                // a destructured inline argument more than 32 steps deep (seed C03-d narrowed the path arithmetic to u32)
                ("(mod (X) (defun-inline F ((P0 P1 P2 P3 P4 P5 P6 P7 P8 P9 P10 P11 P12 P13 P14 P15 P16 P17 P18 P19 P20 P21 P22 P23 P24 P25 P26 P27 P28 P29 P30 P31 P32 P33 P34 P35)) (list P0 P31 P32 P35)) (F X))", "((1000 1001 1002 1003 1004 1005 1006 1007 1008 1009 1010 1011 1012 1013 1014 1015 1016 1017 1018 1019 1020 1021 1022 1023 1024 1025 1026 1027 1028 1029 1030 1031 1032 1033 1034 1035))", "(1000 1031 1032 1035)"),
                ("(mod (X) (defun F ((P0 P1 P2 P3 P4 P5 P6 P7 P8 P9 P10 P11 P12 P13 P14 P15 P16 P17 P18 P19 P20 P21 P22 P23 P24 P25 P26 P27 P28 P29 P30 P31 P32 P33 P34 P35)) (list P0 P31 P32 P35)) (F X))", "((1000 1001 1002 1003 1004 1005 1006 1007 1008 1009 1010 1011 1012 1013 1014 1015 1016 1017 1018 1019 1020 1021 1022 1023 1024 1025 1026 1027 1028 1029 1030 1031 1032 1033 1034 1035))", "(1000 1031 1032 1035)"),
            ];
            // classic-compiler defects on record (F48, F49, F51): reported as known findings, skipped here by their recorded inputs
            let on_record: Vec<(&str, &str, &str)> = vec![
                ("(mod (X) (defun _helper (A) (+ A 1)) (_helper X))", "(7)", "8"),
                ("(mod (X) (defun-inline F (A) (c (q . A) A)) (F X))", "(7)", "(65 . 7)"),
                ("(mod (A B) (defun-inline F (X . Y) (c X Y)) (F A B))", "(7 8)", "(7 8)"),
            ];
            for (b, at, ex) in on_record.iter().chain(cases.iter()) {
                let inp = json!({"program": b, "dialect": "classic", "args": at, "expected": ex});
                if skipped(&inp) { continue; }
                if let Some(mut v) = chk_meaning(b, None, at, ex) { v["input"] = inp; return v; }
                let (b2, a2, e2) = (b.to_string(), at.to_string(), ex.to_string());
                let r = catch_unwind(move || { let got = compile_and_run(&b2, true, &a2); let mut a = clvmr::Allocator::new(); let want = chialisp::classic::clvm_tools::binutils::assemble(&mut a, &e2).ok().and_then(|n| clvmr::serde::node_to_bytes(&a, n).ok()); (got, want) });
                match r { Ok((Ok(g), w)) if g == w => {}, Ok((g, w)) => return hit(json!({"program": b, "dialect": "classic -O", "args": at}), format!("{} ({:?})", ex, w), format!("{:?}", g), "classic compile with optimisation + clvmr run"), Err(_) => return hit(json!({"program": b}), "no panic".into(), "panic".into(), "classic compile panicked") }
            }
            nf("23 programs (incl. a literal 1 in front of a parameter in inline bodies, nested destructuring in inline parameters, captures below captures, a 36-element destructured argument, a capture name repeated inside its pattern) compiled by the classic compiler (plain and optimised) return the hand-computed values (which the cl21 build also returns, see source_meaning)")
        }
        "source_meaning" | "create_let_env_expression" | "cons_bodyform" | "create_name_lookup_" | "finalize_env_" => {
            let mut n = 0;
            for (b, at, ex) in meaning_cases() { for d in ALL_DIALECTS.iter().map(|d| Some(*d)) {
                let inp = json!({"program": b, "dialect": d, "args": at, "expected": ex});
                if skipped(&inp) { continue; }
                n += 1;
                if let Some(mut v) = chk_meaning(b, d, at, ex) { v["input"] = inp; return v; }
            } }
            let rejected = NOT_ACCEPTED.with(|c| c.get());
            if rejected * 4 > n { return json!({"found": false, "error": true, "how": format!("{} of {} program x dialect pairs were rejected by the compiler: too few left to say anything", rejected, n)}); }
            nf(&format!("{} ({} program x dialect pairs, {} of them rejected by that dialect's compiler and so outside C01)", "58 programs (quoted data spelled like macro calls, user functions spelled c / f / r next to compiler-made projections, qq with unquotes below a 1-headed form and in tail position, parameters spelled q / quote, assign bindings that open a scope re-using a sibling's name, lambdas, functions, inlines, binders inside &rest tails that re-use visible names, let inside inline functions with @ captures, parameters drawn from a &rest tail with and without a rest parameter, quoted data containing (1), quoted atoms spelled like parameters, nested destructuring in inline parameters, nested mod in main / in defun, destructuring, @ capture, rest arguments, let/let*, recursion, macro, constants) x all six dialect sigils return the hand-computed values", n, rejected))
        }
        "opt_levels" | "null_optimization" | "null_optimization_of_code" | "post_codegen_function_optimize" | "post_codegen_output_optimize" | "atomize" => {
            let progs: Vec<(&str, Vec<&str>)> = vec![
                ("(mod (X) (defun F (A . REST) (c A REST)) (defun G (X) (F (* X 17) &rest (list (* X 17) 2))) (G X))", vec!["(100)", "(0)"]),
                ("(mod (X Y) (defun sq (A) (* A A)) (if (> (sq X) Y) (+ (sq X) (sq X) Y) (- (sq X) Y)))", vec!["(3 4)", "(1 5)"]),
                ("(mod (X) (defun-inline dbl (A) (+ A A)) (defun tri (A) (+ A (dbl A))) (let ((q (tri X)) (r (tri X))) (c q (c r (tri (dbl X))))))", vec!["(7)"]),
                ("(mod (L) (defun len (L) (if L (+ 1 (len (r L))) 0)) (defun sum (L) (if L (+ (f L) (sum (r L))) 0)) (c (len L) (c (sum L) (* (len L) (sum L)))))", vec!["((1 2 3))", "(())"]),
                ("(mod (A B C D E F G H) (defun pick (A B C D E F G H) (list H G (+ A H) (* B G))) (pick A B C D E F G H))", vec!["(1 2 3 4 5 6 7 8)"]),
                ("(mod (X) (defconstant K 11) (defun f (A B) (if A (* K (+ A B) (+ A B)) (+ K B))) (assign a (f X 2) b (f a X) (c a b)))", vec!["(0)", "(3)"]),
                ("(mod ((P Q) R) (defun g ((A B) C) (+ (* A B) (* A B) C)) (g (list P Q) R))", vec!["((2 3) 4)"]),
                ("(mod (X) (defun fn1 (A B) (+ A B)) (let ((pp (+ X 1))) (fn1 pp X)))", vec!["(3)"]),
                ("(mod (X) (if X (+ X 1) 2))", vec!["(3)", "(0)"]),
                ("(mod (X) (defun k () (q . ((1) 2))) (c X (k)))", vec!["(5)"]),
                ("(mod (X) (defconstant K (q . ((1) (2) (q) 3))) (defun pick (N) (if N K ())) (pick X))", vec!["(5)", "(0)"]),
                // the same costly expression under guards that do not cover each other: hoisting it above a guard makes the guarded case raise
                ("(mod (KIND ITEM) (defun describe (KIND ITEM) (list (if (l ITEM) (sha256 (f ITEM) (f (r ITEM)) KIND (* KIND 1000000000000) (+ KIND 1000000000000)) 0) (if (= KIND 2) (sha256 (f ITEM) (f (r ITEM)) KIND (* KIND 1000000000000) (+ KIND 1000000000000)) 1))) (describe KIND ITEM))", vec!["(1 77)", "(2 (5 6))", "(1 (5 6))"]),
                ("(mod (KIND ITEM) (defun describe (KIND ITEM) (if (= KIND 2) (if (l ITEM) (sha256 (f ITEM) (f (r ITEM)) KIND (* KIND 1000000000000) (+ KIND 1000000000000)) 99) (c KIND (sha256 (f ITEM) (f (r ITEM)) KIND (* KIND 1000000000000) (+ KIND 1000000000000))))) (describe KIND ITEM))", vec!["(2 77)", "(2 (5 6))", "(3 (5 6))"]),
                ("(mod (A B) (defun pick (A B) (if A (if (l B) (* (f B) (f B) 1000000007 (f B)) 1) (if (l B) (+ 3 (* (f B) (f B) 1000000007 (f B))) 2))) (pick A B))", vec!["(1 9)", "(0 9)", "(1 (4))", "(0 (4))"]),
                ("(mod (X) (let* ((A (+ X 1)) (B (* A A)) (C (- B A))) (c A (c B C))))", vec!["(3)"]),
                // applying a quoted quoted value: the data under the inner quote is not code
                ("(mod (X) (a (q 1 (2 (1 . 7) 1) 5) X))", vec!["((5 7))"]),
                ("(mod (X) (defun k (E) (a (q 1 (2 (1 . 7) 1) (5 1)) E)) (c X (k X)))", vec!["(9)"]),
                // a constant condition that is a zero-valued, non-empty atom
                ("(mod (X) (c X (i (q . 0x00) (q . 1) (q . 2))))", vec!["(5)"]),
                // boolean casts used as values
                ("(mod (X) (not (not X)))", vec!["(5)", "(0)", "((1 2))"]),
                ("(mod (X Y) (defun both (A B) (logior (not (not A)) (* 2 (not (not B))))) (both X Y))", vec!["(5 7)", "(0 (1))", "(3 0)"]),
                ("(mod (X) (defun flag (A) (if (not (not A)) (+ 10 (not (not A))) (not A))) (flag X))", vec!["(9)", "(0)"]),
                // a call with constant arguments inside a helper (F31: folding it recompiled the helpers with folding on, without end)
                ("(mod (X) (defun f (A B) (+ A B 1)) (defun g (X) (+ X (f 3 4))) (g X))", vec!["(5)"]),
                ("(mod (X) (defun fact (N) (if N (* N (fact (- N 1))) 1)) (defun g (X) (+ X (fact 5))) (g X))", vec!["(5)"]),
                // the same call under an outer guard's then-branch and under an inner guard in its else-branch (F36: hoisted above both)
                ("(mod (A B X) (defun f (X) (if (l X) (f (r X)) (if X (x X) 99))) (defun g (A B X) (if A (f X) (if B (f X) 0))) (g A B X))", vec!["(0 0 (1 2 . 3))", "(1 0 (1 2))", "(0 1 (1 2))"]),
                ("(mod (A B X) (defun g (A B X) (if A (g 0 0 X) (if B (g 0 0 X) X))) (g A B X))", vec!["(1 0 7)", "(0 1 7)"]),
                ("(mod (A B X) (defun g (A B X) (if A (if B (sha256 X X X) 1) (if B 2 (sha256 X X X)))) (g A B X))", vec!["(1 0 (1))", "(0 1 (1))", "(1 1 5)"]),
                // repeated expressions that part ways inside an assign form below the root of the function body (F38: bound at the root, outside the assign)
                ("(mod (X) (defun g (X) (+ 1 (assign y (* X 2) z (* y 3) (+ z (* y 3))))) (g X))", vec!["(5)"]),
                ("(mod (X) (defun g (X) (list (assign y (* X 2) z (* y 3) (+ z (* y 3))) (assign y (+ X 2) z (* y 3) (+ z (* y 3))))) (g X))", vec!["(5)"]),
                ("(mod (X) (defun g (X) (if X (assign y (* X 2) (assign z (* y 3) w (+ z (* y 3)) (+ w (* y 3) (* X 7) (* X 7)))) (* X 7))) (g X))", vec!["(5)", "(0)"]),
                // a pair-valued if that is both a binding and the body of an assign whose other binding is a constant (finding F42, reduced from a generated program)
                ("(mod (X) (defun f (P) (assign a 1 b (if (= 1 a) (c P 5) (c 5 P)) (if (= 1 a) (c P 5) (c 5 P)))) (f X))", vec!["(5)"]),
                // two lambdas with a shared capture in one function
                ("(mod (X) (defun g (X) (c (a (lambda ((& X) Z) (+ 1 (* Z Z X))) (list 3)) (a (lambda ((& X) Z) (+ 2 (* Z Z X))) (list 4)))) (g X))", vec!["(5)"]),
            ];
            for (b, argss) in progs.iter() { for at in argss { if skipped(&json!({"program": b, "args": at})) { continue; } if let Some(v) = chk_opt_levels(b, at) { return v; } } }
            let n_gen = if thorough() { 150 } else { 10 };
            // a fixed stream: the programs are the same on every run, so the recorded inputs of an open finding keep matching
            let mut g = Gen::new(78);
            for _ in 0..n_gen {
                let prog = g.program();
                for at in ["(3 5 7)", "(0 1 -2)"] { if skipped(&json!({"program": prog, "args": at, "generated": true})) { continue; } if let Some(mut v) = chk_generated_builds(&prog, at) { v["input"]["generated"] = json!(true); return v; } }
            }
            nf("31 programs (incl. constant calls inside helpers, calls repeated under guards that do not cover each other at two depths, repeated expressions inside nested assign forms, lambdas sharing a capture, a zero-byte constant condition, apply of a doubly quoted value, boolean casts (not (not x)) used as values, quoted data containing (1), repeated expressions under sibling and nested guards that raise when hoisted, let* chains) x argument sets: cl21/cl22/cl23 with -O off and on all agree on the returned value; 10 (thorough: 150) generated programs (seeded; 1-3 functions, plain and destructured parameters, let / let* / assign, if, arithmetic, comparisons, pairs, repeated subexpressions) x 2 argument sets: cl21, cl21 -O, strict-cl21, cl23, cl23.1, cl24 all compile and agree")
        }
        "bigint_from_bytes" | "bigint_to_bytes_clvm" | "bigint_to_bytes_unsigned" => {
            for len in 0..14usize { for pat in 0..6u8 { for signed in [false, true] {
                let b: Vec<u8> = (0..len).map(|i| match pat { 0 => (i as u8).wrapping_mul(37).wrapping_add(1), 1 => 0xff, 2 => 0x80u8.wrapping_add(i as u8), 3 => if i == 0 { 0 } else { 0xfe }, 4 => if i + 1 == len { 1 } else { 0 }, _ => (0x11u8).wrapping_mul(i as u8 + 1) }).collect();
                if let Some(v) = chk_bigint_from_bytes(&b, signed) { return v; }
            } } }
            nf("bigint_from_bytes agrees with the big-endian spec on 6 byte patterns x lengths 0..13, signed and unsigned")
        }
        "symbols" | "add_defun" => {
            let cases: Vec<(&str, Vec<(&str, &str)>)> = vec![
                ("(mod (X) (include *standard-cl-21*) (defun f (A) (* A 2)) (defun g (A B) (+ A B)) (g (f X) 1))", vec![("f", "(A)"), ("g", "(A B)")]),
                ("(mod (X) (include *standard-cl-21*) (defun scale (A B) (* A 2)) (defun dbl (Q) (* Q 2)) (+ (scale X 1) (dbl X)))", vec![("scale", "(A B)"), ("dbl", "(Q)")]),
                ("(mod (X) (include *standard-cl-21*) (defun dbl (Q) (* Q 2)) (defun scale (A B) (* A 2)) (+ (scale X 1) (dbl X)))", vec![("scale", "(A B)"), ("dbl", "(Q)")]),
                ("(mod (X) (include *standard-cl-21*) (defun h (A . R) (c A R)) (defun k ((P Q) Z) (+ P Q Z)) (h (k (c X (c 2 ())) 3) 4))", vec![("h", "(A . R)"), ("k", "((P Q) Z)")]),
                ("(mod (X) (include *standard-cl-23*) (defun fact (N) (if (= N 1) 1 (* N (fact (- N 1))))) (fact X))", vec![("fact", "(N)")]),
            ];
            for (i, (srcx, funs)) in cases.iter().enumerate() { if let Some(v) = chk_symbols(srcx, funs, i != 1 && i != 2) { return v; } }
            let calls: Vec<(&str, &str, Vec<(&str, i64)>, &str)> = vec![
                ("(mod (A B) (include *standard-cl-21*) (defun apply-to (F X) (a F (list X))) (apply-to (lambda ((& A) X) (- (* 100 A) X)) B))", "lambda", vec![("A", 7), ("X", 3)], "697"),
                ("(mod (A B) (include *standard-cl-21*) (defun apply-to (F X) (a F (list X))) (apply-to (lambda ((& A B) X Y) (list A B X Y)) B))", "lambda", vec![("A", 1), ("B", 2), ("X", 3), ("Y", 4)], "(1 2 3 4)"),
                ("(mod (X Y) (include *standard-cl-21*) (defun k ((P Q) Z . R) (list (+ P Q Z) R)) (k (list X Y) 3 4 5))", "k", vec![("P", 5), ("Q", 3), ("Z", 10), ("R", 77)], "(18 77)"),
                ("(mod (X) (include *standard-cl-21*) (defun dbl (A) (* A 2)) (dbl X))", "dbl", vec![("A", 21)], "42"),
            ];
            for (srcx, pre, b, ex) in calls.iter() { if let Some(v) = chk_symbol_call(srcx, pre, b, ex) { return v; } }
            // optimising cl21 build: functions whose optimised code is a bare atom (identity, accessor) are still found through their entry
            let opt_src = "(mod (A B) (include *standard-cl-21*) (defun add1 (X) (+ X 1)) (defun ident (X) X) (defun second (L) (f (r L))) (+ (add1 A) (ident A) (second B)))";
            for (pre, b, ex) in [("add1", vec![("X", 41i64)], "42"), ("ident", vec![("X", 41)], "41")] { if let Some(v) = chk_symbol_call_opt(opt_src, pre, &b, ex, true) { return v; } }
            // command-line path: functions whose whole code is one atom (F35: the location entry of that atom replaced the name)
            for (srcx, funs) in [("(mod (X) (include *standard-cl-23*) (defun f (Y) Y) (c (f X) (f 3)))", vec!["f"]), ("(mod (X) (include *standard-cl-23*) (defun sec (P Q) Q) (defun dbl (A) (* A 2)) (c (sec X (dbl X)) (sec 3 X)))", vec!["sec", "dbl"]), ("(mod (X) (include *standard-cl-21*) (defun f (Y) Y) (defun g (A B) (+ A B)) (g (f X) 1))", vec!["f", "g"])] {
                if let Some(v) = chk_symbols_cli(srcx, &funs) { return v; }
            }
            // identical code, different argument lists: name and arguments under the key belong to the same function (seed C13-d)
            for (srcx, pairs) in [("(mod (X) (include *standard-cl-21*) (defun first-of (A) A) (defun pick (A B) A) (+ (first-of X) (pick X 7)))", vec![("first-of", "(A)"), ("pick", "(A B)")]), ("(mod (X) (include *standard-cl-21*) (defun tail-of ((A B) C) (* C 2)) (defun dbl (P C) (* C 2)) (+ (tail-of (list X X) X) (dbl X X)))", vec![("tail-of", "((A B) C)"), ("dbl", "(P C)")])] {
                if let Some(v) = chk_symbols(srcx, &pairs, false) { return v; }
            }
            nf("symbol entries agree with the emitted program and the source argument lists on 7 programs (incl. functions with identical code in both orders and with different argument lists); the command-line table keeps every name on 3 programs with single-atom function bodies")
        }
        "entry_points" => {
            let bodies = ["(mod (X) (defun f (A) (* A 2)) (f (+ X 1)))", "(mod (X Y) (defun-inline g (A B) (+ A B)) (let ((z (g X Y))) (* z z)))", "(mod (X) (defconstant K 7) (if X (+ K X) K))",
                "(mod (X) (let* ((A (+ X 1)) (B (* A A))) (c A B)))", "(mod (X) (let* ((A (+ X 1)) (B (* A A)) (C (- B A))) (list A B C)))", "(mod (X) (a (q . (+ 2 (q . 1))) (list X)))", "(mod (X) (defun-inline dbl (A) (+ A A)) (let* ((P (dbl X)) (Q (dbl P))) (c P Q)))",
                "(mod (X) (c 0x00 X))", "(mod (X) (list 0 X 0x00 0x0000 -1 0xff))"];
            for d in ["*standard-cl-21*", "*standard-cl-22*", "*standard-cl-23*"] { for b in bodies { for o in [false, true] {
                let src = with_dialect(b, d);
                if let Some(v) = chk_entry_points(&src, o) { return v; }
            } } }
            // search path with a repeated directory and a same-named include file that differs between the two directories
            let base = std::env::temp_dir().join(format!("verif_replay_entry_{}", std::process::id()));
            let (da, db) = (base.join("A"), base.join("B"));
            let _ = std::fs::remove_dir_all(&base);
            if std::fs::create_dir_all(&da).is_ok() && std::fs::create_dir_all(&db).is_ok() {
                let _ = std::fs::write(da.join("kk.clib"), "((defconstant KK 1111))");
                let _ = std::fs::write(db.join("kk.clib"), "((defconstant KK 2222))");
                let (sa, sb) = (da.to_string_lossy().to_string(), db.to_string_lossy().to_string());
                for incs in [vec![sa.clone(), sb.clone()], vec![sb.clone(), sa.clone()], vec![sa.clone(), sb.clone(), sa.clone()], vec![sb.clone(), sa.clone(), sb.clone()]] {
                    for d in ["*standard-cl-21*", "*standard-cl-23*"] {
                        let src = format!("(mod (X) (include {}) (include kk.clib) (+ X KK))", d);
                        if let Some(v) = chk_entry_points_inc(&src, true, &incs) { let _ = std::fs::remove_dir_all(&base); return v; }
                    }
                }
                // the program as a file in a directory of its own that also holds a kk.clib (seed C11-d put that directory in front
                // of the library's search path only): both ways must take kk.clib from the search path, or both fail when it is not there
                let dp = base.join("proj");
                if std::fs::create_dir_all(&dp).is_ok() {
                    let _ = std::fs::write(dp.join("kk.clib"), "((defconstant KK 3333))");
                    for d in ["*standard-cl-21*", "*standard-cl-23*"] {
                        let file = dp.join("prog.clsp");
                        let _ = std::fs::write(&file, format!("(mod (X) (include {}) (include kk.clib) (+ X KK))", d));
                        for incs in [vec![sa.clone()], vec![sb.clone(), sa.clone()], vec![]] {
                            if let Some(v) = chk_entry_points_file(&file.to_string_lossy(), &incs) { let _ = std::fs::remove_dir_all(&base); return v; }
                        }
                    }
                }
                let _ = std::fs::remove_dir_all(&base);
            }
            nf("library entry and tool path emit identical bytes for 9 programs (incl. let* chains and quoted apply, which the classic post-optimiser rewrites, and zero-byte / zero-padded constants, which depend on the integer-conversion mode) x cl21/cl22/cl23 x optimize on/off, and for 4 search-path lists (incl. a repeated directory) x cl21/cl23; a program given as a file next to a same-named include file resolves it through the search path alone in both (3 search paths x cl21/cl23)")
        }
        "include_files" | "process_include" | "process_pp_form" | "process_embed" => {
            let mut n = 0;
            for k in INCLUDE_KINDS { for m in INCLUDE_MODES {
                let input = json!({"include_file": k, "mode": m});
                if skipped(&input) { continue; }
                n += 1;
                if let Some(v) = chk_include_case(k, m) { return v; }
            } }
            nf(&format!("{} (include-file kind, dialect) cases end in a result or an error: include files that are empty, blank, comment-only, a bare atom, (), two forms, a string, a diamond-shaped graph, missing, a directory, self- and mutually-including; embedded files: sexp without / with two forms, junk and odd-length hex, empty bin, missing (recorded findings skipped)", n))
        }
        "atomic_write" | "atomic_write_file" | "gentle_overwrite" | "compile_clvm" => {
            if let Some(v) = chk_compile_clvm_files() { return v; }
            let rounds = if thorough() { 40 } else { 6 };
            chk_atomic_write(rounds).unwrap_or_else(|| nf(&format!("{} rounds of 8 concurrent writers x 3 writes and 2 polling readers on one output path: every read is a complete payload, every writer succeeds (stress run, bounded)", rounds)))
        }
        "macro_ext" | "try_eval" | "required_arg" => {
            let names = ["string?", "number?", "symbol?", "string->symbol", "symbol->string", "string->number", "number->string", "string-append", "string-length", "substring"];
            let kinds = ["\"hello\"", "3", "sym", "(q 1 2)", "1"];
            let mut n = 0u64;
            for name in names { for count in 0..=4usize { for rot in 0..kinds.len() {
                let args: Vec<&str> = (0..count).map(|i| kinds[(i + rot) % kinds.len()]).collect();
                n += 1;
                if let Some(v) = chk_macro_ext(name, &args) { return v; }
            } } }
            nf(&format!("{} calls of the 10 defmac extension functions with 0..4 arguments of rotating kinds (string, number, symbol, list) end in a result or an error", n))
        }
        "token_mutations" => {
            let progs = ["(mod (X) (include *standard-cl-21*) (defun f (A . B) (c A B)) (f X 1 2))", "(mod ((A . B) C) (include *standard-cl-23*) (defconstant K 3) (let ((q (+ A K))) (list q B C)))",
                "(mod (X) (include *standard-cl-21*) (defmacro dbl (A) (qq (+ (unquote A) (unquote A)))) (dbl X))", "(mod (X) (defun-inline g (A) (* A 2)) (g X))",
                "(mod (X) (include *standard-cl-23*) (defun h (A) (assign (P . Q) A R (+ P 1) (c R Q))) (h X))", "(mod (X) (include *standard-cl-21*) (lambda ((& X) Y) (+ X Y)))"];
            let mut n = 0u64;
            for p in progs {
                let toks = tokens_of(p);
                let join = |t: &Vec<String>| t.join(" ");
                for i in 0..toks.len() {
                    let mut d = toks.clone(); d.remove(i);
                    let mut u = toks.clone(); u.insert(i, toks[i].clone());
                    let mut w = toks.clone(); if i + 1 < toks.len() { w.swap(i, i + 1); }
                    let mut dot = toks.clone(); dot[i] = ".".to_string();
                    let t: Vec<String> = toks[..i].to_vec();
                    for m in [d, u, w, dot, t] { n += 1; if let Some(v) = chk_compile_no_panic(&join(&m)) { return v; } }
                }
            }
            // ill-formed programs that must end in an error, not in a dead process: macros that expand to themselves (finding F46)
            for srcx in ["(mod (X) (include *standard-cl-23*) (defmac M (A) (M A)) (M X))", "(mod (X) (include *strict-cl-21*) (defmac M (A) (N A)) (defmac N (A) (M A)) (M X))", "(mod (X) (include *standard-cl-21*) (defmacro M (A) (qq (M (unquote A)))) (M X))", "(mod (X) (include *standard-cl-21*) (defmacro M (X) (qq (F (unquote X)))) (defun-inline F (X) (M X)) (F X))"] {
                if skipped(&json!({"program": srcx})) { continue; }
                if let Err(e) = compile_in_child(srcx) { if e.starts_with("<killed") { return hit(json!({"program": srcx}), "a result or an error".into(), e, "compile_clvm_text_maybe_opt in a child process"); } }
            }
            // an inline function that calls itself, under the classic compiler (finding F50: it never returns); a few milliseconds' work, so 15 s are ample
            for srcx in ["(mod (X) (defun-inline F (A) (if A (F (- A 1)) 0)) (F X))"] {
                if skipped(&json!({"program": srcx, "limit": 15})) { continue; }
                if let Err(e) = compile_in_child_limit(srcx, 15) { if e.starts_with("<killed") { return hit(json!({"program": srcx, "limit": 15}), "a result or an error".into(), e, "compile_clvm_text_maybe_opt in a child process"); } }
            }
            // valid programs that once sent the compiler into unbounded recursion (F31): compiled in a child process, which must return
            for d in ["*standard-cl-23*", "*standard-cl-24*"] { for b in ["(mod (X) (defun f (A B) (+ A B 1)) (defun g (X) (+ X (f 3 4))) (g X))", "(mod (X) (defun f (A) (* A 2)) (defun h (X) (f 9)) (defun g (X) (+ X (f 3) (h 1))) (g X))"] {
                let srcx = with_dialect(b, d);
                if let Err(e) = compile_in_child(&srcx) { if e.starts_with("<killed") { return hit(json!({"program": srcx}), "a result or an error".into(), e, "compile_clvm_text_maybe_opt in a child process"); } }
            } }
            nf(&format!("{} token-level mutations (delete, duplicate, swap with the next, replace by a dot, truncate) of 6 valid programs compile to a result or an error; 4 programs with constant calls inside helpers compile in a child process", n))
        }
        "no_panic" => {
            match std::env::var("VERIF_NOPANIC_CHILD") {
                Err(_) => { if let Some(v) = no_panic_supervised(seed) { return v; } return nf("no-panic sweep: the supervised child process produced no result"); }
                Ok(path) => { if let Ok(f) = std::fs::OpenOptions::new().write(true).create(true).open(&path) { PROGRESS.with(|p| *p.borrow_mut() = Some((f, 0))); } }
            }
            let alpha: &[u8] = b"().\"'\\#;0xa-\n ";
            let n = alpha.len();
            let mut count = 0u64;
            for len in 0..=(if thorough() { 5usize } else { 4usize }) {
                let total = n.pow(len as u32);
                for k in 0..total {
                    let mut t = Vec::with_capacity(len);
                    let mut kk = k;
                    for _ in 0..len { t.push(alpha[kk % n]); kk /= n; }
                    count += 1;
                    if let Some(v) = chk_no_panic_text(&t) { return v; }
                }
            }
            // token level: all texts of <= 6 tokens over ( ) . space a "s" ;c\n
            let toks: Vec<&[u8]> = vec![b"(", b")", b".", b" ", b"a", b"\"s\"", b";c\n"];
            let maxt = if thorough() { 7 } else { 6 };
            for len in 5..=maxt { for k in 0..toks.len().pow(len as u32) {
                let mut t: Vec<u8> = vec![]; let mut kk = k;
                for _ in 0..len { t.extend_from_slice(toks[kk % toks.len()]); kk /= toks.len(); }
                count += 1;
                if let Some(v) = chk_no_panic_text(&t) { return v; }
            } }
            for a in 0u16..=255 { if let Some(v) = chk_no_panic_bytes(&[a as u8]) { return v; } for b in 0u16..=255 { if let Some(v) = chk_no_panic_bytes(&[a as u8, b as u8]) { return v; } } }
            let mut x = seed.wrapping_mul(6364136223846793005).wrapping_add(1442695040888963407);
            for _ in 0..20000 { x = x.wrapping_mul(6364136223846793005).wrapping_add(1442695040888963407); let d = [(x >> 8) as u8, (x >> 24) as u8, (x >> 40) as u8, (x >> 56) as u8]; if let Some(v) = chk_no_panic_bytes(&d[..3 + (x as usize & 1)]) { return v; } }
            nf(&format!("no panic: parse_sexp and assemble on all {} texts of <= 4 (thorough: 5) symbols over a 14-symbol alphabet (parens dot quotes backslash hash semicolon 0 x a minus newline space) and of 5-6 (thorough: 7) tokens over ( ) . space a \"s\" comment; sexp_from_stream on all 1- and 2-byte strings and 20000 seeded 3-4 byte strings", count))
        }
        "modern_print" | "printable" | "escape_quote" | "make_atom" => {
            for d in disasm_inputs() { if let Some(v) = chk_modern_print(&d) { return v; } }
            // string constants of each quote kind (double quote, single quote, x for printable hex constants) over an alphabet containing the quote characters
            let alpha: &[u8] = b"a'\"x\\ s";
            let mut nq = 0u64;
            for kind in [b'"', b'\'', b'x'] { for len in 0..=4usize { for k in 0..alpha.len().pow(len as u32) {
                let mut t = vec![]; let mut kk = k; for _ in 0..len { t.push(alpha[kk % alpha.len()]); kk /= alpha.len(); }
                nq += 1;
                if let Some(v) = chk_modern_print_quoted(kind, &t) { return v; }
            } } }
            // string constants holding bytes >= 0x80: well-formed UTF-8 of 2, 3 and 4 bytes, ill-formed sequences, Latin-1 (seed C09-f printed UTF-8 as text)
            for kind in [b'"', b'\'', b'x'] { for body in [&[0xc3u8, 0xa9][..], &[0xe2, 0x82, 0xac], &[0xf0, 0x9f, 0x98, 0x80], &[b'c', b'a', b'f', 0xc3, 0xa9], &[0xd0, 0xb0, 0xd0, 0xb1], &[0xe9], &[0xc3], &[0x80], &[0xff, 0xfe], &[b'a', 0xc3, 0xa9, b'"', b'b'], &[0x7f], &[0xc2, 0x80]] {
                nq += 1;
                if let Some(v) = chk_modern_print_quoted(kind, body) { return v; }
            } }
            let progs = [
                "(mod () (include *standard-cl-21*) 0xd0b0d0b1)",
                "(mod (X) (include *standard-cl-23*) (c \"caf\u{e9}\" X))",
                "(mod (X) (include *standard-cl-24*) (list \"hello\" \"it's\" \"say \\\"hi\\\"\" 0x0000ff 0xff 0x00 -1 -129 255 65536 100000000000000000000000000000 X))",
                "(mod (X) (include *standard-cl-24*) (defconstant K 0x00ff) (defun f (A) (c A (q . (1 2 \"three\" 0x04)))) (f (c K X)))",
                "(mod (X) (include *standard-cl-24*) (list (q . foo) (q . (bar baz)) X))",
                "(mod (X) (include *standard-cl-24*) (c (q . \"concat\") X))",
                "(mod () (include *standard-cl-24*) (q . concat))",
                "(mod (X) (include *standard-cl-24*) (list (q . a) (q . sha256) X))",
                "(mod (X) (include *standard-cl-23.1*) (c (q . +) X))",
                // quoted atoms spelled like numbers or beginning with #: printed bare, read back as something else (F29 family)
                "(mod () (include *standard-cl-24*) (q . ##foo))",
                "(mod () (include *standard-cl-24*) (q . #5))",
                "(mod () (include *standard-cl-24*) (q . +5))",
                "(mod () (include *standard-cl-24*) (q . 0X1f))",
                "(mod () (include *standard-cl-24*) (q . 1_000))",
            ];
            for p in progs.iter() { if skipped(&json!({"program": p})) { continue; } if let Some(v) = chk_modern_print_program(p) { return v; } }
            nf(&format!("modern printed text is read back identically by parse_sexp and by the classic assembler on the enumerated values, on {} quoted-string constants (3 quote kinds x strings of <= 4 symbols over a ' \" x \\ space s) and on the compiled text of {} programs with string / hex / negative / large / zero-prefixed literals and quoted symbols (recorded findings skipped)", nq, progs.len()))
        }
        "disassemble" | "ir_for_atom" | "has_oversized_sign_extension" | "consume_quoted" | "pybytes_repr" | "interpret_atom_value" | "assemble" | "unit:irwrite" | "unit:irparse" | "unit:irtrip" | "unit:printer" | "unit:quoted" => {
            for d in disasm_inputs() { if let Some(v) = chk_disasm(&d) { return v; } }
            nf("disassemble/assemble round trip holds for the enumerated atoms (all 1-byte, 2304 2-byte, special 3-byte) alone, as operator and as tail, versions 0..2")
        }
        "recurse_dependencies" | "gather_dependencies" | "read_new_file" | "deps" => {
            for dialect in ["*standard-cl-21*", "*standard-cl-23*"] { for shadow in [false, true] {
                if let Some(v) = deps_case(dialect, shadow) { return v; }
            } }
            if !skipped(&json!({"classic_nested_include": true})) { if let Some(v) = deps_classic_nested() { return v; } }
            nf("dependency listing contains every file read (include, include of a file whose name starts with *, embed-file bin/hex, an include inside a (mod ...) nested in the main expression), no pseudo-file, and respects search-path order, in cl21 and cl23")
        }
        "advance" | "srcloc" | "combine_src_location" | "ext" | "add_onto" | "len" | "ending" | "src_location_max" | "src_location_min" | "from_pair" => {
            for col in 1..70usize { for ch in 0u16..=255 { if let Some(v) = chk_advance(3, col, ch as u8) { return v; } } }
            let locs: Vec<(usize, usize, Option<(usize, usize)>)> = { let mut v = vec![]; for l in 1..3usize { for c in 1..4usize { v.push((l, c, None)); for ul in l..3usize { for uc in 1..5usize { if (ul, uc) > (l, c) { v.push((l, c, Some((ul, uc)))); } } } } } v };
            for a in &locs { for b in &locs { if let Some(v) = chk_combine(*a, *b) { return v; } } }
            nf("Srcloc::advance agrees with advance_pos for cols 1..70 x all bytes; ext agrees with the hull spec on small locations")
        }
        "convert_from_clvm_rs" | "convert_to_clvm_rs" | "convert" | "sha256tree" | "sha256tree_from_atom" | "number_from_u8" | "u8_from_number" => {
            for d in convert_inputs() { if let Some(v) = chk_convert(&d) { return v; } }
            if let Some(v) = chk_sexp_equality() { return v; }
            nf("conversion round trip and the three tree hashes agree on the enumerated values in both integer modes")
        }
        "path_optimizer" | "sub_args" | "path_from_args" | "optimize_sexp" | "path_number_from_u8" | "new" | "add" | "first" | "rest" | "as_path" | "seems_constant" | "unit:brief" | "brief_path_selection_single" | "brief_path_selection" => {
            for p in optimizer_programs() { for e in 0..6u8 {
                if skipped(&json!({"program": p, "env": e})) { continue; }
                if let Some(mut v) = optimizer_vs_consensus(&p, e) { v["input"] = json!({"program": p, "env": e}); return v; }
            } }
            for t in ["(5 -1)", "(6 -128)", "(5 (6 -1))", "(5 (5 -2))", "(6 0)", "(5 255)", "(6 (5 2))", "(5 (6 (6 (5 3))))", "(5 (5 (5 (5 (5 (5 (5 (5 1))))))))", "(6 -32768)"] { for e in 0..3u8 {
                if let Some(v) = brief_vs_consensus(t, e) { return v; }
            } }
            nf("optimize_sexp preserves the value of the enumerated programs (path atoms of 1-4 and 7-9 bytes; (a (q . (c P1 P2)) N) for all P1, P2 in 2..7 and N in {2, 3, 5, 6, 7}) x 6 environments (incl. a full tree of depth 17 and combs of depth 80); brief_path_selection (cl23+) keeps the value of 10 f / r chains over positive, zero and negative numbers x 3 environments")
        }
        "choose_path" | "flatten_signed_int" | "truthy" | "atom_value" | "run_step" | "combine" | "eval_args" | "generate_argument_refs" | "unit:stepper" | "unit:clvmleaves" => {
            // the sweep is spread over worker threads (each program builds its own allocator); the first hit in enumeration order is reported
            let progs = stepper_programs();
            let workers = 12usize;
            let hits: Vec<Option<(usize, Value)>> = std::thread::scope(|sc| {
                let hs: Vec<_> = (0..workers).map(|w| { let progs = &progs; sc.spawn(move || {
                    for (i, p) in progs.iter().enumerate() { if i % workers != w { continue; } for e in 0..5u8 {
                        if skipped(&json!({"program": p, "env": e})) { continue; }
                        if let Some(mut v) = step_vs_consensus(p, e) { v["input"] = json!({"program": p, "env": e}); return Some((i * 5 + e as usize, v)); }
                    } }
                    None
                }) }).collect();
                hs.into_iter().map(|h| h.join().unwrap_or(None)).collect()
            });
            if let Some((_, v)) = hits.into_iter().flatten().min_by_key(|(i, _)| *i) { return v; }
            nf(&format!("stepper agrees with clvmr run_program on the {} enumerated programs x 5 environments", progs.len()))
        }
        "atom_from_stream" | "sexp_from_stream" | "int_from_bytes" | "get_u32" | "read" | "atom_size_blob" | "next" | "write" | "re_allocate" | "sexp_to_stream" | "unit:deser" | "unit:tosexp" | "unit:ser" | "unit:serout" | "unit:serloop" => {
            for d in deser_inputs() { if let Some(v) = chk_deser(&d) { return v; } }
            for hex in ["ff0102", "ffff010203", "ff01ff0203", "ffff0102ff0304", "ff83616263ff8180ff80ff0180", "ff80ff8080"] { if let Some(v) = chk_ser_tree(&hexv(hex)) { return v; } }
            for n in [0usize, 1, 2, 0x3f, 0x40, 0x41, 0x1fff, 0x2000, 0x2001, 0xfffff, 0x100000, 0x100001] { if let Some(v) = chk_ser_len(n) { return v; } }
            if thorough() { for n in [0x7ffffffusize, 0x8000000, 0x8000001] { if let Some(v) = chk_ser_len(n) { return v; } } }
            nf("sexp_from_stream agrees with clvmr node_from_bytes on the enumerated byte strings; sexp_to_stream agrees with node_to_bytes at every length-class boundary up to 1 MiB (thorough: 128 MiB)")
        }
        "compose_paths" => {
            for p in 1..200 { for q in 1..200 {
                if let Some(v) = chk_compose_paths(&p.to_bigint().unwrap(), &q.to_bigint().unwrap()) { return v; }
            } }
            nf("compose_paths agrees with compose for all 1 <= p, q < 200")
        }
        _ => nf("no enumerator for this obligation"),
    }
}

pub fn run_input(name: &str, input: &Value) -> Value {
    match name {
        "deps" if input["classic_nested_include"].as_bool() == Some(true) => deps_classic_nested().unwrap_or_else(|| nf("input does not violate the contract on this tree")),
        "token_mutations" => { let srcx = input["program"].as_str().unwrap_or(""); match compile_in_child_limit(srcx, input["limit"].as_u64().unwrap_or(120)) { Err(e) if e.starts_with("<killed") => hit(json!({"program": srcx}), "a result or an error".into(), e, "compile_clvm_text_maybe_opt in a child process"), _ => nf("input does not violate the contract on this tree") } }
        "determinism" => chk_determinism_one(input["source"].as_str().unwrap_or("")).unwrap_or_else(|| nf("input does not violate the contract on this tree")),
        "classic_meaning" => chk_meaning(input["program"].as_str().unwrap_or(""), None, input["args"].as_str().unwrap_or("()"), input["expected"].as_str().unwrap_or("()")).unwrap_or_else(|| nf("input does not violate the contract on this tree")),
        "source_meaning" => chk_meaning(input["program"].as_str().unwrap_or(""), input["dialect"].as_str(), input["args"].as_str().unwrap_or("()"), input["expected"].as_str().unwrap_or("()")).unwrap_or_else(|| nf("input does not violate the contract on this tree")),
        "opt_levels" if input["generated"].as_bool() == Some(true) => chk_generated_builds(input["program"].as_str().unwrap_or(""), input["args"].as_str().unwrap_or("()")).unwrap_or_else(|| nf("input does not violate the contract on this tree")),
        "opt_levels" => chk_opt_levels(input["program"].as_str().unwrap_or(""), input["args"].as_str().unwrap_or("()")).unwrap_or_else(|| nf("input does not violate the contract on this tree")),
        "modern_print" => (if let Some(p) = input["program"].as_str() { chk_modern_print_program(p) } else { chk_modern_print(&bytes(&input["clvm_bytes"])) }).unwrap_or_else(|| nf("input does not violate the contract on this tree")),
        "disassemble" | "ir_for_atom" | "consume_quoted" | "pybytes_repr" => chk_disasm(&bytes(&input["clvm_bytes"])).unwrap_or_else(|| nf("input does not violate the contract on this tree")),
        "advance" | "srcloc" => chk_advance(input["line"].as_u64().unwrap_or(1) as usize, input["col"].as_u64().unwrap_or(1) as usize, input["ch"].as_u64().unwrap_or(0) as u8).unwrap_or_else(|| nf("input does not violate the contract on this tree")),
        "convert_from_clvm_rs" | "convert_to_clvm_rs" | "convert" | "sha256tree" => chk_convert(&bytes(&input["clvm_bytes"])).unwrap_or_else(|| nf("input does not violate the contract on this tree")),
        "path_optimizer" if input["modern_clvm"].is_string() => brief_vs_consensus(input["modern_clvm"].as_str().unwrap_or(""), input["env"].as_u64().unwrap_or(0) as u8).unwrap_or_else(|| nf("input does not violate the contract on this tree")),
        "path_optimizer" | "sub_args" | "path_from_args" | "optimize_sexp" | "path_number_from_u8" | "new" | "add" | "first" | "rest" | "as_path" | "seems_constant" =>
            optimizer_vs_consensus(&bytes(&input["program"]), input["env"].as_u64().unwrap_or(0) as u8).unwrap_or_else(|| nf("input does not violate the contract on this tree")),
        "choose_path" | "flatten_signed_int" | "truthy" | "atom_value" | "run_step" | "combine" | "eval_args" | "generate_argument_refs" =>
            step_vs_consensus(&bytes(&input["program"]), input["env"].as_u64().unwrap_or(0) as u8).unwrap_or_else(|| nf("input does not violate the contract on this tree")),
        "atom_from_stream" | "sexp_from_stream" | "int_from_bytes" | "get_u32" | "read" => chk_deser(&bytes(&input["bytes"])).unwrap_or_else(|| nf("input does not violate the contract on this tree")),
        "include_files" | "process_include" => chk_include_case(input["include_file"].as_str().unwrap_or(""), input["mode"].as_str().unwrap_or("")).unwrap_or_else(|| nf("input does not violate the contract on this tree")),
        "repl" => { let defs: Vec<String> = input["definitions"].as_array().map(|a| a.iter().filter_map(|x| x.as_str().map(|s| s.to_string())).collect()).unwrap_or_default(); let dr: Vec<&str> = defs.iter().map(|s| s.as_str()).collect(); chk_repl(&dr, input["expression"].as_str().unwrap_or("")).unwrap_or_else(|| nf("input does not violate the contract on this tree")) }
        "cldb" => chk_cldb(&bytes(&input["program"]), input["env"].as_u64().unwrap_or(0) as u8).unwrap_or_else(|| nf("input does not violate the contract on this tree")),
        "compose_paths" => chk_compose_paths(&big(&input["p"]), &big(&input["q"])).unwrap_or_else(|| nf("input does not violate the contract on this tree")),
        "modern_print_program" => chk_modern_print_program(input["program"].as_str().unwrap_or("")).unwrap_or_else(|| nf("input does not violate the contract on this tree")),
        "scoping" => chk_scope(input["ill_scoped"].as_str().unwrap_or(""), "Unbound|Duplicate|recurs|deadlock", input["repaired"].as_str().unwrap_or("()")).unwrap_or_else(|| nf("input does not violate the contract on this tree")),
        _ => nf("no replayer for this obligation"),
    }
}

pub fn confirm(_id: &str) -> Value {
    nf("no such finding")
}
