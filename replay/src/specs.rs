// Executable transcriptions of /verif/spec/*.rs
use num_bigint::BigInt;
use num_traits::{One, Zero, ToPrimitive};

pub fn plen(p: &BigInt) -> u32 {
    let mut n = 0;
    let mut p = p.clone();
    while p > BigInt::one() { p >>= 1; n += 1; }
    n
}
// follow p, then q
pub fn compose(p: &BigInt, q: &BigInt) -> BigInt {
    let k = plen(p);
    let top = BigInt::one() << (k as usize);
    q * &top + (p - &top)
}
pub fn be_unsigned(b: &[u8]) -> BigInt {
    let mut r = BigInt::zero();
    for x in b { r = r * 256 + (*x as u32); }
    r
}
pub fn be_signed(b: &[u8]) -> BigInt {
    if b.is_empty() { return BigInt::zero(); }
    let u = be_unsigned(b);
    if b[0] & 0x80 != 0 { u - (BigInt::one() << (8 * b.len())) } else { u }
}
// minimal two's complement big-endian encoding (CLVM integer atom); 0 -> []
pub fn min_signed_be(v: &BigInt) -> Vec<u8> {
    if v.is_zero() { return vec![]; }
    let mut n = 1usize;
    loop {
        let lo = -(BigInt::one() << (8 * n - 1));
        let hi = (BigInt::one() << (8 * n - 1)) - 1;
        if *v >= lo && *v <= hi { break; }
        n += 1;
    }
    let m = if *v < BigInt::zero() { v + (BigInt::one() << (8 * n)) } else { v.clone() };
    let mut out = vec![0u8; n];
    let mut m = m;
    for i in (0..n).rev() { out[i] = (&m % 256u32).to_u8().unwrap(); m >>= 8; }
    out
}
pub fn min_unsigned_be(v: &BigInt) -> Vec<u8> {
    let mut out = vec![];
    let mut m = v.clone();
    while m > BigInt::zero() { out.insert(0, (&m % 256u32).to_u8().unwrap()); m >>= 8; }
    out
}
