// SPEC: CLVM tree over byte strings and its consensus serialisation
//@ include spec/treedef.rs
// SPEC: consensus serialisation of a tree (clvmr serde::node_to_bytes): 0xff left right for a pair, enc_atom for an atom
pub open spec fn ser(t: Tree) -> Seq<u8>
    decreases t
{
    match t {
        Tree::Atom(a) => enc_atom(a),
        Tree::Pair(l, r) => seq![0xffu8] + ser(*l) + ser(*r),
    }
}

