// SPEC: consensus path lookup (clvmr traverse_path): path 0 is nil; otherwise bits are
// consumed least significant first, 0 = first, 1 = rest, the top 1 bit stops.
pub open spec fn tree_path(p: int, t: Tree) -> Option<Tree>
    decreases p when p >= 0
{
    if p == 0 { Some(tnil()) } else if p == 1 { Some(t) } else {
        match t {
            Tree::Pair(a, b) => if p % 2 == 0 { tree_path(p / 2, *a) } else { tree_path(p / 2, *b) },
            Tree::Atom(_) => None,
        }
    }
}
