// SPEC: CLVM values as trees over byte strings
pub enum Tree {
    Atom(Seq<u8>),
    Pair(Box<Tree>, Box<Tree>),
}
pub open spec fn tnil() -> Tree { Tree::Atom(Seq::<u8>::empty()) }
