// SPEC: CLVM environment paths as mathematical integers.
// A path p >= 1 is read least-significant bit first; 0 = left (first), 1 = right
// (rest); the most significant 1 bit terminates.  Source: clvmr-0.16.2
// src/traverse_path.rs and the comment at the top of node_path.rs.
// plen(p): number of steps in p.   compose(p, q): follow p, then q.
pub open spec fn plen(p: int) -> nat decreases p when p >= 1 { if p <= 1 { 0 } else { 1 + plen(p / 2) } }
pub open spec fn compose(p: int, q: int) -> int { q * (pow2(plen(p)) as int) + (p - (pow2(plen(p)) as int)) }

// top bit position: pow2(plen(p)) <= p < 2*pow2(plen(p))
pub proof fn lemma_plen_bounds(p: int)
    requires p >= 1
    ensures pow2(plen(p)) as int <= p < 2 * (pow2(plen(p)) as int)
    decreases p
{
    lemma2_to64();
    if p <= 1 {
    } else {
        lemma_plen_bounds(p / 2);
        lemma_pow2_unfold(plen(p));
    }
}
