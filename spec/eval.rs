// SPEC: compositional CLVM evaluation over trees.  An atom is an environment path, (q . x) is x, any other
// (op . operands) with an atom operator is some function of the operator and the VALUES of its operands
// (op_apply, uninterpreted: true of every CLVM operator including `a`, whose result depends only on the values
// handed to it; an erroring operand is the value None).  The improper tail of an operand list is kept opaque.
pub uninterp spec fn path_lookup(p: Seq<u8>, env: Tree) -> Option<Tree>;
pub uninterp spec fn op_apply(op: Tree, operands: Seq<Option<Tree>>) -> Option<Tree>;
pub uninterp spec fn list_end(a: Seq<u8>) -> Seq<Option<Tree>>;
// consensus (clvmr traverse_path): the empty atom (path 0) evaluates to nil in every environment
pub broadcast axiom fn axiom_nil_evaluates_to_nil(env: Tree)
    ensures #[trigger] path_lookup(Seq::<u8>::empty(), env) == Some(tnil());
pub open spec fn quote_atom() -> Tree { Tree::Atom(seq![1u8]) }
pub open spec fn eval(e: Tree, env: Tree) -> Option<Tree>
    decreases e, 1int
{
    match e {
        Tree::Atom(a) => path_lookup(a, env),
        Tree::Pair(h, t) => if *h == quote_atom() { Some(*t) } else { op_apply(*h, eval_list(*t, env)) },
    }
}
pub open spec fn eval_list(t: Tree, env: Tree) -> Seq<Option<Tree>>
    decreases t, 0int
{
    match t {
        Tree::Atom(a) => list_end(a),
        Tree::Pair(h, r) => seq![eval(*h, env)] + eval_list(*r, env),
    }
}
// generated code: every operator is an atom (the compiler never emits the ((op) . raw-operands) form, whose
// operands are not evaluated) other than the letter q (0x71 is not a CLVM operator)
pub open spec fn wf_expr(e: Tree) -> bool
    decreases e, 1int
{
    match e {
        Tree::Atom(_) => true,
        Tree::Pair(h, t) => *h is Atom && *h != Tree::Atom(seq![0x71u8]) && (*h == quote_atom() || wf_list(*t)),
    }
}
pub open spec fn wf_list(t: Tree) -> bool
    decreases t, 0int
{
    match t {
        Tree::Atom(_) => true,
        Tree::Pair(h, r) => wf_expr(*h) && wf_list(*r),
    }
}
pub open spec fn same_value(a: Tree, b: Tree) -> bool { forall|env: Tree| #[trigger] eval(a, env) == eval(b, env) }
pub open spec fn same_operands(a: Tree, b: Tree) -> bool { forall|env: Tree| #[trigger] eval_list(a, env) == eval_list(b, env) }

// ---- consensus semantics of the pieces the cl23 path shortening relies on (ASSUMED axioms about the CLVM evaluator; each is
// a fact of clvmr: traverse_path, op_first / op_rest, eager evaluation of every operand, a proper operand list ends in nil)
pub open spec fn sub_first(v: Option<Tree>) -> Option<Tree> { match v { Some(Tree::Pair(a, _)) => Some(*a), _ => None } }
pub open spec fn sub_rest(v: Option<Tree>) -> Option<Tree> { match v { Some(Tree::Pair(_, b)) => Some(*b), _ => None } }
pub broadcast axiom fn axiom_path_lookup(p: Seq<u8>, env: Tree)
    ensures #[trigger] path_lookup(p, env) == tree_path(be_unsigned(p), env);
pub broadcast axiom fn axiom_first_rest(x: Option<Tree>)
    ensures #[trigger] op_apply(Tree::Atom(seq![5u8]), seq![x]) == sub_first(x), #[trigger] op_apply(Tree::Atom(seq![6u8]), seq![x]) == sub_rest(x);
pub broadcast axiom fn axiom_operands_strict(op: Tree, operands: Seq<Option<Tree>>, i: int)
    requires 0 <= i < operands.len(), operands[i] is None
    ensures #[trigger] op_apply(op, operands) is None, #[trigger] operands[i] is None;
pub broadcast axiom fn axiom_proper_list_end()
    ensures #[trigger] list_end(Seq::<u8>::empty()) == Seq::<Option<Tree>>::empty();
// opt computes what orig computes whenever orig returns a value (it may return where orig fails: lazier, never different)
pub open spec fn refines(opt: Tree, orig: Tree) -> bool { forall|env: Tree| (#[trigger] eval(orig, env)) is Some ==> eval(opt, env) == eval(orig, env) }
// apply and if (ASSUMED axioms about the CLVM evaluator: op_apply of `a` runs the program value in the environment value; `i` selects
// by the nil test; both take exactly 2 / 3 operands)
pub open spec fn ops2(a: Option<Tree>, b: Option<Tree>) -> Seq<Option<Tree>> { Seq::<Option<Tree>>::empty().push(a).push(b) }
pub open spec fn ops3(a: Option<Tree>, b: Option<Tree>, c: Option<Tree>) -> Seq<Option<Tree>> { Seq::<Option<Tree>>::empty().push(a).push(b).push(c) }
pub broadcast axiom fn axiom_apply(p: Tree, e: Tree)
    ensures #[trigger] op_apply(Tree::Atom(seq![2u8]), ops2(Some(p), Some(e))) == eval(p, e);
pub broadcast axiom fn axiom_apply_arity(operands: Seq<Option<Tree>>)
    requires operands.len() != 2
    ensures #[trigger] op_apply(Tree::Atom(seq![2u8]), operands) is None;
pub broadcast axiom fn axiom_if(c: Tree, a: Tree, b: Tree)
    ensures #[trigger] op_apply(Tree::Atom(seq![3u8]), ops3(Some(c), Some(a), Some(b))) == Some(if c != tnil() { a } else { b });
pub broadcast axiom fn axiom_if_arity(operands: Seq<Option<Tree>>)
    requires operands.len() != 3
    ensures #[trigger] op_apply(Tree::Atom(seq![3u8]), operands) is None;
// operand lists: the same number of operands, and wherever the original operand has a value the new one has the same
pub open spec fn refines_list(opt: Tree, orig: Tree) -> bool {
    forall|env: Tree| (#[trigger] eval_list(opt, env)).len() == eval_list(orig, env).len()
        && forall|i: int| 0 <= i < eval_list(orig, env).len() && (#[trigger] eval_list(orig, env)[i]) is Some ==> eval_list(opt, env)[i] == eval_list(orig, env)[i]
}
// cons, and the arities of cons / first / rest (ASSUMED axioms about the CLVM evaluator: op_cons, op_first, op_rest take exactly 2 / 1 / 1 operands)
pub open spec fn ops1(a: Option<Tree>) -> Seq<Option<Tree>> { Seq::<Option<Tree>>::empty().push(a) }
pub broadcast axiom fn axiom_cons(a: Tree, b: Tree)
    ensures #[trigger] op_apply(Tree::Atom(seq![4u8]), ops2(Some(a), Some(b))) == Some(Tree::Pair(Box::new(a), Box::new(b)));
pub broadcast axiom fn axiom_cons_arity(operands: Seq<Option<Tree>>)
    requires operands.len() != 2
    ensures #[trigger] op_apply(Tree::Atom(seq![4u8]), operands) is None;
pub broadcast axiom fn axiom_first_arity(operands: Seq<Option<Tree>>)
    requires operands.len() != 1
    ensures #[trigger] op_apply(Tree::Atom(seq![5u8]), operands) is None;
pub broadcast axiom fn axiom_rest_arity(operands: Seq<Option<Tree>>)
    requires operands.len() != 1
    ensures #[trigger] op_apply(Tree::Atom(seq![6u8]), operands) is None;
