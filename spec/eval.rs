// SPEC: compositional CLVM evaluation over trees.  An atom is an environment path, (q . x) is x, any other
// (op . operands) with an atom operator is some function of the operator and the VALUES of its operands
// (op_apply, uninterpreted: true of every CLVM operator including `a`, whose result depends only on the values
// handed to it; an erroring operand is the value None).  The improper tail of an operand list is kept opaque.
pub uninterp spec fn path_lookup(p: Seq<u8>, env: Tree) -> Option<Tree>;
pub uninterp spec fn op_apply(op: Tree, operands: Seq<Option<Tree>>) -> Option<Tree>;
pub uninterp spec fn list_end(a: Seq<u8>) -> Seq<Option<Tree>>;
// consensus (clvmr traverse_path): the empty atom (path 0) evaluates to nil in every environment
pub broadcast axiom fn axiom_nil_evaluates_to_nil(env: Tree)
    ensures #[trigger] path_lookup(Seq::<u8>::empty(), env) == Some(tnil());
pub open spec fn quote_atom() -> Tree { Tree::Atom(seq![1u8]) }
pub open spec fn eval(e: Tree, env: Tree) -> Option<Tree>
    decreases e, 1int
{
    match e {
        Tree::Atom(a) => path_lookup(a, env),
        Tree::Pair(h, t) => if *h == quote_atom() { Some(*t) } else { op_apply(*h, eval_list(*t, env)) },
    }
}
pub open spec fn eval_list(t: Tree, env: Tree) -> Seq<Option<Tree>>
    decreases t, 0int
{
    match t {
        Tree::Atom(a) => list_end(a),
        Tree::Pair(h, r) => seq![eval(*h, env)] + eval_list(*r, env),
    }
}
// generated code: every operator is an atom (the compiler never emits the ((op) . raw-operands) form, whose
// operands are not evaluated) other than the letter q (0x71 is not a CLVM operator)
pub open spec fn wf_expr(e: Tree) -> bool
    decreases e, 1int
{
    match e {
        Tree::Atom(_) => true,
        Tree::Pair(h, t) => *h is Atom && *h != Tree::Atom(seq![0x71u8]) && (*h == quote_atom() || wf_list(*t)),
    }
}
pub open spec fn wf_list(t: Tree) -> bool
    decreases t, 0int
{
    match t {
        Tree::Atom(_) => true,
        Tree::Pair(h, r) => wf_expr(*h) && wf_list(*r),
    }
}
pub open spec fn same_value(a: Tree, b: Tree) -> bool { forall|env: Tree| #[trigger] eval(a, env) == eval(b, env) }
pub open spec fn same_operands(a: Tree, b: Tree) -> bool { forall|env: Tree| #[trigger] eval_list(a, env) == eval_list(b, env) }
