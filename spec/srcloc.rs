// SPEC: source geometry.  A position is (line, col), ordered lexicographically.
// A Srcloc addresses [start, end) with end = (line, col+1) when `until` is None.
pub open spec fn sstart(a: Srcloc) -> (int, int) { (a.line as int, a.col as int) }
pub open spec fn send(a: Srcloc) -> (int, int) {
    match a.until { None => (a.line as int, a.col + 1), Some(u) => (u.line as int, u.col as int) }
}
pub open spec fn plt(a: (int, int), b: (int, int)) -> bool { a.0 < b.0 || (a.0 == b.0 && a.1 < b.1) }
pub open spec fn ple(a: (int, int), b: (int, int)) -> bool { a == b || plt(a, b) }
pub open spec fn pmin(a: (int, int), b: (int, int)) -> (int, int) { if ple(a, b) { a } else { b } }
pub open spec fn pmax(a: (int, int), b: (int, int)) -> (int, int) { if ple(a, b) { b } else { a } }
// loc lies within [lo, hi]
pub open spec fn within(l: Srcloc, lo: (int, int), hi: (int, int)) -> bool { ple(lo, sstart(l)) && ple(send(l), hi) }
// position after consuming byte ch at position p (tab stops every 8 columns)
pub open spec fn advance_pos(p: (int, int), ch: u8) -> (int, int) {
    if ch == 10 { (p.0 + 1, 1) } else if ch == 9 { (p.0, ((p.1 + 8) / 8) * 8) } else { (p.0, p.1 + 1) }
}
