// SPEC: CLVM values as trees, and the CLVM value denoted by a rich SExp.
// tree_of follows convert_to_clvm_rs (the definition of an SExp's CLVM value):
// in the current ("new") integer mode Integer(0) is the empty atom, in legacy
// mode it is the atom [0]; other integers are their minimal two's-complement
// encoding (signed_bytes).
pub enum Tree {
    Atom(Seq<u8>),
    Pair(Box<Tree>, Box<Tree>),
}
pub open spec fn tnil() -> Tree { Tree::Atom(Seq::<u8>::empty()) }

pub uninterp spec fn int_mode() -> bool;   // NewStyleIntConversion::setting() during this call

pub open spec fn tree_of(mode: bool, s: SExp) -> Tree
    decreases s
{
    match s {
        SExp::Nil(_) => tnil(),
        SExp::Cons(_, a, b) => Tree::Pair(Box::new(tree_of(mode, *a)), Box::new(tree_of(mode, *b))),
        SExp::Integer(_, i) => if mode && bi(i) == 0 { tnil() } else { Tree::Atom(u8n(bi(i))) },
        SExp::QuotedString(_, _, v) => Tree::Atom(v@),
        SExp::Atom(_, v) => Tree::Atom(v@),
    }
}

// consensus path lookup (clvmr traverse_path): path 0 is nil; otherwise bits are
// consumed least significant first, 0 = first, 1 = rest, the top 1 bit stops.
pub open spec fn tree_path(p: int, t: Tree) -> Option<Tree>
    decreases p when p >= 0
{
    if p == 0 { Some(tnil()) } else if p == 1 { Some(t) } else {
        match t {
            Tree::Pair(a, b) => if p % 2 == 0 { tree_path(p / 2, *a) } else { tree_path(p / 2, *b) },
            Tree::Atom(_) => None,
        }
    }
}
