// SPEC: CLVM values as trees, and the CLVM value denoted by a rich SExp.
// tree_of follows convert_to_clvm_rs (the definition of an SExp's CLVM value):
// in the current ("new") integer mode Integer(0) is the empty atom, in legacy
// mode it is the atom [0]; other integers are their minimal two's-complement
// encoding (signed_bytes).
//@ include spec/treedef.rs

pub uninterp spec fn int_mode() -> bool;   // NewStyleIntConversion::setting() during this call

pub open spec fn tree_of(mode: bool, s: SExp) -> Tree
    decreases s
{
    match s {
        SExp::Nil(_) => tnil(),
        SExp::Cons(_, a, b) => Tree::Pair(Box::new(tree_of(mode, *a)), Box::new(tree_of(mode, *b))),
        SExp::Integer(_, i) => if mode && bi(i) == 0 { tnil() } else { Tree::Atom(u8n(bi(i))) },
        SExp::QuotedString(_, _, v) => Tree::Atom(v@),
        SExp::Atom(_, v) => Tree::Atom(v@),
    }
}

//@ include spec/treepath.rs
