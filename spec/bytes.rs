// SPEC: big-endian integers over byte sequences (CLVM atoms).
// be_unsigned: plain big-endian value.  be_signed: two's complement.
// Source: clvmr number_from_u8 / the format comment in serialize.rs.
pub open spec fn be_unsigned(s: Seq<u8>) -> int
    decreases s.len()
{
    if s.len() == 0 { 0 } else { be_unsigned(s.drop_last()) * 256 + s.last() as int }
}

pub open spec fn be_signed(s: Seq<u8>) -> int {
    if s.len() == 0 { 0 } else if s[0] >= 0x80 { be_unsigned(s) - pow2((8 * s.len()) as nat) as int } else { be_unsigned(s) }
}

pub proof fn lemma_be_bounds(s: Seq<u8>)
    ensures 0 <= be_unsigned(s) < pow2((8 * s.len()) as nat) as int
    decreases s.len()
{
    lemma2_to64();
    if s.len() == 0 {
    } else {
        lemma_be_bounds(s.drop_last());
        let n = (8 * (s.len() - 1)) as nat;
        lemma_pow2_adds(n, 8);
        assert(pow2(8) == 256);
        assert(n + 8 == (8 * s.len()) as nat);
        assert(be_unsigned(s.drop_last()) * 256 + 255 < (pow2(n) as int) * 256) by(nonlinear_arith)
            requires be_unsigned(s.drop_last()) < pow2(n) as int;
    }
}

// be_unsigned(a ++ b) == be_unsigned(a) * 256^|b| + be_unsigned(b)
pub proof fn lemma_be_concat(a: Seq<u8>, b: Seq<u8>)
    ensures be_unsigned(a + b) == be_unsigned(a) * (pow2((8 * b.len()) as nat) as int) + be_unsigned(b)
    decreases b.len()
{
    lemma2_to64();
    if b.len() == 0 {
        assert(a + b =~= a);
        assert(pow2(0) == 1);
        assert(be_unsigned(b) == 0);
        assert(be_unsigned(a + b) == be_unsigned(a));
        assert(be_unsigned(a) * 1 == be_unsigned(a));
    } else {
        lemma_be_concat(a, b.drop_last());
        assert((a + b).drop_last() =~= a + b.drop_last());
        assert((a + b).last() == b.last());
        let n = (8 * (b.len() - 1)) as nat;
        lemma_pow2_adds(n, 8);
        assert(n + 8 == (8 * b.len()) as nat);
        assert(pow2(8) == 256);
        let x = be_unsigned(a);
        let p = pow2(n) as int;
        let y = be_unsigned(b.drop_last());
        let l = b.last() as int;
        assert(pow2((8 * b.len()) as nat) as int == p * 256);
        assert(be_unsigned(b) == y * 256 + l);
        assert(be_unsigned(a + b) == be_unsigned(a + b.drop_last()) * 256 + l);
        assert(be_unsigned(a + b.drop_last()) == x * p + y);
        assert((x * p + y) * 256 + l == x * (p * 256) + (y * 256 + l)) by(nonlinear_arith);
        let pp = pow2((8 * b.len()) as nat) as int;
        assert(pp == p * 256);
        assert(x * pp == x * (p * 256));
    }
}

pub proof fn lemma_be_single(x: u8)
    ensures be_unsigned(seq![x]) == x as int
{
    assert(seq![x].drop_last() =~= Seq::<u8>::empty());
    reveal_with_fuel(be_unsigned, 2);
}

pub proof fn lemma_be_four(s: Seq<u8>)
    requires s.len() == 4
    ensures be_unsigned(s) == (s[0] as int) * 16777216 + (s[1] as int) * 65536 + (s[2] as int) * 256 + s[3] as int
{
    let s3 = s.drop_last();
    let s2 = s3.drop_last();
    let s1 = s2.drop_last();
    assert(s1.drop_last().len() == 0);
    assert(be_unsigned(s1.drop_last()) == 0);
    assert(s1.last() == s[0] && s2.last() == s[1] && s3.last() == s[2]);
    assert(be_unsigned(s1) == s[0] as int);
    assert(be_unsigned(s2) == be_unsigned(s1) * 256 + s[1] as int);
    assert(be_unsigned(s3) == be_unsigned(s2) * 256 + s[2] as int);
}

// canonical CLVM integer atom: minimal two's complement, zero is the empty atom
pub open spec fn is_min_signed(s: Seq<u8>) -> bool {
    s.len() == 0
    || (!(s[0] == 0 && (s.len() == 1 || s[1] < 0x80))
        && !(s[0] == 0xff && s.len() > 1 && s[1] >= 0x80))
}
// minimal unsigned big-endian: no leading zero byte
pub open spec fn is_min_unsigned(s: Seq<u8>) -> bool { s.len() == 0 || s[0] != 0 }

// canonical encoding of an integer: exists and is unique (two's complement fact, assumed)
pub uninterp spec fn signed_bytes(i: int) -> Seq<u8>;
pub broadcast axiom fn axiom_signed_bytes(i: int)
    ensures is_min_signed(#[trigger] signed_bytes(i)), be_signed(signed_bytes(i)) == i;
pub broadcast axiom fn axiom_signed_unique(s: Seq<u8>)
    requires is_min_signed(s)
    ensures #[trigger] signed_bytes(be_signed(s)) == s;
// what BigInt::to_signed_bytes_be returns
pub open spec fn u8n(i: int) -> Seq<u8> { if i == 0 { seq![0u8] } else { signed_bytes(i) } }

