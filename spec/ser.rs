// SPEC: CLVM serialisation length prefix.  Transcribed from clvmr-0.16.2
// src/serde/write_atom.rs (encoder) and src/serde/parse_atom.rs (decoder).
//
// encoder: atom of length n that is not the empty atom and not a single byte
// <= 0x7f is preceded by prefix(n):
pub open spec fn size_prefix(n: u64) -> Seq<u8> {
    if n < 0x40 { seq![(0x80u64 | n) as u8] }
    else if n < 0x2000 { seq![(0xC0u64 | (n >> 8)) as u8, (n & 0xff) as u8] }
    else if n < 0x100000 { seq![(0xE0u64 | (n >> 16)) as u8, ((n >> 8) & 0xff) as u8, (n & 0xff) as u8] }
    else if n < 0x8000000 { seq![(0xF0u64 | (n >> 24)) as u8, ((n >> 16) & 0xff) as u8, ((n >> 8) & 0xff) as u8, (n & 0xff) as u8] }
    else { seq![(0xF8u64 | (n >> 32)) as u8, ((n >> 24) & 0xff) as u8, ((n >> 16) & 0xff) as u8, ((n >> 8) & 0xff) as u8, (n & 0xff) as u8] }
}
pub open spec fn size_prefix_len(n: u64) -> int {
    if n < 0x40 { 1 } else if n < 0x2000 { 2 } else if n < 0x100000 { 3 } else if n < 0x8000000 { 4 } else { 5 }
}
// decoder: number of leading one bits of the first byte = number of prefix bytes
pub open spec fn lead_ones(b: u8) -> int {
    if b < 0x80 { 0 } else if b < 0xc0 { 1 } else if b < 0xe0 { 2 } else if b < 0xf0 { 3 }
    else if b < 0xf8 { 4 } else if b < 0xfc { 5 } else if b < 0xfe { 6 } else if b < 0xff { 7 } else { 8 }
}
pub open spec fn low_mask(k: int) -> u8 {
    if k <= 0 { 0xff } else if k == 1 { 0x7f } else if k == 2 { 0x3f } else if k == 3 { 0x1f }
    else if k == 4 { 0x0f } else if k == 5 { 0x07 } else if k == 6 { 0x03 } else if k == 7 { 0x01 } else { 0 }
}
pub open spec fn top_bit(k: int) -> u8 {
    if k <= 0 { 0x80 } else if k == 1 { 0x40 } else if k == 2 { 0x20 } else if k == 3 { 0x10 }
    else if k == 4 { 0x08 } else if k == 5 { 0x04 } else if k == 6 { 0x02 } else if k == 7 { 0x01 } else { 0 }
}
// what the consensus decoder does with first byte b (>= 0x80, != 0xff handled by caller)
// and the remaining stream `rest`: None = error, Some((atom, consumed bytes of rest))
pub open spec fn dec_atom(b: u8, rest: Seq<u8>) -> Option<(Seq<u8>, int)> {
    if b == 0x80 { Some((Seq::<u8>::empty(), 0)) }
    else if b <= 0x7f { Some((seq![b], 0)) }
    else {
        let k = lead_ones(b);
        if k > 6 || rest.len() < k - 1 { None } else {
            let size = be_unsigned(seq![b & low_mask(k)] + rest.subrange(0, k - 1));
            if size >= 0x400000000 || rest.len() < k - 1 + size { None }
            else { Some((rest.subrange(k - 1, k - 1 + size), k - 1 + size)) }
        }
    }
}

// one step of the leading-ones loop
pub proof fn lemma_lead_step(b0: u8, b: u8, m: u8, k: u8)
    requires k <= 8, m == top_bit(k as int), b == b0 & low_mask(k as int), k <= lead_ones(b0)
    ensures
        (b & m) != 0 ==> (k < 8 && k + 1 <= lead_ones(b0) && (m >> 1) == top_bit(k + 1) && (b ^ m) == b0 & low_mask(k + 1)),
        (b & m) == 0 ==> k == lead_ones(b0),
{
    if k == 0 { assert((b0 & 0xff) & 0x80 != 0 ==> b0 >= 0x80 && (0x80u8 >> 1) == 0x40 && ((b0 & 0xff) ^ 0x80) == b0 & 0x7f) by(bit_vector);
                assert((b0 & 0xff) & 0x80 == 0 ==> b0 < 0x80) by(bit_vector); }
    else if k == 1 { assert(b0 >= 0x80 && (b0 & 0x7f) & 0x40 != 0 ==> b0 >= 0xc0 && (0x40u8 >> 1) == 0x20 && ((b0 & 0x7f) ^ 0x40) == b0 & 0x3f) by(bit_vector);
                assert(b0 >= 0x80 && (b0 & 0x7f) & 0x40 == 0 ==> b0 < 0xc0) by(bit_vector); }
    else if k == 2 { assert(b0 >= 0xc0 && (b0 & 0x3f) & 0x20 != 0 ==> b0 >= 0xe0 && (0x20u8 >> 1) == 0x10 && ((b0 & 0x3f) ^ 0x20) == b0 & 0x1f) by(bit_vector);
                assert(b0 >= 0xc0 && (b0 & 0x3f) & 0x20 == 0 ==> b0 < 0xe0) by(bit_vector); }
    else if k == 3 { assert(b0 >= 0xe0 && (b0 & 0x1f) & 0x10 != 0 ==> b0 >= 0xf0 && (0x10u8 >> 1) == 0x08 && ((b0 & 0x1f) ^ 0x10) == b0 & 0x0f) by(bit_vector);
                assert(b0 >= 0xe0 && (b0 & 0x1f) & 0x10 == 0 ==> b0 < 0xf0) by(bit_vector); }
    else if k == 4 { assert(b0 >= 0xf0 && (b0 & 0x0f) & 0x08 != 0 ==> b0 >= 0xf8 && (0x08u8 >> 1) == 0x04 && ((b0 & 0x0f) ^ 0x08) == b0 & 0x07) by(bit_vector);
                assert(b0 >= 0xf0 && (b0 & 0x0f) & 0x08 == 0 ==> b0 < 0xf8) by(bit_vector); }
    else if k == 5 { assert(b0 >= 0xf8 && (b0 & 0x07) & 0x04 != 0 ==> b0 >= 0xfc && (0x04u8 >> 1) == 0x02 && ((b0 & 0x07) ^ 0x04) == b0 & 0x03) by(bit_vector);
                assert(b0 >= 0xf8 && (b0 & 0x07) & 0x04 == 0 ==> b0 < 0xfc) by(bit_vector); }
    else if k == 6 { assert(b0 >= 0xfc && (b0 & 0x03) & 0x02 != 0 ==> b0 >= 0xfe && (0x02u8 >> 1) == 0x01 && ((b0 & 0x03) ^ 0x02) == b0 & 0x01) by(bit_vector);
                assert(b0 >= 0xfc && (b0 & 0x03) & 0x02 == 0 ==> b0 < 0xfe) by(bit_vector); }
    else if k == 7 { assert(b0 >= 0xfe && (b0 & 0x01) & 0x01 != 0 ==> b0 >= 0xff && (0x01u8 >> 1) == 0x00 && ((b0 & 0x01) ^ 0x01) == b0 & 0x00) by(bit_vector);
                assert(b0 >= 0xfe && (b0 & 0x01) & 0x01 == 0 ==> b0 < 0xff) by(bit_vector); }
    else { assert((b0 & 0) & 0 == 0) by(bit_vector); }
}
