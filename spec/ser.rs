// SPEC: CLVM serialisation length prefix.  Transcribed from clvmr-0.16.2
// src/serde/write_atom.rs (encoder) and src/serde/parse_atom.rs (decoder).
//
// encoder: atom of length n that is not the empty atom and not a single byte
// <= 0x7f is preceded by prefix(n):
pub open spec fn size_prefix(n: u64) -> Seq<u8> {
    if n < 0x40 { seq![(0x80u64 | n) as u8] }
    else if n < 0x2000 { seq![(0xC0u64 | (n >> 8)) as u8, (n & 0xff) as u8] }
    else if n < 0x100000 { seq![(0xE0u64 | (n >> 16)) as u8, ((n >> 8) & 0xff) as u8, (n & 0xff) as u8] }
    else if n < 0x8000000 { seq![(0xF0u64 | (n >> 24)) as u8, ((n >> 16) & 0xff) as u8, ((n >> 8) & 0xff) as u8, (n & 0xff) as u8] }
    else { seq![(0xF8u64 | (n >> 32)) as u8, ((n >> 24) & 0xff) as u8, ((n >> 16) & 0xff) as u8, ((n >> 8) & 0xff) as u8, (n & 0xff) as u8] }
}
pub open spec fn size_prefix_len(n: u64) -> int {
    if n < 0x40 { 1 } else if n < 0x2000 { 2 } else if n < 0x100000 { 3 } else if n < 0x8000000 { 4 } else { 5 }
}
// decoder: number of leading one bits of the first byte = number of prefix bytes
pub open spec fn lead_ones(b: u8) -> int {
    if b < 0x80 { 0 } else if b < 0xc0 { 1 } else if b < 0xe0 { 2 } else if b < 0xf0 { 3 }
    else if b < 0xf8 { 4 } else if b < 0xfc { 5 } else if b < 0xfe { 6 } else if b < 0xff { 7 } else { 8 }
}
pub open spec fn low_mask(k: int) -> u8 {
    if k <= 0 { 0xff } else if k == 1 { 0x7f } else if k == 2 { 0x3f } else if k == 3 { 0x1f }
    else if k == 4 { 0x0f } else if k == 5 { 0x07 } else if k == 6 { 0x03 } else if k == 7 { 0x01 } else { 0 }
}
pub open spec fn top_bit(k: int) -> u8 {
    if k <= 0 { 0x80 } else if k == 1 { 0x40 } else if k == 2 { 0x20 } else if k == 3 { 0x10 }
    else if k == 4 { 0x08 } else if k == 5 { 0x04 } else if k == 6 { 0x02 } else if k == 7 { 0x01 } else { 0 }
}
// what the consensus decoder does with first byte b (>= 0x80, != 0xff handled by caller)
// and the remaining stream `rest`: None = error, Some((atom, consumed bytes of rest))
pub open spec fn dec_atom(b: u8, rest: Seq<u8>) -> Option<(Seq<u8>, int)> {
    if b == 0x80 { Some((Seq::<u8>::empty(), 0)) }
    else if b <= 0x7f { Some((seq![b], 0)) }
    else {
        let k = lead_ones(b);
        if k > 6 || rest.len() < k - 1 { None } else {
            let size = be_unsigned(seq![b & low_mask(k)] + rest.subrange(0, k - 1));
            if size >= 0x400000000 || rest.len() < k - 1 + size { None }
            else { Some((rest.subrange(k - 1, k - 1 + size), k - 1 + size)) }
        }
    }
}

// one step of the leading-ones loop
pub proof fn lemma_lead_step(b0: u8, b: u8, m: u8, k: u8)
    requires k <= 8, m == top_bit(k as int), b == b0 & low_mask(k as int), k <= lead_ones(b0)
    ensures
        (b & m) != 0 ==> (k < 8 && k + 1 <= lead_ones(b0) && (m >> 1) == top_bit(k + 1) && (b ^ m) == b0 & low_mask(k + 1)),
        (b & m) == 0 ==> k == lead_ones(b0),
{
    if k == 0 { assert((b0 & 0xff) & 0x80 != 0 ==> b0 >= 0x80 && (0x80u8 >> 1) == 0x40 && ((b0 & 0xff) ^ 0x80) == b0 & 0x7f) by(bit_vector);
                assert((b0 & 0xff) & 0x80 == 0 ==> b0 < 0x80) by(bit_vector); }
    else if k == 1 { assert(b0 >= 0x80 && (b0 & 0x7f) & 0x40 != 0 ==> b0 >= 0xc0 && (0x40u8 >> 1) == 0x20 && ((b0 & 0x7f) ^ 0x40) == b0 & 0x3f) by(bit_vector);
                assert(b0 >= 0x80 && (b0 & 0x7f) & 0x40 == 0 ==> b0 < 0xc0) by(bit_vector); }
    else if k == 2 { assert(b0 >= 0xc0 && (b0 & 0x3f) & 0x20 != 0 ==> b0 >= 0xe0 && (0x20u8 >> 1) == 0x10 && ((b0 & 0x3f) ^ 0x20) == b0 & 0x1f) by(bit_vector);
                assert(b0 >= 0xc0 && (b0 & 0x3f) & 0x20 == 0 ==> b0 < 0xe0) by(bit_vector); }
    else if k == 3 { assert(b0 >= 0xe0 && (b0 & 0x1f) & 0x10 != 0 ==> b0 >= 0xf0 && (0x10u8 >> 1) == 0x08 && ((b0 & 0x1f) ^ 0x10) == b0 & 0x0f) by(bit_vector);
                assert(b0 >= 0xe0 && (b0 & 0x1f) & 0x10 == 0 ==> b0 < 0xf0) by(bit_vector); }
    else if k == 4 { assert(b0 >= 0xf0 && (b0 & 0x0f) & 0x08 != 0 ==> b0 >= 0xf8 && (0x08u8 >> 1) == 0x04 && ((b0 & 0x0f) ^ 0x08) == b0 & 0x07) by(bit_vector);
                assert(b0 >= 0xf0 && (b0 & 0x0f) & 0x08 == 0 ==> b0 < 0xf8) by(bit_vector); }
    else if k == 5 { assert(b0 >= 0xf8 && (b0 & 0x07) & 0x04 != 0 ==> b0 >= 0xfc && (0x04u8 >> 1) == 0x02 && ((b0 & 0x07) ^ 0x04) == b0 & 0x03) by(bit_vector);
                assert(b0 >= 0xf8 && (b0 & 0x07) & 0x04 == 0 ==> b0 < 0xfc) by(bit_vector); }
    else if k == 6 { assert(b0 >= 0xfc && (b0 & 0x03) & 0x02 != 0 ==> b0 >= 0xfe && (0x02u8 >> 1) == 0x01 && ((b0 & 0x03) ^ 0x02) == b0 & 0x01) by(bit_vector);
                assert(b0 >= 0xfc && (b0 & 0x03) & 0x02 == 0 ==> b0 < 0xfe) by(bit_vector); }
    else if k == 7 { assert(b0 >= 0xfe && (b0 & 0x01) & 0x01 != 0 ==> b0 >= 0xff && (0x01u8 >> 1) == 0x00 && ((b0 & 0x01) ^ 0x01) == b0 & 0x00) by(bit_vector);
                assert(b0 >= 0xfe && (b0 & 0x01) & 0x01 == 0 ==> b0 < 0xff) by(bit_vector); }
    else { assert((b0 & 0) & 0 == 0) by(bit_vector); }
}

// ---- round trip at the level of the two contracts: what atom_size_blob (+ the atom bytes)
// writes, the consensus decoder dec_atom (= atom_from_stream's postcondition) reads back
pub open spec fn enc_atom(a: Seq<u8>) -> Seq<u8> {
    if a.len() == 0 { seq![0x80u8] }
    else if a.len() == 1 && a[0] <= 0x7f { a }
    else { size_prefix(a.len() as u64) + a }
}

pub proof fn lemma_be_push(s: Seq<u8>, x: u8)
    ensures be_unsigned(s.push(x)) == be_unsigned(s) * 256 + x as int
{
    assert(s.push(x).drop_last() =~= s);
    assert(s.push(x).last() == x);
}

// the prefix written for length n decodes to n, with exactly size_prefix_len(n) leading one bits
pub proof fn lemma_prefix_decodes(n: u64)
    requires 1 <= n < 0x400000000
    ensures
        size_prefix(n).len() == size_prefix_len(n),
        lead_ones(size_prefix(n)[0]) == size_prefix_len(n),
        size_prefix(n)[0] > 0x80 || (size_prefix(n)[0] == 0x80 && false),
        be_unsigned(seq![size_prefix(n)[0] & low_mask(size_prefix_len(n))] + size_prefix(n).subrange(1, size_prefix_len(n))) == n as int,
{
    let p = size_prefix(n);
    let k = size_prefix_len(n);
    let b0 = p[0];
    if n < 0x40 {
        assert(((0x80u64 | n) as u8) > 0x80 && ((0x80u64 | n) as u8) < 0xc0 && (((0x80u64 | n) as u8) & 0x7f) as u64 == n) by(bit_vector) requires 1 <= n < 0x40;
        assert(p.subrange(1, 1) =~= Seq::<u8>::empty());
        assert(seq![b0 & 0x7f] + p.subrange(1, 1) =~= seq![b0 & 0x7f]);
        lemma_be_single(b0 & 0x7f);
    } else if n < 0x2000 {
        assert(((0xC0u64 | (n >> 8)) as u8) >= 0xc0 && ((0xC0u64 | (n >> 8)) as u8) < 0xe0
            && ((((0xC0u64 | (n >> 8)) as u8) & 0x3f) as u64) * 256 + (((n & 0xff) as u8) as u64) == n) by(bit_vector) requires 0x40 <= n < 0x2000;
        let s = seq![b0 & 0x3f];
        assert(seq![b0 & 0x3f] + p.subrange(1, 2) =~= s.push(p[1]));
        lemma_be_single(b0 & 0x3f);
        lemma_be_push(s, p[1]);
    } else if n < 0x100000 {
        assert(((0xE0u64 | (n >> 16)) as u8) >= 0xe0 && ((0xE0u64 | (n >> 16)) as u8) < 0xf0
            && (((((0xE0u64 | (n >> 16)) as u8) & 0x1f) as u64) * 256 + ((((n >> 8) & 0xff) as u8) as u64)) * 256 + (((n & 0xff) as u8) as u64) == n) by(bit_vector) requires 0x2000 <= n < 0x100000;
        let s1 = seq![b0 & 0x1f];
        let s2 = s1.push(p[1]);
        assert(seq![b0 & 0x1f] + p.subrange(1, 3) =~= s2.push(p[2]));
        lemma_be_single(b0 & 0x1f);
        lemma_be_push(s1, p[1]);
        lemma_be_push(s2, p[2]);
    } else if n < 0x8000000 {
        assert(((0xF0u64 | (n >> 24)) as u8) >= 0xf0 && ((0xF0u64 | (n >> 24)) as u8) < 0xf8
            && ((((((0xF0u64 | (n >> 24)) as u8) & 0x0f) as u64) * 256 + ((((n >> 16) & 0xff) as u8) as u64)) * 256 + ((((n >> 8) & 0xff) as u8) as u64)) * 256 + (((n & 0xff) as u8) as u64) == n) by(bit_vector) requires 0x100000 <= n < 0x8000000;
        let s1 = seq![b0 & 0x0f];
        let s2 = s1.push(p[1]);
        let s3 = s2.push(p[2]);
        assert(seq![b0 & 0x0f] + p.subrange(1, 4) =~= s3.push(p[3]));
        lemma_be_single(b0 & 0x0f);
        lemma_be_push(s1, p[1]);
        lemma_be_push(s2, p[2]);
        lemma_be_push(s3, p[3]);
    } else {
        assert(((0xF8u64 | (n >> 32)) as u8) >= 0xf8 && ((0xF8u64 | (n >> 32)) as u8) < 0xfc
            && (((((((0xF8u64 | (n >> 32)) as u8) & 0x07) as u64) * 256 + ((((n >> 24) & 0xff) as u8) as u64)) * 256 + ((((n >> 16) & 0xff) as u8) as u64)) * 256 + ((((n >> 8) & 0xff) as u8) as u64)) * 256 + (((n & 0xff) as u8) as u64) == n) by(bit_vector) requires 0x8000000 <= n < 0x400000000;
        let s1 = seq![b0 & 0x07];
        let s2 = s1.push(p[1]);
        let s3 = s2.push(p[2]);
        let s4 = s3.push(p[3]);
        assert(seq![b0 & 0x07] + p.subrange(1, 5) =~= s4.push(p[4]));
        lemma_be_single(b0 & 0x07);
        lemma_be_push(s1, p[1]);
        lemma_be_push(s2, p[2]);
        lemma_be_push(s3, p[3]);
        lemma_be_push(s4, p[4]);
    }
}

// C08 (lossless, atoms of every length class): decoding what was encoded returns the atom and
// consumes exactly the encoding, whatever follows it in the stream
pub proof fn lemma_dec_enc_atom(a: Seq<u8>, tail: Seq<u8>)
    requires a.len() < 0x400000000
    ensures ({
        let e = enc_atom(a) + tail;
        dec_atom(e[0], e.subrange(1, e.len() as int)) == Some((a, enc_atom(a).len() - 1))
    })
{
    let e = enc_atom(a) + tail;
    let rest = e.subrange(1, e.len() as int);
    if a.len() == 0 {
        assert(a =~= Seq::<u8>::empty());
    } else if a.len() == 1 && a[0] <= 0x7f {
        assert(a =~= seq![a[0]]);
    } else {
        let n = a.len() as u64;
        let p = size_prefix(n);
        let k = size_prefix_len(n);
        lemma_prefix_decodes(n);
        assert(e[0] == p[0]);
        assert(rest.subrange(0, k - 1) =~= p.subrange(1, k));
        assert(rest.subrange(k - 1, k - 1 + n) =~= a);
    }
}
