// SPEC: state of the serialiser work stack (needs Tree, ser, Allocator, SExpToByteOp, SExpToBytesIterator in scope)
// what the iterator still has to emit: the work stack is consumed from its end
pub open spec fn op_bytes(a: Allocator, op: SExpToByteOp) -> Seq<u8> {
    match op {
        SExpToByteOp::Blob(b) => b@,
        SExpToByteOp::Object(n) => ser(node_tree(a, n)->Some_0),
    }
}
pub open spec fn op_wf(a: Allocator, op: SExpToByteOp) -> bool {
    match op { SExpToByteOp::Blob(_) => true, SExpToByteOp::Object(n) => node_tree(a, n) is Some }
}
pub open spec fn pending(a: Allocator, st: Seq<SExpToByteOp>) -> Seq<u8>
    decreases st.len()
{
    if st.len() == 0 { Seq::<u8>::empty() } else { op_bytes(a, st.last()) + pending(a, st.drop_last()) }
}
pub open spec fn stack_wf(a: Allocator, st: Seq<SExpToByteOp>) -> bool { forall|i: int| 0 <= i < st.len() ==> op_wf(a, #[trigger] st[i]) }
pub open spec fn atoms_fit(t: Tree) -> bool
    decreases t
{
    match t { Tree::Atom(x) => x.len() < 0x400000000, Tree::Pair(l, r) => atoms_fit(*l) && atoms_fit(*r) }
}
pub closed spec fn it_alloc(it: SExpToBytesIterator) -> Allocator { *it.allocator }
pub closed spec fn it_stack(it: SExpToBytesIterator) -> Seq<SExpToByteOp> { it.state@ }

// termination measure of the serialiser: every step strictly lowers the weight of the work stack
pub open spec fn tree_weight(t: Tree) -> nat
    decreases t
{
    match t { Tree::Atom(_) => 2, Tree::Pair(l, r) => 1 + tree_weight(*l) + tree_weight(*r) }
}
pub open spec fn op_weight(a: Allocator, op: SExpToByteOp) -> nat {
    match op { SExpToByteOp::Blob(_) => 1, SExpToByteOp::Object(n) => tree_weight(node_tree(a, n)->Some_0) }
}
pub open spec fn stack_weight(a: Allocator, st: Seq<SExpToByteOp>) -> nat
    decreases st.len()
{
    if st.len() == 0 { 0 } else { op_weight(a, st.last()) + stack_weight(a, st.drop_last()) }
}
// every atom still to be emitted is below the 2^34-byte limit of the length prefix
pub open spec fn op_fits(a: Allocator, op: SExpToByteOp) -> bool {
    match op { SExpToByteOp::Blob(_) => true, SExpToByteOp::Object(n) => atoms_fit(node_tree(a, n)->Some_0) }
}
pub open spec fn stack_fits(a: Allocator, st: Seq<SExpToByteOp>) -> bool { forall|i: int| 0 <= i < st.len() ==> op_fits(a, #[trigger] st[i]) }
