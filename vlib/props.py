"""Which units / harnesses decide which property.  The wording of `decided` and
`not_covered` is copied into the evidence of every run and into MANIFEST.json."""

PARTIAL = 'The property as a whole is NOT proved; the obligations cover only the functions listed.'

PROPS = {
    'C02': {
        'units': ['paths'],
        'decided': 'path composition used by the cl23 optimiser and NodePath (compose_paths) equals "follow p then q" for all paths >= 1',
        'not_covered': ['CSE', 'de-inlining', 'constant folding', 'fe_opt', 'brief_path_selection_single call-site precondition', 'whole-pipeline equality of builds'],
    },
    'C03': {
        'units': ['paths', 'casts'],
        'decided': 'classic path arithmetic (compose_paths) and the bigint<->bytes casts the classic compiler stands on, against big-endian / two\'s-complement specs',
        'not_covered': ['do_com_prog (CLVM-hosted compiler)', 'macro expansion', 'classic vs modern agreement'],
    },
    'C04': {
        'units': ['paths', 'casts'],
        'decided': 'path composition and number<->atom casts used by the classic optimiser, for paths of any width',
        'not_covered': ['constant_optimizer', 'cons_q_a_optimizer', 'children_optimizer', 'path_optimizer reading path atoms (finding F2 candidate)', 'fixpoint loop'],
    },
    'C08': {
        'units': ['ser'],
        'decided': 'length-prefix encoder (atom_size_blob) equals the consensus prefix table; atom decoder (atom_from_stream, Stream::read, int_from_bytes, get_u32) returns exactly what the consensus decoder returns and rejects what it rejects',
        'not_covered': ['op-stack walker of sexp_from_stream / sexp_to_stream iterator (Box<dyn> stack)', 'byte-equality with clvmr rests on a transcribed spec'],
    },
}
