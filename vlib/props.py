"""Which units / harnesses decide which property.  The wording of `decided` and
`not_covered` is copied into the evidence of every run and into MANIFEST.json."""

PARTIAL = 'The property as a whole is NOT proved; the obligations cover only the functions listed.'

from . import mech

PROPS = {
    'C02': {
        'e3_always': ['opt_levels'],
        'e3': ['compose_paths', 'path_optimizer', 'opt_levels'],
        'units': ['paths', 'nullopt', 'brief', 'dblapply'],
        'decided': 'path composition used by the cl23 optimiser and NodePath (compose_paths) equals "follow p then q" for all paths >= 1; the cl23+ post-codegen passes: null_optimization keeps the value of well-formed generated code in every environment (as an expression / as an operand list, by induction over the code against a compositional evaluation spec with uninterpreted operators), null_optimization_of_code and Strategy23::post_codegen_function_optimize / post_codegen_output_optimize return code with the same value (given assumed contracts for remove_double_apply and brief_path_selection); SExp::atomize; brief_path_selection itself (unit brief): a chain (f (r (f ... N))) over a path N >= 1 is replaced by the one path the chain selects and the rewrite is applied at every evaluated position, giving code with the same value in every environment (lemmas compose_path, outer_step; consensus facts used as stated axioms: path lookup = traverse_path, f / r, a proper operand list ends in nil), under the preconditions that evaluated positions hold no Integer below 1 and no pair-headed form, and that the code has fewer than 2^31 nodes; is_quote_atom / is_first_atom / is_rest_atom; the three root rewrites of remove_double_apply (unit dblapply): change_double_to_single_apply ((a (q . P) 1) -> P), change_apply_double_quote ((a (q 1 . body) x) -> (q . body)) and collapse_constant_condition ((i C A B) with a quoted or nil condition -> the branch the consensus nil test selects) each return code that computes the same value whenever the original returns one, and strictly smaller code when they fire (consensus facts about a and i, their arity and eager operand evaluation used as stated axioms; the NodeSel patterns enter as assumed shape contracts, R50); primquote',
        'not_covered': ['the recursive driver remove_double_apply (its contract stays ASSUMED in unit nullopt; finding F22 was in it): a program taken out of a quote becomes code for the next iteration, and no static well-formedness of the original tree that the verifier could carry through the loop covers it (pair-headed forms are applied to raw operands by the consensus evaluator, so the rewrite is only right for generated code)', 'that the code handed from null_optimization / remove_double_apply to brief_path_selection meets brief_path_selection\'s preconditions (null_optimization can turn (q . 0) into a bare Integer 0): in unit nullopt the contract of brief_path_selection is therefore still an assumption at that call site', 'SExp::proper_list (contract ASSUMED in unit brief)', 'that codegen only emits well-formed code (atom operators; precondition at the unverified call site)', 'CSE, de-inlining, constant folding, fe_opt, strategy optimiser: bounded stand-in only (E3: 15 programs x argument sets x cl21/cl22/cl23 x -O off/on must agree on the returned value)', 'brief_path_selection_single call-site precondition', 'whole-pipeline equality of builds for all programs'],
    },
    'C03': {
        'e3_always': ['classic_meaning'],
        'e3': ['compose_paths', 'path_optimizer', 'bigint_from_bytes', 'classic_meaning'],
        'units': ['paths', 'casts', 'symtable'],
        'decided': 'classic path arithmetic (compose_paths) and the bigint<->bytes casts the classic compiler stands on, against big-endian / two\'s-complement specs; symbol_table_for_tree (parameter name -> environment path of the classic compiler) records exactly sym_spec of the parameter tree, and (lemma sym_paths_select, over lemma compose_step) every recorded path selects, from any argument value, the sub-value at the structural position of its name, (@ name sub) captures included',
        'not_covered': ['is_at_capture / non_nil of the classic compiler (contracts ASSUMED in unit symtable)', 'do_com_prog (the CLVM-hosted compiler), macro expansion, classic vs modern agreement: bounded stand-in only (E3: 8 hand-evaluated programs, classic plain and optimised)'],
    },
    'C04': {
        'e3_always': ['path_optimizer'],
        'e3': ['compose_paths', 'path_optimizer', 'bigint_from_bytes'],
        'units': ['paths', 'casts'],
        'decided': 'path composition and number<->atom casts used by the classic optimiser, for paths of any width',
        'not_covered': ['constant_optimizer', 'cons_q_a_optimizer', 'children_optimizer', 'path_optimizer reading path atoms (finding F2 candidate)', 'fixpoint loop'],
    },
    'C08': {
        'e3_always': ['atom_from_stream'],
        'e3': ['atom_from_stream'],
        'units': ['ser', 'serout', 'serloop', 'deser', 'tosexp'],
        'decided': 'DESERIALISER AS A WHOLE (unit deser): sexp_from_stream returns Ok only with the tree the consensus deserialiser returns for the bytes (finish: clvmr node_from_stream transcribed, a stack of pending read / cons operations where an error ends the run) and Err whenever that fails -- although its operation loop drops the errors OpReadSexp / OpCons report: after a dropped error the value stack can never again hold a value at the end (balance <= 0, from an invariant on the shape of the operation stack); OpCons::invoke and OpReadSexp::invoke under contract; the conversion machine behind every pair it builds (unit tosexp): to_sexp_type and SimpleCreateCLVMObject::invoke return a node denoting ct_tree(value) for every value made of nodes, tuples, byte strings, strings and numbers, index nothing out of range and terminate (simulation of an abstract machine, lemma convert); ROUND TRIP (lemma round_trip): the consensus deserialiser reads back ser(t) as t whatever follows it, ser being the postcondition of sexp_to_stream; serialiser: every chunk SExpToBytesIterator::next emits is the next piece of the consensus serialisation ser(tree) of its work stack (0xff for a pair then its children, enc_atom for an atom), with the length-prefix encoder (atom_size_blob) equal to the consensus prefix table; sexp_to_stream appends exactly ser(tree) to a stream positioned at its end and terminates (work-stack weight decreases), over Stream::write (bytes land at the cursor, the rest of the buffer is kept, the cursor moves past them) and Stream::re_allocate (capacity only); lemma dec_enc_atom: the decoder contract reads back exactly what the encoder contract writes, for every length class; atom decoder (atom_from_stream, Stream::read, int_from_bytes, get_u32) returns exactly what the consensus decoder returns and rejects what it rejects',
        'not_covered': ['the link between the contract of SimpleCreateCLVMObject::invoke proved in unit tosexp and its two-shape restatement used in unit deser (the units carry different stand-in payload types); to_sexp_type for ListOf (never constructed in the crate; its `v.len() - 1` underflows on an empty list) and G1Affine values (arms cut, R38); the trait-object operation stack is verified in defunctionalised form (rule R53: the two implementors as an enum, dispatch by match on the extracted bodies)', 'atoms of 2^34 bytes or more (sexp_to_stream silently stops there; excluded by precondition)', 'that the allocator reference is handed back unchanged by sexp_to_stream (shown per step for the iterator only)', 'byte-equality with clvmr rests on a transcribed spec'],
    },
    'C06': {
        'e3_always': ['choose_path'],
        'e3': ['choose_path'],
        'units': ['clvmleaves', 'stepper'],
        'decided': 'ONE STEP PRESERVES THE VALUE (unit stepper): a machine state (RunStep with its parents) denotes a final value under the shared consensus evaluation spec (eval / op_apply with the consensus axioms for path lookup, q, a, i, c, f, r and their arities, strict operands, nil-terminated operand lists); run_step returns a state denoting the same value, and an error only when that value is a failure -- for every state whose operator is given as a number, in the current integer mode, without a debugger override; proved through combine (a value handed to a waiting state), eval_args (the Op state yields the operator applied to the values of the operand expressions; an operand list not ending in nil is a failure), SExp::proper_list, with_loc; the leaves under it: path lookup (choose_path) equals consensus traverse_path incl. path 0; program atoms are read as unsigned paths (path_from_u8, flatten_signed_int, lemma path_of_canonical_atom); truthiness (truthy) equals the consensus nil test in the current integer mode; atom_value; generate_argument_refs produces the paths 3*2^(k+j)-1 which select the j-th argument (lemma arg_ref_selects); translate_head: a number in operator position is handed on as the opcode it is, a name as what the operator table maps it to (finding F24)',
        'not_covered': ['the loop of run around run_step (termination is outside the comparison; that iterating a value-preserving step ends in that value is the definition of final_of on Done)', 'apply_op delegation (ASSUMED contract: returns what the operator computes on the operand values; generate_argument_refs under it is proved)', 'operators given as NAMES (prim_map contents, see C20) and the ((op) . operands) form (evaluation spec does not model it; stand-in E3 programs)', 'legacy integer mode (truthy differs from the consensus nil test there: finding F23)', 'the consensus axioms themselves (transcribed from clvmr)'],
    },
    'C07': {
        'e3_always': ['convert'],
        'e3': ['convert'],
        'units': ['convert', 'hash', 'sexpeq'],
        'decided': 'convert_from_clvm_rs and convert_to_clvm_rs preserve the CLVM value (tree_of) in both integer modes, by induction over the tree; modern and classic sha256tree both equal the CLVM tree hash of that value; SExp equality (equal_to / == / nilp) holds exactly when the CLVM encodings are identical in the current integer mode',
        'not_covered': ['SHA-256 itself (uninterpreted)', 'clvmr allocator (assumed ghost view)', 'Hash impl for SExp', 'consensus tree hash = tree_hash is a transcription'],
    },
    'C15': {
        'e3': ['srcloc', 'reader_locs'],
        'e3_always': ['reader_locs'],
        'units': ['srcloc', 'reader', 'readerstep'],
        'decided': 'Srcloc arithmetic: advance follows the byte (newline, tab stop, other), combine/ext start at the earlier start and never reach beyond the hull of their arguments, add_onto/ending/len/src_location_min/max; ParsePartialResult::push (of which whole-text parsing is the fold): the transition function is called with the location of the byte being consumed and the cursor advances by exactly that byte on every non-error step; parse_sexp_step itself, for leaf tokens: a token\'s location starts at the byte that opens it, keeps that start while the token is read and is only extended over the byte just consumed, and the emitted word / string carries that location (words starting with # excepted: they become the primitive they name)',
        'not_covered': ['list extents and error locations inside parse_sexp_step: bounded stand-in only (E3: all texts of <= 4 tokens over 13 token kinds against an independent position table, byte-at-a-time vs whole)', 'compiler-generated locations'],
    },
    'C20': {
        'units': ['tables'],
        'e3_always': ['tables'],
        'e3': ['tables'],
        'decided': 'the operator tables, extracted as data each run: opcodes pairwise distinct and names pairwise distinct (so opcode->name and name->opcode of each version are mutually inverse), FROM/TO builders of each version select the same rows, versions only add rows, keyword_from_atom/keyword_to_atom pick the same table, every prims() operator has the same canonically encoded opcode in KW_PAIRS and vice versa, the stepping evaluator\'s special-cased opcodes (q a i c f r) are the classic ones',
        'not_covered': ['that the evaluator selected per operator version (stage_0.rs dispatch and dialect flags) implements every operator of that version: stand-in only, but exhaustive over the finite tables (E3: one-operator program per name and version)', 'that clvmr implements each opcode (dispatch is outside the tables)', 'OriginalDialect / ChiaDialect flag selection in stage_0'],
    },
    'C05': {
        'e3_always': ['determinism'],
        'e3': ['determinism'],
        'kani': [{'name': 'guard_restores_mode', 'complete': True, 'claim': 'for every (initial, a, b, early-return) the per-thread integer-conversion mode after nested NewStyleIntConversion guards equals the mode before them'}],
        'mechanical': [{'name': 'int_mode_frame', 'fn': mech.frame_int_mode, 'claim': 'the mode cell is written only by the guard constructor and its Drop'}],
        'decided': 'one clause only: the per-thread integer-conversion mode is restored by the RAII guard on every exit path (success, early error return), so an earlier compilation in another dialect or a failed one cannot leak its mode',
        'not_covered': ['independence from the gensym counter ARGNAME_CTR, from HashMap iteration order and from the compiling thread (relational properties of the whole compiler over two runs): bounded stand-in only (E3: 72 programs compiled again after other, also failed, compilations and on a second thread; bytes and user-visible symbols compared)', 'hash seeds across processes'],
    },
    'C18': {
        'units': ['deps', 'depwalk'],
        'e3_always': ['deps'],
        'e3': ['deps'],
        'decided': 'read_new_file: a real (non pseudo) file is taken from the FIRST search directory in which it is readable, the reported name is that path, and an error means no directory has it (file system uninterpreted); the walk: recurse_dependencies records every non-dialect include under the name read_new_file resolves it to, with its kind, and keeps earlier entries; process_pp_form calls it before process_include / process_embed, which read exactly the file so listed (reads are a subset of the listing), for any classification of the form',
        'not_covered': ['which forms are recognised as include / embed-file (the classification closure is cut, R40; reads and listing share it): bounded stand-in only (E3 on a temporary directory tree: include, embed-file bin/hex, shadowed search path; cl21 and cl23)', 'that the file system answers the same between the walk and the read (assumed)', 'the classic compiler\'s own include reader (_read / _full_path_for_name operators)', 'gather_dependencies filter', 'pseudo-file branch of read_new_file'],
    },
    'C13': {
        'e3_always': ['symbols'],
        'e3': ['symbols'],
        'units': ['symbols'],
        'decided': 'path_to_function / path_to_function_inner: a returned path addresses, in the given program, a subtree whose tree hash equals the symbol-table key (for every program and hash); rewrite_in_program builds exactly (a (a (q . path/2) env) (c env 1)); add_defun records, for the code it stores, hex(tree hash of that code) -> name, that key + "_arguments" -> the printed argument list, and the code itself under the name in the defuns table',
        'not_covered': ['that no later add_defun with the same key overwrites only part of an entry (identical code under two names): bounded stand-in only (E3: 5 programs incl. two functions with identical code)', 'later passes leave quoted bodies alone', 'every reachable non-inline function has an entry', 'extracted code computes what the source function computes'],
    },
    'C01': {
        'e3_always': ['source_meaning'],
        'e3': ['source_meaning'],
        'units': ['envaddr', 'letenv', 'inlinepaths'],
        'decided': 'environment addressing: create_name_lookup_ returns a path that selects, from ANY argument tree, exactly the value the parameter pattern binds the name to under consensus destructuring (first match, left before right, (@ n sub) captures), and fails only when the pattern does not mention the name; build_tree / compute_code_shape / compute_env_shape lay the helper names out left to right, each once, with the arguments on the right; finalize_env_ keeps that shape and replaces every name leaf by what the name resolves to; lemma env_addressing: the value the shape binds a name to inside the finalized environment is that name\'s code; create_let_env_expression (the environment handed to a let helper hoisted out of an inline function) rebuilds the argument tree so that the helper, destructuring it with the same pattern, binds every parameter, (@ name sub) captures included, to the value the inline function received (lemma rebuilt_env_binds_the_same over the destructuring spec binds); cons_bodyform; the inliner\'s path arithmetic for parameters drawn from a &rest tail (choose_arg_from_list_or_tail: element s of the tail is path 3*2^s-1; arg_lookup: the tail after k consumed elements is path 2^(k+1)-1), the two statements extracted as they stand, with lemmas tying the numbers to consensus path lookup',
        'not_covered': ['the rest of let / assign / lambda desugaring (hoist_body_let_binding, generate_let_defun)', 'inlining', 'renaming', 'macro expansion', 'per-leaf resolution inside finalize_env_ (defuns / constants / inlines tables, abstract)', 'start_codegen / codegen as a whole', 'that compiled code computes what the source means: bounded stand-in only (E3: 32 hand-evaluated programs x cl21/cl23)'],
    },
    'C09': {
        'units': ['printer', 'casts', 'quoted'],
        'e3_always': ['disassemble', 'modern_print'],
        'e3': ['disassemble', 'modern_print'],
        'decided': 'the disassembler\'s per-atom decisions: has_oversized_sign_extension is exactly "not canonical"; ir_for_atom (keywords off) prints an atom of 1-2 bytes as a decimal integer exactly when it is canonical, as hex otherwise, and every form carries the bytes unchanged; the assembler\'s decimal route re-encodes canonically (bigint_to_bytes_clvm), so the integer route round-trips (lemma, decimal print/parse assumed inverse); the classic assembler\'s string reader consume_quoted returns exactly the scan of the bytes after the opening quote and stops right after the closing quote, and (lemma scan_reads_back) any text a printer wrote by putting a backslash before at least every quote and backslash of s reads back as s',
        'not_covered': ['that the two printers escape at least the quote and the backslash (classic write_ir / modern escape_quote): bounded stand-in only (E3 round trip on all 1-byte, 2304 2-byte and special 3-byte atoms, 3 positions, 3 versions); the Kani per-atom harness did not finish (HashMap + String in CBMC, 20 min) and was dropped', 'decimal and hex text conversion (assumed inverse pairs)', 'list / dot layout', 'modern printer and reader: bounded stand-in only', 'CLI path'],
    },
    'C14': {
        'units': ['safety', 'srcloc', 'ser', 'printer', 'depwalk', 'macroext', 'readerstep', 'irreader', 'deser', 'tosexp'],
        'e3_always': ['no_panic', 'include_files', 'macro_ext', 'token_mutations'],
        'e3': ['no_panic', 'include_files', 'macro_ext', 'token_mutations'],
        'decided': 'absence of panics, arithmetic overflow, out-of-bounds indexing and non-termination (under the stated preconditions) in the front-end leaves under contract: Stream::read / set_seek / get_seek, IRReader::backup, Bytes accessors and concat, atom_from_stream, atom_size_blob, int_from_bytes, get_u32, Srcloc arithmetic incl. len, is_hex / is_space / is_eol, has_oversized_sign_extension, ir_for_atom; THE BINARY DESERIALISER AS A WHOLE (unit deser: sexp_from_stream with both operations terminates -- 3 x remaining bytes + pending operations decreases -- and indexes nothing out of range, for every byte string that fits the address space); THE CLASSIC READER AS A WHOLE (unit irreader, from read_ir down): for every text shorter than 2^63 bytes, consume_object / consume_cons_body / consume_atom / consume_whitespace / consume_quoted / enlist_ir / IRReader::{new,read,backup,read_expr} / Stream::{new,set_seek} index only what is there, read only inside the text, move the cursor only forward and terminate (every list element consumes at least one byte; mutual recursion by remaining length) -- consume_whitespace stops exactly at the first byte outside blanks and ; comments (skip_ws), consume_atom takes exactly the bytes up to the next parenthesis / blank / end; the modern reader\'s per-byte transition function parse_sexp_step as a whole (every state x every byte: no index outside a list, no underflow, the recursion on the nested state terminates) and enlist; Preprocessor::process_include / recurse_dependencies index no parsed form that is not there (empty include file: finding F14, fixed); the defmac extension functions (string? number? symbol? string->symbol symbol->string string-append string-length substring) fetch every argument through required_arg (Ok exactly when the call supplies it) and substring only slices inside the string (finding F17, fixed)',
        'not_covered': ['interpret_atom_value (number / hex / symbol text of a classic atom: string parsing, stubbed); make_atom / restructure_list: bounded stand-in only (E3 no-panic sweep, bound stated in evidence)', 'stack depth: both readers recurse (or drop) once per nesting level (outside the property by its own statement)', 'compile, run, debug, REPL, dependency listing as wholes', 'termination of the include walk: recurse_dependencies <-> process_pp_form carry no decreases clause; include cycles overflow the stack (open finding F15, reproduced each run by the include_files stand-in in a child process)', 'located-error clause beyond C15', 'preconditions at unverified call sites outside the classic reader are assumptions'],
    },
    'C19': {
        'units': ['atomicwrite', 'clvmcfile'],
        'e3': ['atomic_write'],
        'decided': 'the mechanism only: atomic_write_file creates its temporary file in the directory of the target, writes exactly the new contents to it, and the target is only ever replaced by persisting that file (a rename within one directory); no other file-writing call occurs in atomic_write_file / gentle_overwrite; gentle_overwrite succeeds whenever old and new contents are equal up to surrounding whitespace, whatever the rewrite attempt returns; compile_clvm (file-to-file compilation, unit clvmcfile): between entry and return the only call that can change the output path is gentle_overwrite with the complete new contents (the compilation itself is cut to one opaque call, R51)',
        'not_covered': ['atomicity of rename(2) (ASSUMED)', 'the whole "at every instant / killed at any point / concurrent readers" quantifier: no verifier here models crash points or concurrent observers', 'the Python binding\'s own writer (py/api.rs)', 'that the opaque compilation step (compile_clvm_inner) writes no file'],
        'assumptions': ['POSIX: rename(2) within one directory replaces the target atomically', 'tempfile::NamedTempFile::persist is rename(2) when source and target are on the same file system'],
    },
    'C11': {
        'units': ['opts'],
        'e3_always': ['entry_points'],
        'e3': ['entry_points'],
        'decided': 'the option derivation of the library entry point (compile_clvm_text_maybe_opt; Python, wasm, file-to-file) and of the command-line tool path (RunAndCompileInputData::new + compile_modern; run, cldb), extracted as expressions from the real text, are the same function of (do_optimize, stepping) and equal the rule optimize = do_optimize || stepping > 22, frontend_opt = stepping == 22; both hand do_optimize to the classic post-optimiser with the same options; the library wrapper requests optimisation; with compile_file and the post-optimiser as uninterpreted functions of (options, text) the emitted programs are equal (lemma)',
        'not_covered': ['launch_tool / cldb argument plumbing', 'py and wasm wrappers', 'the classic (no sigil) branch', 'determinism of compile_file (C05)', 'byte equality of real outputs: bounded stand-in only (E3: 3 programs x cl21/22/23 x optimize on/off)'],
    },
    'C16': {
        'units': ['evalbind', 'argcaptures'],
        'e3_always': ['repl'],
        'e3': ['repl'],
        'decided': 'the evaluator\'s destructuring of binding patterns (compute_paths_of_destructure, used for let / assign patterns by the REPL, the partial evaluator and the cl22 frontend optimiser): every name is bound to the f/r chain that follows the consensus path of its position in the pattern (least significant bit first), for patterns of any shape; the evaluator\'s function-call argument binding create_argument_captures: afterwards every parameter the spec mentions has a capture expression whose value (under any valuation of the free variables; projections by opcode 5 / 6 / 4) is what the spec binds that name to in the arguments -- structurally for Pair arguments, by value for Whole ones -- and whenever the arguments as a whole have a value this is the destructuring spec binds the code generator is proved against (first occurrence wins, an (@ name sub) capture is the whole position): lemmas binds_a_strict, binds_o_is_binds; get_bodyform_from_arginput, make_operator1 / make_operator2',
        'not_covered': ['build_argument_captures and the callers of create_argument_captures', 'operator_head (contract ASSUMED: string match)', 'the capture table as a HashMap (stand-in keyed by content, R47)', 'substitution, folding and lambda application in shrink_bodyform_visited', 'REPL state', 'agreement REPL vs compiled program as a whole: bounded stand-in only (E3: 16 closed and 10 open sessions)'],
    },
    'C10': {
        'units': ['guards'],
        'e3_always': ['scoping'],
        'e3': ['scoping'],
        'decided': 'the duplicate-definition guard of the code generator (fail_if_present): an error is returned exactly when the name is already defined in the table it is asked about, for every table and name',
        'not_covered': ['unbound-identifier detection on every desugaring route, inline-recursion guard (visited_inlines in replace_inline_body), toposort deadlock / duplicate handling: bounded stand-in only (E3: 8 ill-scoped programs with repaired twins); toposort and the inliner are generic / closure / HashSet code outside Verus, and a Kani harness over HashSet does not finish here', 'termination of the compiler on all ill-scoped inputs'],
    },
    'C12': {
        'units': ['cldb', 'clvmleaves', 'stepper', 'convert'],
        'e3_always': ['cldb'],
        'e3': ['cldb', 'choose_path'],
        'decided': 'a program supplied as hex (cldb -x) is the same program: hex_to_modern_sexp_inner rebuilds a located value that denotes exactly the deserialised CLVM node (unit convert; which location each node gets is a symbol-table lookup cut out as not entering the value); what the debugger presents is the value it computed: improve_presentation and humanize (applied to every shown value and to the final result) return the same CLVM value, only spelled differently (R6 for the pointer-sharing shortcut); plus, for the machine the debugger steps (C06, unit stepper): every run_step transition preserves the value the machine state denotes under the consensus evaluation spec, so the final value the debugger reports is the consensus result (operators given as numbers, current integer mode); and the stepping-evaluator leaves every row is produced from (path lookup, truthiness, atom_value)',
        'not_covered': ['CldbRun::step row / ended / final bookkeeping and that the run ends with the consensus result: bounded stand-in only (E3: enumerated programs x 3 environments: final value, failure iff consensus fails, consecutive rows, and every (operator, arguments, value) row re-evaluated with the consensus evaluator; open finding F19: rows of the primitive if)', 'cldb_hierarchy', 'the deserialiser in front of hex_to_modern_sexp_inner (sexp_from_stream as a whole, see C08)'],
    },
}
