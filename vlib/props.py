"""Which units / harnesses decide which property.  The wording of `decided` and
`not_covered` is copied into the evidence of every run."""

PROPS = {
    'C02': {
        'units': ['paths'],
        'decided': 'path composition used by the cl23 optimiser (compose_paths) equals "follow p then q" for all paths',
        'not_covered': ['CSE', 'de-inlining', 'constant folding', 'fe_opt', 'whole-pipeline equality of builds'],
    },
}
