"""Which units / harnesses decide which property.  The wording of `decided` and
`not_covered` is copied into the evidence of every run and into MANIFEST.json."""

PARTIAL = 'The property as a whole is NOT proved; the obligations cover only the functions listed.'

PROPS = {
    'C02': {
        'units': ['paths'],
        'decided': 'path composition used by the cl23 optimiser and NodePath (compose_paths) equals "follow p then q" for all paths >= 1',
        'not_covered': ['CSE', 'de-inlining', 'constant folding', 'fe_opt', 'brief_path_selection_single call-site precondition', 'whole-pipeline equality of builds'],
    },
    'C03': {
        'units': ['paths', 'casts'],
        'decided': 'classic path arithmetic (compose_paths) and the bigint<->bytes casts the classic compiler stands on, against big-endian / two\'s-complement specs',
        'not_covered': ['do_com_prog (CLVM-hosted compiler)', 'macro expansion', 'classic vs modern agreement'],
    },
    'C04': {
        'units': ['paths', 'casts'],
        'decided': 'path composition and number<->atom casts used by the classic optimiser, for paths of any width',
        'not_covered': ['constant_optimizer', 'cons_q_a_optimizer', 'children_optimizer', 'path_optimizer reading path atoms (finding F2 candidate)', 'fixpoint loop'],
    },
    'C08': {
        'units': ['ser'],
        'decided': 'length-prefix encoder (atom_size_blob) equals the consensus prefix table; atom decoder (atom_from_stream, Stream::read, int_from_bytes, get_u32) returns exactly what the consensus decoder returns and rejects what it rejects',
        'not_covered': ['op-stack walker of sexp_from_stream / sexp_to_stream iterator (Box<dyn> stack)', 'byte-equality with clvmr rests on a transcribed spec'],
    },
    'C06': {
        'units': ['clvmleaves'],
        'decided': 'the leaves the stepping evaluator re-implements itself: path lookup (choose_path) equals consensus traverse_path incl. path 0; program atoms are read as unsigned paths (path_from_u8, flatten_signed_int, lemma path_of_canonical_atom); truthiness (truthy) equals the consensus nil test in the current integer mode; atom_value',
        'not_covered': ['run_step / run as a whole (bisimulation with run_program)', 'apply_op delegation', 'translate_head + prim_map', 'eval_args', 'combine', 'that run_step calls the verified leaves (call sites are unverified)'],
    },
    'C07': {
        'units': ['convert', 'hash', 'sexpeq'],
        'decided': 'convert_from_clvm_rs and convert_to_clvm_rs preserve the CLVM value (tree_of) in both integer modes, by induction over the tree; modern and classic sha256tree both equal the CLVM tree hash of that value; SExp equality (equal_to / == / nilp) holds exactly when the CLVM encodings are identical in the current integer mode',
        'not_covered': ['SHA-256 itself (uninterpreted)', 'clvmr allocator (assumed ghost view)', 'Hash impl for SExp', 'consensus tree hash = tree_hash is a transcription'],
    },
    'C15': {
        'units': ['srcloc'],
        'decided': 'Srcloc arithmetic: advance follows the byte (newline, tab stop, other), combine/ext start at the earlier start and never reach beyond the hull of their arguments, add_onto/ending/len/src_location_min/max',
        'not_covered': ['reader state invariant of parse_sexp_step (all stored locations lie in [start, cursor])', 'token extents', 'byte-at-a-time == whole', 'compiler-generated locations'],
    },
}
