"""E3: turn a refuted obligation into a concrete input replayed on the real code.
Not a deciding step.  The replay crate (/verif/replay) is compiled against a
scratch copy of /repo's working tree."""
import json
import os
import subprocess

from . import scratch

VERIF = scratch.VERIF
TIER = 'quick'


def _build():
    with scratch.Lock('replay'):
        dst = scratch.sync('replay-repo', {})
        crate = os.path.join(VERIF, 'replay')
        tgt = os.path.join(scratch.ROOT, 'replay-target')
        env = dict(os.environ)
        env['CARGO_NET_OFFLINE'] = 'true'
        env['CARGO_TARGET_DIR'] = tgt
        env['RUSTUP_TOOLCHAIN'] = env.get('VERIF_REPO_TOOLCHAIN', 'stable')
        lock = os.path.join(crate, 'Cargo.lock')
        p = subprocess.run(['cargo', 'build', '--offline', '--quiet'], cwd=crate, env=env, capture_output=True, text=True, timeout=1200)
        if p.returncode != 0:
            return None, p.stderr[-2000:]
        return os.path.join(tgt, 'debug', 'verif-replay'), ''


_memo = {}
_built = {}


def _run(args, timeout=None, skip=None):
    # one check process asks for the same search once per failed obligation: run each (search, skip list) once
    key = json.dumps([args, skip, TIER], sort_keys=True)
    if key in _memo:
        return _memo[key]
    r = _run1(args, timeout, skip)
    _memo[key] = r
    return r


def _run1(args, timeout=None, skip=None):
    timeout = timeout or (3000 if TIER == 'thorough' else 600)
    if 'exe' not in _built:
        _built['exe'] = _build()
    exe, err = _built['exe']
    if exe is None:
        return {'found': False, 'error': True, 'how': 'replay crate failed to build against the current tree: ' + err}
    try:
        env = dict(os.environ)
        env['VERIF_TIER'] = TIER
        if skip:
            env['VERIF_SKIP'] = json.dumps(skip)
        p = subprocess.run([exe] + args, capture_output=True, text=True, timeout=timeout, env=env)
    except subprocess.TimeoutExpired:
        return {'found': False, 'error': True, 'how': 'replay search timed out'}
    for line in reversed(p.stdout.strip().split('\n')):
        if line.startswith('{'):
            try:
                return json.loads(line)
            except Exception:
                pass
    return {'found': False, 'error': True, 'how': 'replay produced no result: ' + (p.stderr[-500:] or p.stdout[-500:])}


def search(pid, failure, seed, skip=None):
    """Find a concrete input violating the contract of failure['fn'] on the real code."""
    if failure.get('region') == 'kani':
        if failure.get('cex'):
            # Kani's counterexample is a concrete valuation of the harness's kani::any() inputs,
            # found on the real crate (scratch copy of /repo's working tree)
            return {'found': True, 'engine': 'Kani concrete playback (CBMC counterexample over the real crate)',
                    'input': {'kani_any_values_in_order': failure.get('cex_vals'), 'playback_test': failure['cex']},
                    'expected': failure.get('clause'), 'observed': failure.get('msg'),
                    'how': 'cargo kani --concrete-playback=print --harness ' + failure['fn']}
        return {'found': False, 'how': 'Kani reported the failed check without a concrete counterexample'}
    # function names are not unique across files (next, new, read, write ...): the unit that holds the refuted obligation names its
    # own enumerator first; the function name is the fallback
    unit = (failure.get('obligation') or '').split('/')[0]
    if unit and not unit.startswith('e3'):
        r = _run(['search', 'unit:' + unit, str(seed)], skip=skip)
        if r.get('found') or 'no enumerator' not in (r.get('how') or ''):
            return r
    return _run(['search', failure['fn'].split('::')[-1], str(seed)], skip=skip)


def confirm_finding(of):
    if of.get('e3') and of.get('input') is not None:
        r = _run(['input', of['e3'], json.dumps(of['input'])])
    else:
        r = _run(['confirm', of['id']])
    return {'confirmed': bool(r.get('found')), 'why': r.get('how', ''), 'observed': r.get('observed')}


def replay_file(path):
    with open(path) as f:
        rec = json.load(f)
    print('obligation: %s' % rec.get('obligation'))
    if not rec.get('failing_input'):
        print('no concrete input recorded; verifier output follows')
        print(rec.get('verifier_output', ''))
        return 0
    r = _run(['input', rec['obligation'].split('/')[1] if '/' in rec['obligation'] else rec['obligation'], json.dumps(rec['failing_input'])])
    print(json.dumps(r, indent=1))
    return 1 if r.get('found') else 0
