"""Generate a Verus input file from a unit template.

A unit template (/verif/units/<unit>.rs) is Verus source with directives.  Plain
lines are copied.  An extract block cuts the named item out of /repo's current
working tree and splices *ghost* text (contracts, invariants, proof hints) and
the declared rewrites into it:

  //@ extract fn NAME from PATH [in impl HEADER] [nth N]
  //@ sig RET                    block: requires/ensures/decreases
  //@ loop K                     block: invariant/decreases of the K-th loop
  //@ before [#N] <<literal>>    block: text inserted before N-th occurrence
  //@ after  [#N] <<literal>>    block: text inserted after  N-th occurrence
  //@ replace [all] RULE <<from>> => <<to>>      (or block as replacement)
  //@ replace-span RULE <<start>> <<end>> => <<to>>   (everything from start up to and including the next end)
  //@ replace-upto RULE <<start>> <<end>> => <<to>>   (same, excluding the end literal)
  //@ attr <<#[verifier::external_body]>>
  //@ canary NAME <<from>> => <<to>>             (stored mutation, must be rejected)
  //@ end

Other kinds: struct / enum / const / static / type (copied, attributes and
serde annotations stripped = rule R3).

Unit-level directives:
  //@ include prelude/NAME.rs
  //@ note free text (goes to evidence)
"""
import hashlib
import os
import re

from .rustlex import Source, LostAnchor, find_item, find_impl_block, CODE

REPO = os.environ.get('VERIF_REPO', '/repo')
VERIF = os.path.dirname(os.path.dirname(os.path.abspath(__file__)))

LIT = r'@<(.*?)>@'


class TemplateError(Exception):
    pass


def _lits(s):
    return re.findall(LIT, s, flags=re.S)


class Extracted:
    def __init__(self):
        self.kind = self.name = self.path = None
        self.impl = None
        self.nth = 0
        self.sig = None  # (retname, text)
        self.loops = {}
        self.inserts = []  # (where, nth, literal, text)
        self.replaces = []  # (all, rule, from, to)
        self.attrs = []
        self.canaries = []  # (name, from, to)
        self.tpl_line = 0
        self.derives = False
        self.stub = False
        self.fields = None


def parse_template(path):
    """Return list of nodes: ('text', line) | ('extract', Extracted) | ('include', path) | ('note', s)"""
    nodes = []
    cur = None  # current Extracted
    block = None  # list collecting block lines, with a setter
    setter = None

    def flush():
        nonlocal block, setter
        if setter is not None:
            setter('\n'.join(block))
        block, setter = None, None

    with open(path) as f:
        lines = f.read().split('\n')
    for ln, line in enumerate(lines, 1):
        s = line.strip()
        if s.startswith('//@'):
            flush()
            d = s[3:].strip()
            if d.startswith('extract '):
                if cur is not None:
                    raise TemplateError('%s:%d nested extract' % (path, ln))
                m = re.match(r'extract\s+(fn|struct|enum|const|static|type)\s+(\S+)\s+from\s+(\S+)(?:\s+in\s+impl\s+(.+?))?(?:\s+nth\s+(\d+))?\s*$', d)
                if not m:
                    raise TemplateError('%s:%d bad extract' % (path, ln))
                cur = Extracted()
                cur.kind, cur.name, cur.path, cur.impl = m.group(1), m.group(2), m.group(3), m.group(4)
                cur.nth = int(m.group(5) or 0)
                cur.tpl_line = ln
            elif d == 'end':
                if cur is None:
                    raise TemplateError('%s:%d end without extract' % (path, ln))
                nodes.append(('extract', cur))
                cur = None
            elif d.startswith('include '):
                nodes.append(('include', d.split(None, 1)[1].strip()))
            elif d.startswith('note '):
                nodes.append(('note', d.split(None, 1)[1]))
            elif cur is None:
                raise TemplateError('%s:%d directive outside extract: %s' % (path, ln, d))
            elif d.startswith('sigfile'):
                # shared contract text: proved in one unit, assumed (stub) in its callers' units
                _, ret, rel = d.split()
                with open(os.path.join(VERIF, rel)) as sf:
                    cur.sig = (ret, sf.read().rstrip('\n'))
                # lines following the directive (e.g. a decreases clause, which only the proving unit needs) are appended
                block = []

                def setter(t, cur=cur):
                    if t.strip():
                        cur.sig = (cur.sig[0], cur.sig[1] + '\n' + t)
            elif d.startswith('sig'):
                ret = d.split()[1] if len(d.split()) > 1 else None
                block = []

                def setter(t, ret=ret, cur=cur):
                    cur.sig = (ret, t)
            elif d.startswith('loop '):
                k = int(d.split()[1])
                block = []

                def setter(t, k=k, cur=cur):
                    cur.loops[k] = t
            elif d.startswith('before') or d.startswith('after'):
                where = 'before' if d.startswith('before') else 'after'
                headw = d.split('@<')[0].split()
                m = re.search(r'#(\d+)', d.split('@<')[0])
                nth = int(m.group(1)) if m else 0
                lit = _lits(d)
                if 'tail' in headw[1:]:
                    how, lit = 'tail', ['']
                elif 'stmt' in headw[1:]:
                    how = 'stmt'
                else:
                    how = 'lit'
                if len(lit) != 1:
                    raise TemplateError('%s:%d need one literal' % (path, ln))
                block = []

                def setter(t, where=where, nth=nth, lit=lit[0], cur=cur, how=how):
                    cur.inserts.append((where, nth, lit, t, how))
            elif d.startswith('replace-block'):
                rule = (d.split() + ['R?'])[1]
                block = []
                pending = {}

                def setter(t, pending=pending):
                    pending['from'] = t
                cur._pending = (rule, pending)
            elif d == 'with':
                rule, pending = cur._pending
                block = []

                def setter(t, rule=rule, pending=pending, cur=cur):
                    cur.replaces.append((False, rule, pending['from'], t))
            elif d.startswith('replace-span') or d.startswith('replace-upto'):
                rule = (d.split('@<')[0].split() + ['R?'])[1]
                lit = _lits(d)
                kind = 'upto' if d.startswith('replace-upto') else 'span'
                if len(lit) == 2:
                    # the replacement is the block of lines that follows the directive
                    block = []

                    def setter(t, kind=kind, rule=rule, lit=lit, cur=cur):
                        cur.replaces.append((kind, rule, (lit[0], lit[1]), t))
                elif len(lit) != 3:
                    raise TemplateError('%s:%d replace-span needs start, end and replacement literals' % (path, ln))
                else:
                    cur.replaces.append((kind, rule, (lit[0], lit[1]), lit[2]))
            elif d.startswith('replace'):
                head = d.split('@<')[0].split()
                allf = 'all' in head
                rule = [h for h in head[1:] if h != 'all']
                rule = rule[0] if rule else 'R?'
                lit = _lits(d)
                if len(lit) == 2:
                    cur.replaces.append((allf, rule, lit[0], lit[1]))
                elif len(lit) == 1:
                    block = []

                    def setter(t, allf=allf, rule=rule, frm=lit[0], cur=cur):
                        cur.replaces.append((allf, rule, frm, t))
                else:
                    raise TemplateError('%s:%d bad replace' % (path, ln))
            elif d.startswith('fields '):
                cur.fields = d.split()[1:]
            elif d == 'stub':
                cur.stub = True
            elif d.startswith('derives'):
                cur.derives = True
            elif d.startswith('attr'):
                cur.attrs.append(_lits(d)[0])
            elif d.startswith('canary'):
                nm = d.split()[1]
                lit = _lits(d)
                cur.canaries.append((nm, lit[0], lit[1]))
            else:
                raise TemplateError('%s:%d unknown directive %s' % (path, ln, d))
        else:
            if block is not None:
                block.append(line)
            elif cur is not None:
                if s:
                    raise TemplateError('%s:%d stray text inside extract' % (path, ln))
            else:
                nodes.append(('text', line))
    flush()
    if cur is not None:
        raise TemplateError('%s: unterminated extract %s' % (path, cur.name))
    return nodes


_src_cache = {}


def load_source(relpath):
    p = os.path.join(REPO, relpath)
    if not os.path.exists(p):
        raise LostAnchor('source file missing: ' + relpath)
    key = (p, os.path.getmtime(p), os.path.getsize(p))
    if key not in _src_cache:
        with open(p) as f:
            _src_cache[key] = Source(f.read())
    return _src_cache[key]


def strip_attrs(text):
    """R3: drop outer attributes, doc comments and serde field attributes."""
    out = []
    for line in text.split('\n'):
        s = line.strip()
        if s.startswith('#[') and s.endswith(']'):
            continue
        if s.startswith('///') or s.startswith('//!'):
            continue
        out.append(line)
    return '\n'.join(out)


def _find_nth(hay, needle, nth, what):
    pos = -1
    for _ in range(nth + 1):
        pos = hay.find(needle, pos + 1)
        if pos < 0:
            raise LostAnchor('%s: anchor not found: %r (#%d)' % (what, needle, nth))
    return pos


def _loops(src, lo, hi):
    """Positions of the body '{' of every loop in src.text[lo:hi], in order."""
    out = []
    for m in src.find_code(r'\b(while|loop|for)\b', lo, hi):
        kw = m.group(1)
        if kw == 'for':
            # skip `for<'a>` and `impl X for Y`
            rest = src.text[m.end():m.end() + 200]
            if not re.match(r'\s+[^;{]*?\bin\b', rest):
                continue
        o = src.body_open(m.end(), hi)
        if o < 0:
            continue
        out.append(o)
    return out


def _stmt_starts(src, bo, bc):
    """Yield positions in (bo, bc) where a statement/expression starts (any depth)."""
    t, cls = src.text, src.cls
    expect = True
    j = bo + 1
    while j < bc:
        if cls[j] != CODE or t[j].isspace():
            j += 1
            continue
        ch = t[j]
        if expect and ch not in '})];,':
            yield j
            expect = False
        if ch in '{;}':
            expect = True
        elif ch == '=' and t[j + 1:j + 2] == '>':
            expect = True  # match arm body
            j += 1
        j += 1


def _stmt_end(src, start, bc):
    """End of the statement starting at `start`: just after its ';' at the same
    depth, or just before the '}' that closes the enclosing block (tail expr)."""
    t, cls = src.text, src.cls
    depth = 0
    j = start
    while j <= bc:
        if cls[j] == CODE:
            ch = t[j]
            if ch in '([{':
                depth += 1
            elif ch in ')]}':
                if depth == 0:
                    return j
                depth -= 1
            elif ch == ';' and depth == 0:
                return j + 1
        j += 1
    return bc


def _stmt_span(src, bo, bc, prefix, nth, what):
    hits = [p for p in _stmt_starts(src, bo, bc) if src.text.startswith(prefix, p)]
    if len(hits) <= nth:
        raise LostAnchor('%s: no statement starting with %r (#%d)' % (what, prefix, nth))
    a = hits[nth]
    return a, _stmt_end(src, a, bc)


def _tail_start(src, bo, bc, what):
    """Start of the tail expression of the block (bo, bc)."""
    t, cls = src.text, src.cls
    depth = 0
    last = None
    start = None
    j = bo + 1
    kw = None
    while j < bc:
        if cls[j] != CODE or t[j].isspace():
            j += 1
            continue
        ch = t[j]
        if depth == 0 and start is None:
            start = j
            m = re.match(r'(if|while|for|loop|match|unsafe)\b', t[j:j + 8])
            kw = m.group(1) if m else ('{' if ch == '{' else None)
        if ch in '([{':
            depth += 1
        elif ch in ')]}':
            depth -= 1
            if depth == 0 and ch == '}' and kw is not None:
                rest = t[j + 1:bc].lstrip()
                if not rest.startswith('else') and not rest.startswith('.') and not rest.startswith('?'):
                    if rest.strip() == '' or not re.match(r'[-+*/%&|^=<>]', rest):
                        last = start
                        if rest.strip() != '':
                            start = None
        elif ch == ';' and depth == 0:
            start = None
        j += 1
    if start is None:
        raise LostAnchor('%s: body has no tail expression' % what)
    return start


def render_extract(ex, mode=None, canary=None, lenient=False):
    """Return (text, info).  mode: None | 'twin'.  canary: name of canary to apply."""
    src = load_source(ex.path)
    within = None
    if ex.impl:
        blocks = find_impl_block(src, ex.impl)
        if not blocks:
            raise LostAnchor('impl %s not found in %s' % (ex.impl, ex.path))
        err = None
        found = None
        for b in blocks:
            try:
                found = find_item(src, ex.kind, ex.name, within=b, nth=ex.nth)
                break
            except LostAnchor as e:
                err = e
        if found is None:
            raise err
        start, end, sig_start = found
    else:
        start, end, sig_start = find_item(src, ex.kind, ex.name, nth=ex.nth)
    raw = src.text[start:end]
    src_line = src.text.count('\n', 0, sig_start) + 1
    info = {
        'item': '%s %s%s' % (ex.kind, (ex.impl + '::') if ex.impl else '', ex.name),
        'file': ex.path, 'line': src_line,
        'sha256': hashlib.sha256(raw.encode()).hexdigest(),
        'rewrites': [], 'spliced': [],
    }
    text = strip_attrs(raw)
    # rewrites (declared, literal)
    info['dropped'] = []
    if getattr(ex, 'generic', False):
        # generic forms of the stated rules for helpers that no template describes
        def r45(m):
            return ('let mut verif_i: usize = %s.len(); while verif_i > 0 invariant verif_i <= %s.len() decreases verif_i { verif_i = verif_i - 1; let %s = &%s[verif_i];'
                    % (m.group(2), m.group(2), m.group(1), m.group(2)))
        text, n45 = re.subn(r'for\s+([a-z_][a-z_0-9]*)\s+in\s+([a-z_][a-z_0-9]*)\.iter\(\)\.rev\(\)\s*\{', r45, text)
        if n45:
            info['rewrites'].append({'rule': 'R45', 'from': 'for x in v.iter().rev() {', 'to': 'index loop from the back', 'count': n45})
        text, n1 = re.subn(r'format!\((?:[^()]|\([^()]*\))*\)', 'verif_opaque_string()', text)
        if n1:
            info['rewrites'].append({'rule': 'R1', 'from': 'format!(...)', 'to': 'verif_opaque_string()', 'count': n1})
    for allf, rule, frm, to in ex.replaces:
        if allf in ('span', 'upto'):
            # the text from the (unique) start literal up to and including the next end literal is replaced as a whole
            st, en = frm
            a = text.find(st)
            b = text.find(en, a + len(st)) if a >= 0 else -1
            if a < 0 or b < 0 or text.count(st) != 1:
                if lenient:
                    info['dropped'].append('rewrite %s span %r' % (rule, st[:60]))
                    continue
                raise LostAnchor('%s: rewrite %s span not found: %r .. %r' % (ex.name, rule, st, en))
            if allf == 'upto':
                en = ''
            cut = text[a:b + len(en)]
            text = text[:a] + to + text[b + len(en):]
            info['rewrites'].append({'rule': rule, 'from': '%s ... %s (%d lines, sha256 %s)' % (st, en, cut.count('\n') + 1, hashlib.sha256(cut.encode()).hexdigest()[:16]), 'to': to, 'count': 1})
            continue
        n = text.count(frm)
        if n == 0 or (n != 1 and not allf):
            if lenient:
                info['dropped'].append('rewrite %s %r' % (rule, frm[:60]))
                continue
            raise LostAnchor('%s: rewrite %s pattern occurs %d times: %r' % (ex.name, rule, n, frm))
        text = text.replace(frm, to)
        info['rewrites'].append({'rule': rule, 'from': frm, 'to': to, 'count': n})
    if lenient and ex.kind == 'fn' and not ex.stub and any(d.startswith('rewrite R1') for d in info['dropped']):
        # the wording of a message changed, so its declared R1 rewrite no longer matches: apply R1 in its generic form to what is left
        text, n1 = re.subn(r'format!\((?:[^()]|\([^()]*\))*\)', 'verif_opaque_string()', text)
        if n1:
            info['rewrites'].append({'rule': 'R1', 'from': 'format!(...) (generic form, after a declared R1 rewrite stopped matching)', 'to': 'verif_opaque_string()', 'count': n1})
    if ex.kind == 'struct' and ex.fields is not None:
        # R16: keep only the named fields (the others are not touched by any extracted function)
        o = text.index('{')
        c = text.rindex('}')
        kept, seen = [], set()
        for line in text[o + 1:c].split('\n'):
            fm = re.match(r'\s*(?:pub(?:\([a-z]+\))?\s+)?([a-z_0-9]+)\s*:', line)
            if fm and fm.group(1) in ex.fields:
                kept.append(line)
                seen.add(fm.group(1))
        missing = [f for f in ex.fields if f not in seen]
        if missing:
            raise LostAnchor('struct %s: field(s) %s not found' % (ex.name, missing))
        text = text[:o + 1] + '\n' + '\n'.join(kept) + '\n' + text[c:]
        info['rewrites'].append({'rule': 'R16', 'from': 'struct ' + ex.name, 'to': 'fields kept: ' + ', '.join(ex.fields), 'count': 1})
    if ex.kind != 'fn':
        extra = ''
        if ex.derives:
            dm = re.search(r'#\[derive\(([^)]*)\)\]', raw)
            traits = [t.strip() for t in dm.group(1).split(',')] if dm else []
            nm = ex.name
            if 'Clone' in traits:
                extra += ('\n// R3: #[derive(Clone)] -> trusted structural clone\nimpl Clone for %s { #[verifier::external_body] fn clone(&self) -> (r: Self) ensures r == *self { unimplemented!() } }' % nm)
            if 'PartialEq' in traits:
                extra += ('\n// R3: #[derive(PartialEq)] -> trusted structural equality\nimpl vstd::std_specs::cmp::PartialEqSpecImpl for %s { open spec fn obeys_eq_spec() -> bool { true } open spec fn eq_spec(&self, other: &%s) -> bool { *self == *other } }\nimpl PartialEq for %s { #[verifier::external_body] fn eq(&self, other: &%s) -> bool { unimplemented!() } }' % (nm, nm, nm, nm))
            info['rewrites'].append({'rule': 'R3', 'from': '#[derive(%s)]' % ', '.join(traits), 'to': 'trusted structural impls of ' + ', '.join(t for t in traits if t in ('Clone', 'PartialEq')), 'count': 1})
        return '\n'.join(ex.attrs + [text]) + extra, info
    s2 = Source(text)
    m = next(s2.find_code(r'\bfn\s+%s\b' % re.escape(ex.name)), None)
    if m is None:
        raise LostAnchor('fn %s vanished after rewrite' % ex.name)
    bo = s2.body_open(m.end())
    if bo < 0:
        raise LostAnchor('fn %s has no body' % ex.name)
    bc = s2.match_close(bo)
    inserts = []  # (pos, text, tag)
    # signature
    if ex.sig is not None:
        ret, ctext = ex.sig
        if mode == 'twin':
            if re.search(r'^\s*ensures\b', ctext, flags=re.M):
                ctext = re.sub(r'^(\s*)ensures\b', r'\1ensures false,', ctext, count=1, flags=re.M)
            elif re.search(r'^\s*decreases\b', ctext, flags=re.M):
                ctext = re.sub(r'^(\s*)decreases\b', r'\1ensures false,\n\1decreases', ctext, count=1, flags=re.M)
            else:
                ctext = ctext + '\n    ensures false,'
        # parameter list: first '(' after the name (generics contain no parens here)
        po = text.find('(', m.end())
        if po < 0 or po > bo:
            raise LostAnchor('fn %s: no parameter list' % ex.name)
        pc = s2.match_close(po)
        am = re.match(r'\s*->', text[pc + 1:bo])
        arrow = pc + 1 + am.end() - 2 if am else None
        if arrow is not None and ret:
            wm = re.search(r'\bwhere\b', text[arrow:bo])
            tend = arrow + wm.start() if wm else bo
            rtype = text[arrow + 2:tend].strip()
            inserts.append((arrow, tend, '-> (%s: %s)\n' % (ret, rtype) + ('' if not wm else '')))
            inserts.append((bo, bo, '\n' + ctext + '\n'))
        else:
            inserts.append((bo, bo, '\n' + ctext + '\n'))
        info['spliced'].append('sig')
    # loops
    if ex.loops:
        lp = _loops(s2, bo + 1, bc)
        for k, ltext in ex.loops.items():
            if k >= len(lp):
                if lenient:
                    info['dropped'].append('loop %d' % k)
                    continue
                raise LostAnchor('%s: loop %d not found (have %d)' % (ex.name, k, len(lp)))
            inserts.append((lp[k], lp[k], '\n' + ltext + '\n'))
            info['spliced'].append('loop %d' % k)
    if lenient == 'nohints' and info['dropped']:
        pass
    for where, nth, lit, itext, how in (ex.inserts if lenient != 'nohints' else []):
      try:
        if how == 'lit':
            pos = _find_nth(text, lit, nth, ex.name)
            if not (bo < pos < bc):
                raise LostAnchor('%s: anchor outside body: %r' % (ex.name, lit))
            p = pos if where == 'before' else pos + len(lit)
        elif how == 'tail':
            p = _tail_start(s2, bo, bc, ex.name)
        else:
            a, b = _stmt_span(s2, bo, bc, lit, nth, ex.name)
            p = a if where == 'before' else b
        inserts.append((p, p, '\n' + itext + '\n'))
        info['spliced'].append('%s %s %r' % (where, how, lit))
      except LostAnchor:
        if not lenient:
            raise
        info['dropped'].append('%s %s %r' % (where, how, lit))
    # twin rename
    if mode == 'twin':
        nm_end = m.end()
        inserts.append((nm_end, nm_end, '__vac'))
    if ex.stub:
        # assumed contract: the body is dropped (listed as trusted external_body)
        inserts.append((bo, bc + 1, '{ unimplemented!() }'))
        ex.attrs = [a for a in ex.attrs if 'external_body' not in a] + ['#[verifier::external_body]']
        info['rewrites'].append({'rule': 'STUB', 'from': 'body of ' + ex.name, 'to': 'unimplemented!() (contract assumed, not proved)', 'count': 1})
    out = text
    for a, b, t in sorted(inserts, key=lambda x: (x[0], x[1]), reverse=True):
        out = out[:a] + t + out[b:]
    if canary is not None:
        for _, frm, to in [c for c in ex.canaries if c[0] == canary]:
            if out.count(frm) < 1:
                raise LostAnchor('%s: canary pattern not found: %r' % (ex.name, frm))
            out = out.replace(frm, to, 1)
    return '\n'.join(ex.attrs + [out]), info


def generate(unit, mode=None, canary=None, lenient=False, drop_hints_for=(), extra_fns=()):
    """Render units/<unit>.rs.  Returns dict(text, regions, items, notes, canaries, has_requires)."""
    gen_py = os.path.join(VERIF, 'units', unit + '.py')
    if os.path.exists(gen_py):
        # data-driven unit: a generator that reads /repo and emits obligations
        import importlib.util
        spec = importlib.util.spec_from_file_location('unit_' + unit, gen_py)
        mod = importlib.util.module_from_spec(spec)
        spec.loader.exec_module(mod)
        return mod.render(mode=mode, canary=canary)
    tpl = os.path.join(VERIF, 'units', unit + '.rs')
    return generate_tpl(tpl, unit, mode, canary, lenient, drop_hints_for, extra_fns)


def generate_from_text(unit, text, mode=None, canary=None):
    """Template text produced by a data-driven unit (with the extracted statements already filled in)."""
    d = os.path.join(VERIF, 'build')
    os.makedirs(d, exist_ok=True)
    # main run, vacuity twin and canaries are generated by parallel threads: each gets a template file of its own
    # (a shared file was truncated by one thread while another parsed it: empty output, a spurious 'undecided')
    import threading
    import uuid
    tpl = os.path.join(d, '_tpl_%s_%d_%d_%s.rs' % (unit, os.getpid(), threading.get_ident(), uuid.uuid4().hex[:8]))
    with open(tpl, 'w') as f:
        f.write(text)
    try:
        return generate_tpl(tpl, unit, mode, None, False, (), ())
    finally:
        try:
            os.remove(tpl)
        except OSError:
            pass


def generate_tpl(tpl, unit, mode=None, canary=None, lenient=False, drop_hints_for=(), extra_fns=()):
    nodes = parse_template(tpl)
    if extra_fns:
        # helper functions the extracted code calls but the template does not know (e.g. introduced by a refactoring):
        # cut them out of the same source file and verify them too, without a contract (so they must be safe for every input)
        idx = None
        for i in range(len(nodes) - 1, 0, -1):
            if nodes[i][0] == 'text' and nodes[i][1].strip() == 'fn main() {}':
                for j in range(i - 1, -1, -1):
                    if nodes[j][0] == 'text' and nodes[j][1].strip() == '}':
                        idx = j
                        break
                break
        if idx is not None:
            extras = []
            for name, path in extra_fns:
                ex = Extracted()
                ty = None
                if '::' in name:
                    ty, name = name.split('::', 1)
                ex.kind, ex.name, ex.path, ex.impl, ex.nth, ex.tpl_line = 'fn', name, path, ty, 0, 0
                ex.generic = True
                # no termination claim for a helper nobody wrote a measure for (its loops and recursion are otherwise rejected outright)
                ex.attrs.append('#[verifier::exec_allows_no_decreases_clause]')
                extras.append(('note', 'auto-extracted helper %s%s (called by extracted code, not named in the template): verified without a contract and without a termination measure' % ((ty + '::') if ty else '', name)))
                if ty:
                    extras.append(('text', 'impl %s {' % ty))
                extras.append(('extract', ex))
                if ty:
                    extras.append(('text', '}'))
            nodes = nodes[:idx] + extras + nodes[idx:]
    out_lines = []
    regions = []  # (first_line, last_line, kind, name)
    items = []
    notes = []
    canaries = []
    twins = []

    def emit(text, kind, name):
        first = len(out_lines) + 1
        out_lines.extend(text.split('\n'))
        regions.append((first, len(out_lines), kind, name))

    def walk(nodes, origin):
        for kind, val in nodes:
            if kind == 'text':
                out_lines.append(val)
            elif kind == 'note':
                notes.append(val)
            elif kind == 'include':
                p = os.path.join(VERIF, val)
                first = len(out_lines) + 1
                walk(parse_template(p), val)
                regions.append((first, len(out_lines), 'include', val))
            else:
                ex = val
                use = lenient
                qual0 = (ex.impl.split()[-1] + '::' if ex.impl else '') + ex.name
                if qual0 in drop_hints_for:
                    use = 'nohints'
                elif lenient == 'nohints':
                    try:
                        render_extract(ex, None, canary, False)
                        use = False          # this function still fits its hints: keep them
                    except LostAnchor:
                        use = 'nohints'
                text, info = render_extract(ex, None, canary, use)
                if use == 'nohints':
                    info['dropped'].append('all proof hints of this function')
                qual = (ex.impl.split()[-1] + '::' if ex.impl else '') + ex.name
                emit(text, 'extract', qual)
                items.append(info)
                for c in ex.canaries:
                    canaries.append((c[0], qual))
                if mode == 'twin' and ex.kind == 'fn' and not ex.stub and ex.sig is not None and re.search(r'^\s*requires\b', ex.sig[1], flags=re.M):
                    ttext, _ = render_extract(ex, 'twin', None)
                    emit(ttext, 'twin', qual + '__vac')
                    twins.append(qual + '__vac')
    walk(nodes, unit)
    return {'text': '\n'.join(out_lines) + '\n', 'regions': regions, 'items': items,
            'notes': notes, 'canaries': canaries, 'twins': twins}
