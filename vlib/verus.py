"""Run Verus on a generated unit and turn its output into named obligations."""
import json
import os
import re
import subprocess
import time

from . import unitgen
from .rustlex import LostAnchor

VERIF = unitgen.VERIF
BUILD = os.path.join(VERIF, 'build')

# message -> (kind, semantic?)   semantic == a contract clause was refuted
SEMANTIC = [
    ('postcondition not satisfied', 'ensures'),
    ('precondition not satisfied', 'requires'),
    ('invariant not satisfied', 'invariant'),
    ('assertion failed', 'assert'),
    ('requires not satisfied', 'assert'),
    ('possible arithmetic underflow/overflow', 'overflow'),
    ('possible division by zero', 'div0'),
    ('possible bit shift underflow/overflow', 'overflow'),
    ('decreases not satisfied', 'decreases'),
    ('unreachable', 'unreachable'),
    ('recommendation not met', None),  # ignore (notes)
    ('assert_by_compute', 'assert'),
    ('expression simplifies to false', 'assert'),
    ('assertion failed', 'assert'),
    ('could not show termination', 'decreases'),
    ('loop invariant', 'invariant'),
    ('bitvector', 'assert'),
]
UNDECIDED = ['Resource limit', 'rlimit', 'timed out', 'solver']


class UnitResult:
    def __init__(self, unit):
        self.unit = unit
        self.status = None  # 'ok' | 'fail' | 'undecided'
        self.reason = ''
        self.functions = {}  # name -> {'mode','success','time_us','rlimit'}
        self.failures = []  # dict(obligation, kind, fn, line, msg, region_kind, text)
        self.undecided = []  # strings
        self.verified = 0
        self.errors = 0
        self.time_ms = {}
        self.gen = None
        self.stderr = ''
        self.path = ''
        self.wall = 0.0


def _fn_at(lines, ln):
    """Name of the fn enclosing generated line ln (scan backwards)."""
    for i in range(ln - 1, -1, -1):
        m = re.match(r'\s*(?:pub(?:\([a-z]+\))?\s+)?(?:open |closed |broadcast |uninterp )*(?:spec|proof|exec|axiom)?\s*(?:const\s+)?fn\s+([A-Za-z_0-9]+)', lines[i])
        if m:
            return m.group(1)
    return '?'


def _region_at(gen, ln):
    best = None
    for first, last, kind, name in gen['regions']:
        if first <= ln <= last and kind != 'include':
            best = (kind, name, first)
    return best


def parse_errors(stderr, gen, fname):
    lines = gen['text'].split('\n')
    out, und = [], []
    blocks = re.split(r'\n(?=error|warning|note)', stderr)
    for b in blocks:
        if not b.startswith('error'):
            continue
        head = b.split('\n', 1)[0]
        if 'aborting due to' in head:
            continue
        m = re.search(r'--> .*?:(\d+):(\d+)', b)
        ln = int(m.group(1)) if m else 0
        kind = None
        for pat, k in SEMANTIC:
            if pat in head:
                kind = k
                break
        if any(u in head for u in UNDECIDED) and kind is None:
            und.append(head + (' @gen:%d (%s)' % (ln, _fn_at(lines, ln)) if ln else ''))
            continue
        if kind is None:
            reg = _region_at(gen, ln)
            if reg and reg[0] == 'extract':
                gen.setdefault('compile_error_fns', set()).add(reg[1])
                mm = re.search(r'cannot find function `([A-Za-z_0-9]+)` in this scope', head)
                if mm:
                    src = None
                    for it in gen.get('items', []):
                        if it.get('item', '').split()[-1].split('::')[-1] == reg[1].split('::')[-1]:
                            src = it.get('file')
                    if src:
                        gen.setdefault('missing_fns', set()).add((mm.group(1), src))
                mm = re.search(r'no method named `([A-Za-z_0-9]+)` found for (?:reference `&(?:mut )?|struct `|enum `)(?:[a-z_]+::)*([A-Za-z_0-9]+)', head)
                if mm:
                    src = None
                    for it in gen.get('items', []):
                        if it.get('item', '').split()[-1].split('::')[-1] == reg[1].split('::')[-1]:
                            src = it.get('file')
                    if src:
                        gen.setdefault('missing_fns', set()).add((mm.group(2) + '::' + mm.group(1), src))
            und.append('verifier/compile error: ' + head + (' @gen:%d: %s' % (ln, lines[ln - 1].strip() if 0 < ln <= len(lines) else '')))
            continue
        reg = _region_at(gen, ln)
        fn = _fn_at(lines, ln)
        # find the enclosing extracted function by region when possible
        region_kind = reg[0] if reg else 'template'
        name = reg[1] if reg else fn
        # which clause text
        clause = lines[ln - 1].strip() if 0 < ln <= len(lines) else ''
        # secondary span (e.g. the failed requires at a call site)
        sec = re.findall(r'\n\s*(\d+)\s*\|\s*(.*?)\n[ |]*[-^]+ (failed[^\n]*|at [^\n]*)', b)
        out.append({
            'obligation': '%s/%s/%s' % (gen['unit'], name, kind),
            'kind': kind, 'fn': name, 'line': ln, 'msg': head, 'region': region_kind,
            'clause': clause, 'detail': b[:2000],
        })
    return out, und


def run_unit(unit, mode=None, canary=None, rlimit=30, threads=8, lenient=False, drop_hints_for=(), extra_fns=()):
    res = UnitResult(unit)
    t0 = time.time()
    try:
        gen = unitgen.generate(unit, mode=mode, canary=canary, lenient=lenient, drop_hints_for=drop_hints_for, extra_fns=extra_fns)
    except (LostAnchor, unitgen.TemplateError) as e:
        res.status = 'undecided'
        res.reason = 'lost anchor: %s' % e
        res.wall = time.time() - t0
        return res
    gen['unit'] = unit
    res.gen = gen
    os.makedirs(BUILD, exist_ok=True)
    suffix = ('__' + mode if mode else '') + ('__canary_' + canary if canary else '') + ('__lenient' if lenient is True else ('__nohints' if lenient else '')) + ('__drop' if drop_hints_for else '') + ('__extra' if extra_fns else '')
    path = os.path.join(BUILD, unit + suffix + '.rs')
    with open(path, 'w') as f:
        f.write(gen['text'])
    res.path = path
    cmd = ['verus', path, '--output-json', '--time', '--multiple-errors', '8', '--rlimit', str(rlimit),
           '--num-threads', str(threads), '--no-report-long-running']
    res.cmd = ' '.join(cmd)
    try:
        p = subprocess.run(cmd, capture_output=True, text=True, timeout=900, cwd=BUILD)
    except subprocess.TimeoutExpired:
        res.status = 'undecided'
        res.reason = 'verus timeout'
        res.wall = time.time() - t0
        return res
    res.stderr = p.stderr
    try:
        js = json.loads(p.stdout[p.stdout.index('{'):])
    except Exception:
        res.status = 'undecided'
        res.reason = 'verus produced no json: ' + (p.stderr[-1500:] or p.stdout[-500:])
        res.wall = time.time() - t0
        return res
    vr = js.get('verification-results', {})
    res.verified = vr.get('verified', 0)
    res.errors = vr.get('errors', 0)
    tm = js.get('times-ms', {})
    res.time_ms = {'total': tm.get('total'), 'smt_run': tm.get('smt', {}).get('smt-run'),
                   'rlimit_run': tm.get('smt', {}).get('rlimit-run')}
    for mod in tm.get('smt', {}).get('smt-run-module-times', []):
        for fb in mod.get('function-breakdown', []):
            nm = fb['function'].split('::', 1)[1] if '::' in fb['function'] else fb['function']
            res.functions[nm] = {'mode': fb.get('mode:'), 'success': fb.get('success'),
                                 'time_us': fb.get('time-micros'), 'rlimit': fb.get('rlimit')}
    fails, und = parse_errors(p.stderr, gen, path)
    res.failures = fails
    res.undecided = und
    if (vr.get('encountered-vir-error') and not fails) or (vr.get('encountered-error') and not fails and not und):
        und.append('verus error: ' + p.stderr[-1500:])
    if und:
        res.status = 'undecided'
        res.reason = '; '.join(und)[:3000]
    elif fails or not vr.get('success'):
        res.status = 'fail'
    else:
        res.status = 'ok'
    res.wall = time.time() - t0
    return res


def trusted_scan(text):
    """Mechanical scan for everything that is assumed rather than proved."""
    found = []
    pats = [r'\bassume\s*\(', r'\badmit\s*\(', r'external_body', r'assume_specification', r'\baxiom\b',
            r'verifier::truncate', r'verifier::external\b', r'\buninterp\b']
    lines = text.split('\n')
    for i, l in enumerate(lines):
        for p in pats:
            if re.search(p, l) and not l.strip().startswith('//'):
                # name the item: this or one of the next lines with fn/struct
                nm = ''
                for j in range(i, min(i + 6, len(lines))):
                    m = re.search(r'\b(fn|struct|enum|type)\s+([A-Za-z_0-9]+)', lines[j])
                    if m:
                        nm = m.group(2)
                        break
                    m = re.search(r'assume_specification.*?\[(.*?)\]', lines[j])
                    if m:
                        nm = m.group(1)
                        break
                found.append('%s: %s' % (re.sub(r'\\[bs]\*?|\\\(|\\', '', p), nm or l.strip()[:60]))
                break
    # dedupe, keep order
    seen, out = set(), []
    for f in found:
        if f not in seen:
            seen.add(f)
            out.append(f)
    return out
