"""Minimal Rust lexer used by the extractor.

It does not parse Rust.  It classifies every character of a source file as
code / comment / string so that brace matching and keyword search are not
fooled by literals, and it finds items by name.  Anything it cannot find raises
LostAnchor, which the driver turns into exit 2 ("undecided"), never a
violation.
"""
import re


class LostAnchor(Exception):
    pass


CODE, COMMENT, STRING = 0, 1, 2


def classify(text):
    """Return a bytearray the length of text: CODE / COMMENT / STRING per char."""
    n = len(text)
    cls = bytearray(n)
    i = 0
    while i < n:
        c = text[i]
        if c == '/' and i + 1 < n and text[i + 1] == '/':
            j = text.find('\n', i)
            if j < 0:
                j = n
            for k in range(i, j):
                cls[k] = COMMENT
            i = j
        elif c == '/' and i + 1 < n and text[i + 1] == '*':
            depth = 1
            j = i + 2
            while j < n and depth > 0:
                if text.startswith('/*', j):
                    depth += 1
                    j += 2
                elif text.startswith('*/', j):
                    depth -= 1
                    j += 2
                else:
                    j += 1
            for k in range(i, j):
                cls[k] = COMMENT
            i = j
        elif c == '"' or (c in 'br' and re.match(r'(b?r#*"|b")', text[i:i + 8]) and (i == 0 or not (text[i - 1].isalnum() or text[i - 1] == '_'))):
            m = re.match(r'b?r(#*)"', text[i:i + 40])
            if m:
                hashes = m.group(1)
                end = text.find('"' + hashes, i + len(m.group(0)))
                j = n if end < 0 else end + 1 + len(hashes)
            else:
                j = i + (2 if c == 'b' else 1)
                while j < n and text[j] != '"':
                    if text[j] == '\\':
                        j += 1
                    j += 1
                j += 1
            for k in range(i, min(j, n)):
                cls[k] = STRING
            i = j
        elif c == "'" or (c == 'b' and i + 1 < n and text[i + 1] == "'" and (i == 0 or not (text[i - 1].isalnum() or text[i - 1] == '_'))):
            s = i + (1 if c == 'b' else 0)
            # char literal or lifetime
            m = re.match(r"'(\\x[0-9a-fA-F]{2}|\\u\{[0-9a-fA-F]+\}|\\.|[^\\'])'", text[s:s + 14])
            if m:
                j = s + len(m.group(0))
                for k in range(i, j):
                    cls[k] = STRING
                i = j
            else:
                i = s + 1  # lifetime tick
        else:
            i += 1
    return cls


class Source:
    def __init__(self, text):
        self.text = text
        self.cls = classify(text)

    def is_code(self, i):
        return self.cls[i] == CODE

    def match_close(self, i):
        """text[i] is an opening bracket in code; return index of its match."""
        opener = self.text[i]
        closer = {'{': '}', '(': ')', '[': ']'}[opener]
        depth = 0
        t, cls = self.text, self.cls
        for j in range(i, len(t)):
            if cls[j] != CODE:
                continue
            if t[j] == opener:
                depth += 1
            elif t[j] == closer:
                depth -= 1
                if depth == 0:
                    return j
        raise LostAnchor('unbalanced %s at %d' % (opener, i))

    def find_code(self, pattern, start=0, end=None):
        """Iterate regex matches that begin in code."""
        end = len(self.text) if end is None else end
        for m in re.finditer(pattern, self.text[:end]):
            if m.start() >= start and self.cls[m.start()] == CODE:
                yield m

    def body_open(self, start, end=None):
        """First '{' in code at paren/bracket/angle-free depth 0 after start."""
        t, cls = self.text, self.cls
        end = len(t) if end is None else end
        depth = 0
        j = start
        while j < end:
            if cls[j] == CODE:
                ch = t[j]
                if ch in '([':
                    depth += 1
                elif ch in ')]':
                    depth -= 1
                elif ch == '{' and depth == 0:
                    return j
                elif ch == ';' and depth == 0:
                    return -1
            j += 1
        return -1

    def item_start(self, i):
        """Extend i backwards over attributes and doc comments directly above."""
        t = self.text
        line_start = t.rfind('\n', 0, i) + 1
        start = line_start
        while start > 0:
            prev_end = start - 1
            prev_start = t.rfind('\n', 0, prev_end) + 1
            line = t[prev_start:prev_end].strip()
            if line.startswith('#[') or line.startswith('///') or line.startswith('//!'):
                start = prev_start
            else:
                break
        return start, line_start


ITEM_RE = {
    'fn': r'(?:pub(?:\([a-z]+\))?\s+)?(?:const\s+)?fn\s+%s\b',
    'struct': r'(?:pub(?:\([a-z]+\))?\s+)?struct\s+%s\b',
    'enum': r'(?:pub(?:\([a-z]+\))?\s+)?enum\s+%s\b',
    'const': r'(?:pub(?:\([a-z]+\))?\s+)?const\s+%s\b',
    'static': r'(?:pub(?:\([a-z]+\))?\s+)?static\s+(?:ref\s+)?(?:mut\s+)?%s\b',
    'type': r'(?:pub(?:\([a-z]+\))?\s+)?type\s+%s\b',
}


def depth_at(src, pos, lo=0):
    d = 0
    t, cls = src.text, src.cls
    for j in range(lo, pos):
        if cls[j] == CODE:
            if t[j] == '{':
                d += 1
            elif t[j] == '}':
                d -= 1
    return d


def find_impl_block(src, header):
    """header: e.g. 'Srcloc' (inherent impl) or 'Display for Srcloc'.
    Returns list of (open, close) of all matching impl blocks."""
    out = []
    pat = r'\bimpl\b(?:\s*<[^{>]*>)?\s+' + re.escape(header).replace(r'\ ', r'\s+') + r'(?:\s*<[^{]*>)?\s*(?:where[^{]*)?\{'
    for m in src.find_code(pat):
        if depth_at(src, m.start()) != 0:
            continue
        o = m.end() - 1
        out.append((o, src.match_close(o)))
    return out


def find_item(src, kind, name, within=None, nth=0):
    """Return (start, end, sig_start) of the item's text.  `within`: (open, close)
    region of an impl block, in which case depth is 1 relative to the file."""
    lo, hi = (within[0] + 1, within[1]) if within else (0, len(src.text))
    want_depth = 1 if within else 0
    pat = ITEM_RE[kind] % re.escape(name)
    hits = []
    for m in src.find_code(pat, lo, hi):
        if m.start() < lo:
            continue
        # must be at item depth (not nested in another fn)
        if depth_at(src, m.start()) != want_depth and not (within is None and kind == 'fn' and False):
            continue
        hits.append(m)
    if len(hits) <= nth:
        raise LostAnchor('%s %s not found' % (kind, name))
    m = hits[nth]
    if kind in ('fn', 'struct', 'enum'):
        o = src.body_open(m.end())
        if o < 0:
            # tuple struct / unit struct / fn declaration: ends at ';'
            e = src.text.find(';', m.end())
            end = e + 1
        else:
            end = src.match_close(o) + 1
    else:
        # const / static / type: up to the ';' at depth 0
        j = m.end()
        d = 0
        t, cls = src.text, src.cls
        while True:
            if j >= len(t):
                raise LostAnchor('unterminated %s %s' % (kind, name))
            if cls[j] == CODE:
                if t[j] in '([{':
                    d += 1
                elif t[j] in ')]}':
                    d -= 1
                elif t[j] == ';' and d == 0:
                    break
            j += 1
        end = j + 1
    start, line_start = src.item_start(m.start())
    return start, end, m.start()
