"""Scratch copy of /repo's working tree for engines that must compile the crate
(Kani, replay).  Lives outside /repo and /verif; rebuilt from /repo on every
call (rsync of the working tree, so local edits are what gets checked); the
cargo target directories inside it are a cache only and may be deleted at any
time (./check clean)."""
import fcntl
import hashlib
import os
import shutil
import subprocess

REPO = os.environ.get('VERIF_REPO', '/repo')
ROOT = os.environ.get('VERIF_SCRATCH', '/root/.cache/clvm-verif')
VERIF = os.path.dirname(os.path.dirname(os.path.abspath(__file__)))


class Lock:
    def __init__(self, name):
        os.makedirs(ROOT, exist_ok=True)
        self.path = os.path.join(ROOT, name + '.lock')

    def __enter__(self):
        self.f = open(self.path, 'w')
        fcntl.flock(self.f, fcntl.LOCK_EX)
        return self

    def __exit__(self, *a):
        fcntl.flock(self.f, fcntl.LOCK_UN)
        self.f.close()


def sync(name, appends):
    """rsync /repo -> ROOT/name.  appends: {relpath: text appended to that file}.
    Files are rewritten only when their content changes so cargo's cache stays valid."""
    dst = os.path.join(ROOT, name)
    os.makedirs(dst, exist_ok=True)
    excl = ['--exclude', '/target', '--exclude', '/.git', '--exclude', '/tmp', '--exclude', '/wasm',
            '--exclude', '/rust-toolchain.toml', '--exclude', '/python', '--exclude', '/.cargo']
    for rel in appends:
        excl += ['--exclude', '/' + rel]
    # content-based: a file is rewritten exactly when its bytes differ, and then gets a fresh mtime, so cargo (which goes by
    # mtime) rebuilds even when the repository was restored with old timestamps; unchanged files keep theirs (cache stays valid)
    subprocess.run(['rsync', '-rlpgoD', '--checksum', '--delete'] + excl + [REPO + '/', dst + '/'], check=True)
    for rel, extra in appends.items():
        with open(os.path.join(REPO, rel)) as f:
            want = f.read() + '\n' + extra
        p = os.path.join(dst, rel)
        have = None
        if os.path.exists(p):
            with open(p) as f:
                have = f.read()
        if have != want:
            with open(p, 'w') as f:
                f.write(want)
    os.makedirs(os.path.join(dst, '.cargo'), exist_ok=True)
    with open(os.path.join(dst, '.cargo', 'config.toml'), 'w') as f:
        f.write('[net]\noffline = true\n')
    # belt and braces against stale builds: remember the content of the tree a build was last asked for; when it differs (or
    # nothing is remembered, e.g. a scratch directory inherited from an older run) the crate root is touched so that cargo,
    # which compares mtimes, recompiles the crate
    h = hashlib.sha256()
    for base, dirs, files in os.walk(dst):
        dirs[:] = sorted(x for x in dirs if x not in ('target', '.git'))
        for fn in sorted(files):
            if fn.endswith(('.rs', '.toml', '.lock')) and fn != '.verif_tree_hash':
                fp = os.path.join(base, fn)
                h.update(os.path.relpath(fp, dst).encode())
                with open(fp, 'rb') as f:
                    h.update(f.read())
    stamp = os.path.join(dst, '.verif_tree_hash')
    have = None
    if os.path.exists(stamp):
        with open(stamp) as f:
            have = f.read().strip()
    if have != h.hexdigest():
        for rel in ('src/lib.rs', 'Cargo.toml'):
            fp = os.path.join(dst, rel)
            if os.path.exists(fp):
                os.utime(fp, None)
        with open(stamp, 'w') as f:
            f.write(h.hexdigest())
    return dst


def clean():
    shutil.rmtree(ROOT, ignore_errors=True)
    return 0
