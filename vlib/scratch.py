"""Scratch copy of /repo's working tree for engines that must compile the crate
(Kani, replay).  Lives outside /repo and /verif; rebuilt from /repo on every
call (rsync of the working tree, so local edits are what gets checked); the
cargo target directories inside it are a cache only and may be deleted at any
time (./check clean)."""
import fcntl
import os
import shutil
import subprocess

REPO = os.environ.get('VERIF_REPO', '/repo')
ROOT = os.environ.get('VERIF_SCRATCH', '/root/.cache/clvm-verif')
VERIF = os.path.dirname(os.path.dirname(os.path.abspath(__file__)))


class Lock:
    def __init__(self, name):
        os.makedirs(ROOT, exist_ok=True)
        self.path = os.path.join(ROOT, name + '.lock')

    def __enter__(self):
        self.f = open(self.path, 'w')
        fcntl.flock(self.f, fcntl.LOCK_EX)
        return self

    def __exit__(self, *a):
        fcntl.flock(self.f, fcntl.LOCK_UN)
        self.f.close()


def sync(name, appends):
    """rsync /repo -> ROOT/name.  appends: {relpath: text appended to that file}.
    Files are rewritten only when their content changes so cargo's cache stays valid."""
    dst = os.path.join(ROOT, name)
    os.makedirs(dst, exist_ok=True)
    excl = ['--exclude', '/target', '--exclude', '/.git', '--exclude', '/tmp', '--exclude', '/wasm',
            '--exclude', '/rust-toolchain.toml', '--exclude', '/python', '--exclude', '/.cargo']
    for rel in appends:
        excl += ['--exclude', '/' + rel]
    # content-based: a file is rewritten exactly when its bytes differ, and then gets a fresh mtime, so cargo (which goes by
    # mtime) rebuilds even when the repository was restored with old timestamps; unchanged files keep theirs (cache stays valid)
    subprocess.run(['rsync', '-rlpgoD', '--checksum', '--delete'] + excl + [REPO + '/', dst + '/'], check=True)
    for rel, extra in appends.items():
        with open(os.path.join(REPO, rel)) as f:
            want = f.read() + '\n' + extra
        p = os.path.join(dst, rel)
        have = None
        if os.path.exists(p):
            with open(p) as f:
                have = f.read()
        if have != want:
            with open(p, 'w') as f:
                f.write(want)
    os.makedirs(os.path.join(dst, '.cargo'), exist_ok=True)
    with open(os.path.join(dst, '.cargo', 'config.toml'), 'w') as f:
        f.write('[net]\noffline = true\n')
    return dst


def clean():
    shutil.rmtree(ROOT, ignore_errors=True)
    return 0
