"""./check <property> --tier quick|thorough : decide one property.

Exit 0: every baseline obligation discharged (known findings printed).
Exit 1: a baseline obligation is refuted -> VIOLATION line.
Exit 2: undecided (lost anchor, rlimit, tool error, vacuity guard) -> no VIOLATION.
"""
import concurrent.futures as cf
import json
import os
import sys
import time

from . import verus, unitgen, props, kani, replay

VERIF = unitgen.VERIF
EVID = os.path.join(VERIF, 'evidence')
REPLAYS = os.path.join(VERIF, 'replays')


def load_json(name, default):
    p = os.path.join(VERIF, name)
    if os.path.exists(p):
        with open(p) as f:
            return json.load(f)
    return default


def run_units(units, tier):
    """Run main + twin + canaries of each unit in parallel."""
    jobs = {}
    with cf.ThreadPoolExecutor(max_workers=8) as ex:
        for u in units:
            jobs[(u, 'main')] = ex.submit(verus.run_unit, u, None, None, 30 if tier == 'quick' else 60, 4)
            jobs[(u, 'twin')] = ex.submit(verus.run_unit, u, 'twin', None, 30, 2)
            try:
                gen = unitgen.generate(u)
                for cname, fn in gen['canaries']:
                    jobs[(u, 'canary:' + cname)] = ex.submit(verus.run_unit, u, None, cname, 30, 2)
            except Exception:
                pass
        res = {k: v.result() for k, v in jobs.items()}
    # a unit whose hints / rewrites no longer fit the (rewritten) function is retried with the
    # unplaceable ghost text dropped: same contract, same real text, fewer hints
    for u in units:
        m = res[(u, 'main')]
        if m.status != 'undecided':
            continue
        first_reason = m.reason
        lenient, drop, extra = False, (), ()
        cur = m
        for _attempt in range(4):
            if cur.status != 'undecided':
                break
            if cur.gen is None:
                if cur.reason.startswith('lost anchor') and lenient is False:
                    lenient = True
                elif cur.reason.startswith('lost anchor') and lenient is True:
                    lenient = 'nohints'
                else:
                    break
            elif cur.gen.get('missing_fns') and not set(cur.gen['missing_fns']) <= set(extra):
                # the extracted code calls a helper the template does not name: cut it out of the same file and verify it too
                extra = tuple(sorted(set(extra) | set(cur.gen['missing_fns'])))
            elif cur.gen.get('compile_error_fns') and not set(cur.gen['compile_error_fns']) <= set(drop):
                # a spliced hint no longer type-checks against the rewritten function: drop that function's hints
                drop = tuple(sorted(set(drop) | set(cur.gen['compile_error_fns'])))
                lenient = lenient or True
            elif 'compile error' in cur.reason and lenient != 'nohints':
                lenient = 'nohints'
            else:
                break
            cur = verus.run_unit(u, None, None, 30, 4, lenient, drop, extra)
        if cur is not m and cur.gen is not None:
            cur.lenient = bool(lenient)
            cur.strict_reason = first_reason[:300]
            if extra:
                cur.auto_extracted = list(extra)
            res[(u, 'main')] = cur
    return res


def decide(pid, tier, seed):
    t0 = time.time()
    replay.TIER = tier
    cfg = props.PROPS[pid]
    baseline = load_json('baseline_obligations.json', {})
    findings = load_json('known_findings.json', {'findings': []})['findings']
    open_findings = [f for f in findings if f.get('status') == 'open' and f.get('property') == pid]

    results = run_units(cfg.get('units', []), tier)
    out_lines = []
    obligations = []   # dict(name, engine, status, detail)
    violations = []    # dict(obligation, ...)
    undecided = []
    known_hits = []
    vacuity = []
    items = []
    rewrites = []
    trusted = []
    notes = []
    per_fn_time = {}
    cmds = []

    for u in cfg.get('units', []):
        main = results[(u, 'main')]
        cmds.append(getattr(main, 'cmd', 'verus build/%s.rs' % u))
        base = baseline.get('verus', {}).get(u)
        if main.status == 'undecided':
            undecided.append('%s: %s' % (u, main.reason))
            continue
        gen = main.gen
        lenient = getattr(main, 'lenient', False)
        if lenient:
            dropped = ['%s: %s' % (it['item'], d) for it in gen['items'] for d in it.get('dropped', [])]
            notes.append('unit %s: function text changed shape (%s); re-run with unplaceable hints dropped: %s' % (u, main.strict_reason, '; '.join(dropped)))
        items.extend(gen['items'])
        notes.extend(gen['notes'])
        for it in gen['items']:
            for rw in it['rewrites']:
                rewrites.append('%s: %s %r -> %r (x%d)' % (it['item'], rw['rule'], rw['from'][:60], rw['to'][:60], rw['count']))
        for tb in verus.trusted_scan(gen['text']):
            if tb not in trusted:
                trusted.append(tb)
        # failures grouped by function
        fails_by_fn = {}
        for f in main.failures:
            fails_by_fn.setdefault(f['fn'], []).append(f)
        names = sorted(main.functions)
        if base is None:
            undecided.append('%s: no baseline recorded (run ./check baseline)' % u)
            base = []
        for fn in names:
            info = main.functions[fn]
            per_fn_time['%s/%s' % (u, fn)] = {'time_us': info['time_us'], 'rlimit': info['rlimit'], 'mode': info['mode']}
            ob = {'name': '%s/%s' % (u, fn), 'engine': 'verus', 'status': 'discharged' if info['success'] else 'failed'}
            obligations.append(ob)
        for fn in base:
            if fn not in main.functions and (main.functions or not main.failures):
                undecided.append('%s/%s: baseline obligation no longer generated' % (u, fn))
        for f in main.failures:
            fnshort = f['fn'].split('::')[-1]
            in_base = any(b == f['fn'] or b.split('::')[-1] == fnshort for b in base)
            tag = None
            for of in open_findings:
                if of.get('clause_tag') and ('FINDING:' + of['id']) in f['clause']:
                    tag = of
            if tag is not None:
                known_hits.append((tag, f))
                continue
            if not in_base:
                undecided.append('%s: failure in a function outside the baseline: %s' % (f['obligation'], f['msg']))
                continue
            if f['kind'] == 'assert' and f['region'] == 'extract':
                f['scaffolding'] = True
            if lenient:
                # hints were dropped: a failed clause may be a lost proof, so it needs a reproducing input
                f['scaffolding'] = True
            violations.append(f)
        # a function reported unsuccessful without a parsed error
        for fn, info in main.functions.items():
            if not info['success'] and not any(f['fn'].split('::')[-1] == fn.split('::')[-1] for f in main.failures):
                undecided.append('%s/%s: verifier reported failure without a classified error' % (u, fn))
        # vacuity: twins must fail
        twin = results[(u, 'twin')]
        if twin.status == 'undecided':
            undecided.append('%s twin: %s' % (u, twin.reason))
        else:
            for tname in twin.gen['twins']:
                short = tname.split('::')[-1]
                st = [v for k, v in twin.functions.items() if k.split('::')[-1] == short]
                ok = bool(st) and not st[0]['success']
                vacuity.append({'twin': '%s/%s' % (u, tname), 'rejected': ok})
                if not ok and main.status == 'ok' and not lenient:
                    undecided.append('%s/%s: precondition twin with `ensures false` verified: contract is vacuous' % (u, tname))
        for (uu, kind), r in results.items():
            if uu == u and kind.startswith('canary:'):
                rejected = r.status == 'fail'
                vacuity.append({'canary': '%s/%s' % (u, kind[7:]), 'rejected': rejected,
                                'by': [f['obligation'] for f in r.failures][:3]})
                if not rejected and main.status == 'ok' and not lenient:
                    undecided.append('%s canary %s not rejected (%s %s)' % (u, kind[7:], r.status, r.reason[:200]))

    # Kani harness sets
    kres = None
    kwanted = [h for h in cfg.get('kani', []) if tier == 'thorough' or h.get('tier', 'quick') == 'quick']
    bounded = []
    if kwanted:
        kres = kani.run_harnesses(kwanted)
        cmds.append(kres.get('cmd', 'cargo kani'))
        if kres.get('error'):
            undecided.append('kani: ' + kres['error'])
        for h in kwanted:
            r = kres['harness'].get(h['name'])
            if r is None:
                continue
            per_fn_time['kani/' + h['name']] = {'time_s': r.get('time_s')}
            complete = h.get('complete', False)
            name = 'kani/%s' % h['name']
            if r['status'] == 'success':
                if complete:
                    obligations.append({'name': name, 'engine': 'kani(complete)', 'status': 'discharged'})
                else:
                    bounded.append({'name': name, 'bound': h.get('bound', ''), 'status': 'held'})
            elif r['status'] == 'failed':
                f = {'obligation': name, 'kind': 'kani-assert', 'fn': h['name'], 'msg': '; '.join(r.get('failed_checks', []))[:600],
                     'clause': h.get('claim', ''), 'detail': r.get('tail', ''), 'region': 'kani', 'cex': r.get('cex'), 'cex_vals': r.get('cex_vals')}
                fk = [of for of in open_findings if of.get('harness') == h['name']]
                if fk:
                    known_hits.append((fk[0], f))
                else:
                    if complete:
                        obligations.append({'name': name, 'engine': 'kani(complete)', 'status': 'failed'})
                    else:
                        bounded.append({'name': name, 'bound': h.get('bound', ''), 'status': 'failed'})
                    violations.append(f)
            else:
                undecided.append('%s: %s' % (name, r.get('reason', r['status'])))

    # mechanical frame / data checks declared for the property
    for chk in cfg.get('mechanical', []):
        ok, detail = chk['fn']()
        name = 'mech/%s' % chk['name']
        if ok is None:
            undecided.append('%s: %s' % (name, detail))
        else:
            obligations.append({'name': name, 'engine': 'mechanical-scan', 'status': 'discharged' if ok else 'failed'})
            if not ok:
                violations.append({'obligation': name, 'kind': 'frame', 'fn': chk['name'], 'msg': detail, 'clause': chk.get('claim', ''), 'detail': detail, 'region': 'mechanical'})

    # ---- verdict
    exit_code = 0
    # known findings: must re-confirm on the real code
    for of, f in [kh for kh in known_hits if not kh[0].get('e3')]:
        conf = replay.confirm_finding(of)
        if conf.get('confirmed'):
            out_lines.append('KNOWN-FINDING: property=%s %s' % (pid, of['what']))
        else:
            undecided.append('finding %s: recorded input no longer reproduces (%s) but obligation %s still fails' % (of['id'], conf.get('why', ''), f['obligation']))
    e3_known = {}
    for of in open_findings:
        if of.get('e3'):
            conf = replay.confirm_finding(of)
            if conf.get('confirmed'):
                out_lines.append('KNOWN-FINDING: property=%s %s' % (pid, of['what']))
                known_hits.append((of, {'obligation': 'e3/' + of['e3']}))
            else:
                notes.append('known finding %s no longer reproduces on this tree (%s)' % (of['id'], conf.get('why', '')))
            for inp in of.get('inputs', [of['input']]):
                e3_known.setdefault(of['e3'], []).append(inp)
    real_violations = []
    for f in violations:
        # every recorded input of this property's open findings is skipped whatever search the function name maps to
        rp = replay.search(pid, f, seed, skip=[i for v in e3_known.values() for i in v] or None)
        if f.get('scaffolding') and not rp.get('found'):
            undecided.append('%s: proof hint no longer fits (%s) and no failing input found' % (f['obligation'], f['clause'][:80]))
            continue
        f['replay'] = rp
        real_violations.append(f)
    for name in cfg.get('e3_always', []):
        # bounded stand-in for a function that is outside the verifiers' reach: labelled bounded, never counted as proved
        rp = replay.search(pid, {'fn': name}, seed, skip=e3_known.get(name))
        if rp.get('error'):
            undecided.append('bounded stand-in e3/%s did not run: %s' % (name, rp.get('how', '')[-400:]))
            continue
        bounded.append({'name': 'e3/' + name, 'bound': rp.get('how', 'enumerator (see replay/src/searches.rs)') if not rp.get('found') else 'enumerator', 'status': 'failed' if rp.get('found') else 'held'})
        if rp.get('found'):
            real_violations.append({'obligation': 'e3/%s' % name, 'kind': 'bounded-stand-in', 'fn': name,
                                    'clause': 'bounded stand-in for %s' % name, 'detail': rp.get('how', ''), 'msg': rp.get('how', ''), 'replay': rp})
    if undecided and not real_violations:
        # the verifier could not decide: bounded stand-in (E3 enumerators on the real crate); it can only
        # ever add a violation that comes with a reproducing input, never remove an undecided verdict
        for name in cfg.get('e3', []):
            # inputs of recorded open findings are skipped here too (they are reported as KNOWN-FINDING above, never as a new violation)
            rp = replay.search(pid, {'fn': name}, seed, skip=e3_known.get(name))
            bounded.append({'name': 'e3/' + name, 'bound': 'enumerator (see replay/src/searches.rs)', 'status': 'failed' if rp.get('found') else 'held'})
            if rp.get('found'):
                real_violations.append({'obligation': 'e3/%s' % name, 'kind': 'bounded-stand-in', 'fn': name,
                                        'clause': 'contract of %s (verifier undecided: %s)' % (name, undecided[0][:200]),
                                        'detail': 'verifier undecided: ' + ' | '.join(undecided)[:1500], 'msg': rp.get('how', ''), 'replay': rp})
                break
    if real_violations:
        os.makedirs(REPLAYS, exist_ok=True)
        exit_code = 1
        for i, f in enumerate(real_violations):
            path = os.path.join(REPLAYS, '%s_%s_%d.json' % (pid, f['obligation'].replace('/', '_').replace(':', '_'), i))
            rp = f.get('replay') or {}
            with open(path, 'w') as fp:
                json.dump({'property': pid, 'obligation': f['obligation'], 'kind': f['kind'], 'clause': f['clause'],
                           'verifier_output': f['detail'], 'message': f['msg'],
                           'failing_input': rp.get('input'), 'expected': rp.get('expected'), 'observed': rp.get('observed'),
                           'replay_engine': rp.get('engine'), 'reproduced_on_real_code': bool(rp.get('found')),
                           'replay_how': rp.get('how')}, fp, indent=1)
            tail = '' if rp.get('found') else ' no-failing-input-found'
            out_lines.append('VIOLATION property=%s replay=%s obligation=%s%s' % (pid, path, f['obligation'], tail))
    elif undecided:
        exit_code = 2

    n_ob = len(obligations)
    n_dis = len([o for o in obligations if o['status'] == 'discharged'])
    wall = time.time() - t0
    ev = {
        'property_id': pid, 'tier': tier, 'seed': seed, 'level': 'proof',
        'coverage': {
            'obligations': n_ob, 'discharged': n_dis,
            'checker_cmd': ' && '.join(cmds) if cmds else 'none',
            'trusted_base': trusted + cfg.get('trusted_extra', []),
            'exhaustive': False,
            'samples': [o['name'] for o in obligations][:60],
            'obligations_by_engine': {e: len([o for o in obligations if o['engine'] == e]) for e in sorted(set(o['engine'] for o in obligations))},
            'functions_under_contract': [{'item': it['item'], 'file': it['file'], 'line': it['line'], 'sha256': it['sha256'][:16], 'spliced': it['spliced']} for it in items],
            'rewrites_applied': rewrites,
            'bounded_stand_ins_not_counted': bounded,
            'vacuity_guards': vacuity,
            'solver_time': per_fn_time,
            'undecided': undecided,
            'known_findings_reported': [of['id'] for of, _ in known_hits],
            'whole_property_proved': cfg.get('whole', False),
            'decided_part': cfg.get('decided', ''),
            'not_covered': cfg.get('not_covered', []),
            'arithmetic': 'exec integers are machine integers with overflow obligations; num_bigint::BigInt is mathematical by assumption (prelude)',
            'notes': notes,
        },
        'assumptions': cfg.get('assumptions', []) + ['trusted_base entries are assumed, not proved'],
        'wall_s': round(wall, 2),
        'violations': len(real_violations),
    }
    os.makedirs(EVID, exist_ok=True)
    with open(os.path.join(EVID, pid + '.json'), 'w') as fp:
        json.dump(ev, fp, indent=1)
    for l in out_lines:
        print(l)
    print('%s tier=%s obligations=%d discharged=%d bounded=%d undecided=%d violations=%d wall=%.1fs' % (
        pid, tier, n_ob, n_dis, len(bounded), len(undecided), len(real_violations), wall))
    for u in undecided:
        print('UNDECIDED: ' + u[:600])
    return exit_code


def make_baseline():
    """Record the obligations discharged on the current tree (developer action, never at check time)."""
    units = sorted(set(u for c in props.PROPS.values() for u in c.get('units', [])))
    base = {'verus': {}}
    bad = False
    with cf.ThreadPoolExecutor(max_workers=6) as ex:
        rs = {u: ex.submit(verus.run_unit, u, None, None, 30, 4) for u in units}
    for u in units:
        r = rs[u].result()
        if r.status != 'ok':
            print('unit %s is not clean: %s %s' % (u, r.status, r.reason[:1500]))
            for f in r.failures:
                print('   ', f['obligation'], f['msg'], '|', f['clause'])
            bad = True
        base['verus'][u] = sorted(r.functions)
    with open(os.path.join(VERIF, 'baseline_obligations.json'), 'w') as fp:
        json.dump(base, fp, indent=1)
    print('baseline written: %d units, %d obligations' % (len(units), sum(len(v) for v in base['verus'].values())))
    return 1 if bad else 0


def main(argv):
    if len(argv) >= 2 and argv[1] == 'baseline':
        return make_baseline()
    if len(argv) >= 3 and argv[1] == 'replay':
        return replay.replay_file(argv[2])
    if len(argv) >= 2 and argv[1] == 'clean':
        return kani.clean()
    pid = argv[1]
    tier = os.environ.get('VERIF_TIER', 'quick')
    if '--tier' in argv:
        tier = argv[argv.index('--tier') + 1]
    if tier not in ('quick', 'thorough'):
        tier = 'quick'
    seed = int(os.environ.get('VERIF_SEED', '0'))
    if pid not in props.PROPS:
        print('unknown or unclaimed property ' + pid)
        return 2
    return decide(pid, tier, seed)
