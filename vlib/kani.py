"""Kani runner: harness modules from /verif/kani/*.rs are appended (as child
modules, `#[cfg(kani)]`) to the named source file of a scratch copy of /repo;
/repo itself is never touched."""
import glob
import os
import re
import subprocess
import time

from . import scratch

VERIF = scratch.VERIF


def harness_files():
    out = {}
    for p in sorted(glob.glob(os.path.join(VERIF, 'kani', '*.rs'))):
        with open(p) as f:
            text = f.read()
        m = re.search(r'^//@ append-to (\S+)', text, flags=re.M)
        if not m:
            continue
        out.setdefault(m.group(1), []).append(text)
    return {k: '\n'.join(v) for k, v in out.items()}


def parse_output(text):
    """Split cargo-kani output per harness."""
    res = {}
    parts = re.split(r'Checking harness ([A-Za-z0-9_:]+)\.\.\.', text)
    for i in range(1, len(parts), 2):
        name = parts[i].split('::')[-1]
        body = parts[i + 1]
        m = re.search(r'VERIFICATION:- (SUCCESSFUL|FAILED)', body)
        tm = re.search(r'Verification Time: ([0-9.]+)s', body)
        r = {'time_s': float(tm.group(1)) if tm else None, 'tail': body[-3000:]}
        if not m:
            r['status'] = 'undecided'
            r['reason'] = 'no verdict (timeout / out of memory / crash)'
        elif m.group(1) == 'SUCCESSFUL':
            r['status'] = 'success'
        else:
            failed = re.findall(r'Failed Checks: ([^\n]*)', body)
            r['failed_checks'] = failed
            # unwinding assertion failures mean the bound was too small: undecided, not refuted
            if failed and all('unwinding assertion' in f for f in failed):
                r['status'] = 'undecided'
                r['reason'] = 'unwinding bound too small'
            elif any('not supported' in f or 'unsupported' in f.lower() for f in failed):
                r['status'] = 'undecided'
                r['reason'] = 'unsupported construct: ' + '; '.join(failed)[:300]
            else:
                r['status'] = 'failed'
            cex = re.findall(r'(?:concrete_vals|// (?:\d+|0x)[^\n]*)', body)
            pb = re.search(r'Concrete playback unit test for[^\n]*\n```\n(.*?)\n```', body, flags=re.S)
            if pb:
                r['cex'] = pb.group(1)[:3000]
                r['cex_vals'] = re.findall(r'vec!\[([0-9, ]*)\],', pb.group(1))
        res[name] = r
    return res


def run_harnesses(harnesses, timeout=1500):
    """harnesses: list of dict(name=..., complete=bool, ...).  Returns dict."""
    out = {'harness': {}}
    t0 = time.time()
    with scratch.Lock('kani'):
        try:
            dst = scratch.sync('kani', harness_files())
        except Exception as e:
            out['error'] = 'scratch copy failed: %s' % e
            return out
        env = dict(os.environ)
        env['CARGO_NET_OFFLINE'] = 'true'
        env.pop('RUSTUP_TOOLCHAIN', None)
        base = ['cargo', 'kani', '--lib', '-Z', 'function-contracts', '-Z', 'stubbing']
        cmd = base + ['-j', '6', '--output-format', 'terse']
        for h in harnesses:
            cmd += ['--harness', h['name']]
        out['cmd'] = 'cd <scratch copy of /repo + /verif/kani/*.rs> && ' + ' '.join(cmd)
        log = os.path.join(scratch.ROOT, 'kani.log')

        def run(cmd, log, timeout):
            with open(log, 'w') as lf:
                try:
                    p = subprocess.run(cmd, cwd=dst, env=env, stdout=lf, stderr=subprocess.STDOUT, timeout=timeout)
                    rc = p.returncode
                except subprocess.TimeoutExpired:
                    rc = -9
                    subprocess.run("ps -eo pid,comm | awk '$2==\"cbmc\"{print $1}' | xargs -r kill -9", shell=True)
            with open(log, errors='replace') as lf:
                return rc, lf.read()
        rc, text = run(cmd, log, timeout)
        first = parse_output(text)
        failing = [n for n, r in first.items() if r['status'] == 'failed']
        cex_text = ''
        if failing:
            # second pass, failing harnesses only, single job, to obtain Kani's concrete counterexample
            cmd2 = base + ['--output-format', 'regular', '-Z', 'concrete-playback', '--concrete-playback=print']
            for n in failing[:3]:
                cmd2 += ['--harness', n]
            _, cex_text = run(cmd2, os.path.join(scratch.ROOT, 'kani_cex.log'), 600)
    res = first
    if cex_text:
        for n, r2 in parse_output(cex_text).items():
            if n in res and r2.get('cex'):
                res[n]['cex'] = r2['cex']
                res[n]['cex_vals'] = r2.get('cex_vals')
    for h in harnesses:
        if h['name'] not in res:
            res[h['name']] = {'status': 'undecided', 'reason': 'harness not run (build error or timeout): ' + text[-800:].replace('\n', ' | ')}
    out['harness'] = res
    out['wall_s'] = time.time() - t0
    if rc == -9:
        out['error'] = 'cargo kani timed out after %ds' % timeout
    return out


def clean():
    return scratch.clean()
