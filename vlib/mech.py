"""Mechanical frame checks over the real source text (deciding only trivial
syntactic frame conditions that the verifiers' contracts then rely on)."""
import glob
import os
import re

from .rustlex import Source, LostAnchor, find_item, find_impl_block
from . import unitgen

REPO = unitgen.REPO


def frame_int_mode():
    """NEW_COMPILATION_LEVEL_INT is touched only by NewStyleIntConversion::{new, setting} and its Drop."""
    try:
        allowed = []
        src = unitgen.load_source('src/compiler/clvm.rs')
        for hdr, fns in (('NewStyleIntConversion', ['new', 'setting']), ('Drop for NewStyleIntConversion', ['drop'])):
            blocks = find_impl_block(src, hdr)
            if not blocks:
                return None, 'impl %s not found' % hdr
            for fn in fns:
                s, e, _ = find_item(src, 'fn', fn, within=blocks[0])
                allowed.append((s, e, fn))
        decl = re.search(r'thread_local!\s*\{[^}]*NEW_COMPILATION_LEVEL_INT[^}]*\}[^}]*\}', src.text)
        if not decl:
            return None, 'thread_local declaration not found'
        allowed.append((decl.start(), decl.end(), 'decl'))
    except LostAnchor as e:
        return None, str(e)
    bad = []
    for path in glob.glob(os.path.join(REPO, 'src', '**', '*.rs'), recursive=True):
        text = open(path, errors='replace').read()
        for m in re.finditer(r'NEW_COMPILATION_LEVEL_INT', text):
            if os.path.relpath(path, REPO) == 'src/compiler/clvm.rs':
                where = [n for s, e, n in allowed if s <= m.start() < e]
                if where:
                    if where[0] == 'setting' and 'borrow_mut' in text[m.start():m.start() + 80]:
                        bad.append('%s: setting() writes the mode' % path)
                    continue
            bad.append('%s:%d' % (os.path.relpath(path, REPO), text.count('\n', 0, m.start()) + 1))
    if bad:
        return False, 'NEW_COMPILATION_LEVEL_INT used outside new/setting/drop: ' + ', '.join(bad)
    return True, 'NEW_COMPILATION_LEVEL_INT is only named in its declaration, new, setting and drop'
